"""C08 — stochastic rounding: adjacent code, unbiased in training, exact at inference
(DESIGN.md §4 C08; model lean/QKV/Model/Stoch.lean; theorems lean/QKV/Props/C08.lean).

Streams
  prim      stochastic_round / _round_through / stochastic_round_po2 called directly, draws chosen
  train     every class with use_stochastic_rounding, K.learning_phase()=1, `tf.random.uniform`
            replaced by a function returning the tensor chosen here (u straddles frac)
  infer     learning phase 0: exact equality with the deterministic twin and with the model
  binary    binary(use_stochastic_rounding) (two draws), phase-0 shape behaviour
  ternary   ternary(alpha='auto_po2', use_stochastic_rounding, number_of_unrolls=1)
  sclass    stochastic_binary / stochastic_ternary: training sample step, phase-0 twins
  rng       un-patched tf.random: many seeds, every draw judged by the `adjacent` clause,
            empirical mean in the evidence only
  xc        (strengthening round) the same clause oracle on: numeric options given as numpy scalars /
            0-d arrays / tf constants, inputs of rank 0-5 and numpy inputs, histories on ONE object
            (phase switched between calls, shape changed between calls, use_stochastic_rounding
            re-assigned, K.learning_phase_scope, tf.function)
  lattice   (strengthening round) clause-only: at phase 0 every stochastic-capable class equals its
            use_stochastic_rounding=False twin built from the SAME options, over the option lattice
            the model does not cover (use_sigmoid, relu_upper_bound, is_quantized_clip, alpha='auto*',
            quantized_hswish, qnoise_factor, use_ste, bits=8 po2, max_value a power of two with an odd
            exponent ...), twice on the same object, without a single random draw
  sctor     (second strengthening round) the last clause on OBJECTS: stochastic_ternary / stochastic_binary /
            ternary(flag) against the deterministic class built from the SAME full argument set, over alpha x
            threshold x number_of_unrolls x temperature x use_real_sigmoid, four API routes, three argument forms,
            on "cascade" tensors on which the number of unrolls matters; attributes vs the Lean constructor
            model; whole-call Lean model (unrolled scale/threshold iteration) per channel
  layers    (third strengthening round) the quantizer reached through LAYER objects (QActivation from object /
            text / from_config, keras Activation, activation= of QDense / QConv2D, kernel_quantizer= of QDense,
            Sequential / functional Model.__call__, Model.predict / predict_on_batch), ONE layer object called
            with the same input signature while the learning phase is switched between the calls, both orders;
            same clause oracle; Lean history model layerRun (eager vs traced layer)
"""
from fractions import Fraction
import math

import numpy as np

from .. import core

ULP = Fraction(1, 2 ** 23)          # tf.random.uniform(float32) returns multiples of 2^-23 in [0,1)
TOP = 1 - ULP


class DrawError(Exception):
  pass


class Draws:
  """stand-in for tf.random.uniform: returns the queued tensors in call order"""

  def __init__(self, tf):
    self.tf = tf
    self.queue = []
    self.calls = 0
    self.active = False
    self.mods = []

  def install(self, mods):
    for m in mods:
      self.mods.append((m, m.uniform))
      m.uniform = self.fake
    self.active = True

  def uninstall(self):
    for m, orig in self.mods:
      m.uniform = orig
    self.mods = []
    self.active = False

  def fake(self, shape, minval=0, maxval=None, dtype=None, seed=None, name=None):
    tf = self.tf
    self.calls += 1
    if not self.queue:
      raise DrawError("unexpected draw #%d" % self.calls)
    u = np.asarray(self.queue.pop(0), dtype=np.float32)
    try:
      want = int(np.prod([int(d) for d in np.asarray(shape).reshape(-1)]))
    except Exception:  # pylint: disable=broad-except  (symbolic shape: let tf.reshape decide)
      want = u.size
    if want != u.size:
      raise DrawError("draw #%d has shape %s (%d values) for an input of %d elements: not one "
                      "independent draw per element" % (self.calls, list(np.asarray(shape).reshape(-1)), want, u.size))
    u = tf.reshape(tf.constant(u), shape)
    if maxval is None and (isinstance(minval, (int, float)) and minval == 0):
      return u
    if maxval is None:
      maxval = 1.0
    # what random_ops.random_uniform does with the unit draw
    return u * (maxval - minval) + minval


def fl23(fr):
  """largest multiple of 2^-23 that is <= fr, kept inside [0, 1-2^-23]"""
  k = math.floor(fr * 2 ** 23)
  return min(max(Fraction(k, 2 ** 23), Fraction(0)), TOP)


VARIANTS = ("zero", "below", "at", "above", "top", "rand")


def u_variant(name, fracs, rng, gap=1):
  """gap: distance (in 2^-23) of the 'above' draw from floor23(frac); 2 where the code's own
  `fraction` carries one float32 rounding (real tanh / sigmoid values are not short dyadics)"""
  out = []
  for fr in fracs:
    at = fl23(fr)
    if name == "zero":
      u = Fraction(0)
    elif name == "below":
      u = max(at - ULP, Fraction(0))
    elif name == "at":
      u = at
    elif name == "above":
      u = min(at + gap * ULP, TOP)
    elif name == "top":
      u = TOP
    else:
      u = Fraction(int(rng.integers(0, 2 ** 23)), 2 ** 23)
    out.append(u)
  return out


def f32list(fr_list):
  a = np.array([float(f) for f in fr_list], dtype=np.float32)
  for f, v in zip(fr_list, a):
    if Fraction(float(v)) != f:
      raise core.InfraError("generator produced a value that is not a float32: %s" % f)
  return a


def fr_list(arr):
  return [Fraction(float(v)) for v in np.asarray(arr, dtype=np.float64).reshape(-1)]


def enc(frs):
  return [[f.numerator, f.denominator] for f in frs]


def dec(ps):
  return [Fraction(int(p[0]), int(p[1])) for p in ps]


# --------------------------------------------------------------------------- configurations

def lattice_points(step, lo_k, hi_k, rng, n_codes=10):
  """codes, midpoints (ties), off-lattice points, out-of-range points — as Fractions"""
  ks = list(range(lo_k, hi_k + 1))
  if len(ks) > n_codes:
    inner = rng.choice(ks[1:-1], size=n_codes - 4, replace=False).tolist()
    ks = sorted(set([ks[0], ks[1], ks[-2], ks[-1]] + [int(k) for k in inner]))
  pts = []
  for k in ks:
    pts.append(Fraction(k) * step)                              # code
    pts.append((Fraction(k) + Fraction(1, 2)) * step)           # tie / half step
    pts.append((Fraction(k) + Fraction(int(rng.integers(1, 16)), 16)) * step)
    pts.append((Fraction(k) + Fraction(int(rng.integers(1, 64)), 64)) * step)
  for d in (Fraction(3, 2), Fraction(13, 4), Fraction(8)):
    pts.append((Fraction(hi_k) + d) * step)                     # saturated high
    pts.append((Fraction(lo_k) - d) * step)                     # saturated low
  pts += [Fraction(0), step / 64, -step / 64]
  return pts


def fixed_configs(tier, rng):
  """(cls, cfg dict) for the fixed-point family"""
  out = []
  big = tier != "quick"
  bits_l = [2, 3, 4, 8] + ([5, 6, 12] if big else [])
  for bits in bits_l:
    for integer in ([0, 1, 2] if bits <= 4 or big else [0, 3]):
      for kn in (True, False):
        for sym in ((0, 1) if bits <= 4 or big else (0,)):
          out.append(("quantized_bits", dict(bits=bits, integer=integer, symmetric=sym, keep_negative=kn,
                                              alpha=None)))
          for alpha in (None, 2.0, 0.5) if (bits in (2, 4) and integer == 0) else (None,):
            out.append(("quantized_linear", dict(bits=bits, integer=integer, symmetric=sym,
                                                 keep_negative=kn, alpha=alpha)))
  out.append(("quantized_bits", dict(bits=1, integer=0, symmetric=0, keep_negative=True, alpha=None)))
  out.append(("quantized_bits", dict(bits=1, integer=0, symmetric=0, keep_negative=False, alpha=None)))
  out.append(("quantized_linear", dict(bits=1, integer=0, symmetric=1, keep_negative=True, alpha=None)))
  out.append(("quantized_linear", dict(bits=1, integer=0, symmetric=1, keep_negative=False, alpha=None)))
  for bits in [2, 3, 4, 8] + ([6] if big else []):
    for integer in (0, 1, 2):
      out.append(("quantized_relu", dict(bits=bits, integer=integer, negative_slope=0.0)))
    if bits >= 4:
      for ns in (0.25, 0.5) + ((2.0,) if bits == 4 else ()):      # slope > 1 is legal (a power of two)
        out.append(("quantized_relu", dict(bits=bits, integer=1, negative_slope=ns)))
  for bits in [2, 3, 4, 8] + ([6] if big else []):
    for sym in (False, True):
      for real in (False, True):
        out.append(("quantized_tanh", dict(bits=bits, symmetric=sym, use_real_tanh=real)))
        out.append(("quantized_sigmoid", dict(bits=bits, symmetric=sym, use_real_sigmoid=real)))
  return out


def po2_mode(cfg):
  fl = cfg.get("log2_rounding", "rnd") == "floor"
  qd = bool(cfg.get("quadratic_approximation", False))
  return "floor+quad" if (fl and qd) else ("floor" if fl else ("quad" if qd else "rnd"))


def po2_configs(tier):
  """the FULL option lattice of the two power-of-two classes: bits x max_value x log2_rounding x
  quadratic_approximation x negative_slope (0, < 1, 1, > 1); every configuration is run with the flag
  on (training and inference) and compared with the twin built from the same options with the flag off.
  max_value 0.5 = 2^-1 is left to the lattice stream: under quadratic approximation sqrt(0.5) sits
  exactly on the round-half-even tie of the float logarithm (device 3 band)."""
  out = []
  big = tier != "quick"
  for bits in (3, 4, 5) + ((6,) if big else ()):
    for mv in (None, 1.0, 3.0, 4.0, 0.75):
      for rounding in ("rnd", "floor"):
        for quad in (False, True):
          full = bits == 4 or big
          if not full and (mv in (1.0, 0.75) and (rounding == "floor" or quad)):
            continue            # quick: the complete lattice at bits=4, a covering subset elsewhere
          opt = dict(log2_rounding=rounding, quadratic_approximation=quad)
          out.append(("quantized_po2", dict(bits=bits, max_value=mv, **opt)))
          slopes = (0, 0.25, 1.0, 2.0) if full else ((0, 2.0) if mv is None else (0.25,))
          for ns in slopes:
            out.append(("quantized_relu_po2", dict(bits=bits - 1, max_value=mv, negative_slope=ns, **opt)))
  return out


def _form(v, form):
  """the same number in another argument form (cross-cutting blind spot: argument forms)"""
  if v is None or isinstance(v, (bool, str)) or form == "py":
    return v
  integral = float(v) == int(v) and isinstance(v, int)
  if form == "np32":
    return np.int32(v) if integral else np.float32(v)
  if form == "np64":
    return np.int64(v) if integral else np.float64(v)
  if form == "0d":
    return np.array(v)
  if form == "tf":
    import tensorflow as tf
    return tf.constant(v)
  raise ValueError(form)


FORM_KEYS = ("bits", "integer", "max_value", "negative_slope", "alpha")


def make_q(Q, cls, cfg, stoch, form="py"):
  kw = dict(cfg)
  if form != "py":
    for k in FORM_KEYS:
      if k in kw:
        kw[k] = _form(kw[k], form)
  kw["use_stochastic_rounding"] = stoch
  return getattr(Q, cls)(**kw)


def fixed_inputs(cls, cfg, rng):
  """input values (Fractions) aimed at the model's case splits for this configuration"""
  if cls in ("quantized_bits", "quantized_linear"):
    bits, integer, kn = cfg["bits"], cfg["integer"], cfg["keep_negative"]
    alpha = Fraction(cfg["alpha"]) if (cls == "quantized_linear" and cfg["alpha"]) else Fraction(1)
    ub = bits - int(kn)
    if cls == "quantized_linear" and bits == 1 and kn:
      step = alpha * Fraction(2) ** (integer - bits + 1)
      return [step * Fraction(j, 16) for j in range(-14, 15)] + [Fraction(0), 3 * step, -3 * step]
    if ub <= 0:
      return [Fraction(j, 8) for j in range(-9, 10)]
    step = alpha * Fraction(2) ** (integer - ub)
    lo_k = -(2 ** ub) if kn else 0
    return lattice_points(step, lo_k, 2 ** ub - 1, rng)
  if cls == "quantized_relu":
    nsb = cfg["bits"] - int(cfg["negative_slope"] != 0)
    step = Fraction(2) ** (cfg["integer"] - nsb)
    pts = lattice_points(step, 0, 2 ** nsb - 1, rng)
    if cfg["negative_slope"]:
      ns = Fraction(cfg["negative_slope"])
      # negative side: the rounded level is x*slope/step
      pts += [-(p / ns) for p in lattice_points(step, 0, int(ns * 2 ** nsb), rng, n_codes=6) if p > 0]
    return pts
  if cls == "quantized_tanh":
    m = 2 ** (cfg["bits"] - 1)
    pts = lattice_points(Fraction(1, m), -m, m - 1, rng)
    if cfg["use_real_tanh"]:
      return pts + [Fraction(int(rng.integers(-4096, 4096)), 1024) for _ in range(16)]
    return pts                     # 2*hard_sigmoid(x)-1 = clip(x,-1,1): x is the level directly
  if cls == "quantized_sigmoid":
    m = 2 ** cfg["bits"]
    pts = lattice_points(Fraction(1, m), 0, m - 1, rng)
    if cfg["use_real_sigmoid"]:
      return [4 * p - 2 for p in pts] + [Fraction(int(rng.integers(-8192, 8192)), 1024) for _ in range(16)]
    return [2 * p - 1 for p in pts]  # hard_sigmoid(x) = clip(x/2+1/2, 0, 1)
  raise ValueError(cls)


def po2_mag(cls, cfg, x):
  """the non-negative magnitude handed to _clip_power_of_two for this element, after x_filter
  (exact; mirrors the property text's "(clipped) input", not the Lean model)"""
  if cls == "quantized_relu_po2":
    ns = Fraction(cfg["negative_slope"])
    m = (x if x > 0 else Fraction(0)) if (x >= 0 or ns == 0) else -x * ns
  else:
    m = abs(x)
  eps = Fraction(float(np.float32(1e-7)))
  m = eps if m < eps else m
  if cfg.get("max_value") is not None and m >= Fraction(cfg["max_value"]):
    m = Fraction(cfg["max_value"])
  return m


def _is_odd_pow2(m):
  if m <= 0:
    return False
  if m.numerator != 1 and m.denominator != 1:
    return False
  e = m.numerator.bit_length() - 1 if m.denominator == 1 else -(m.denominator.bit_length() - 1)
  return Fraction(2) ** e == m and e % 2 != 0


def po2_inputs(cls, cfg, rng):
  pts = [Fraction(0)]
  for e in range(-7, 5):
    b = Fraction(2) ** e
    pts += [b, b * Fraction(3, 2), b * Fraction(5, 4), b * Fraction(129, 128), b * Fraction(255, 128),
            b * (1 + Fraction(int(rng.integers(1, 128)), 128))]
  if cfg.get("quadratic_approximation"):
    # codes 4^e, perfect squares (the float sqrt is exact), points next to both ends of a 4^e bracket
    for e in range(-3, 3):
      b = Fraction(4) ** e
      pts += [b * Fraction(9, 4), b * Fraction(25, 16), b * Fraction(49, 16), b * Fraction(129, 128) ** 2,
              b * Fraction(255, 128) ** 2, b * Fraction(511, 128), b * 3,
              b * (1 + Fraction(int(rng.integers(1, 128)), 128)) ** 2]
  pts += [-p for p in pts[1::3]]
  if cfg.get("max_value"):
    mv = Fraction(cfg["max_value"])
    pts += [mv, mv * Fraction(127, 128), mv * Fraction(129, 128), mv * 3]
  if cfg.get("quadratic_approximation"):
    # x_filter = 2^odd: sqrt sits exactly on the half-even tie of round(log2) evaluated in float32
    pts = [p for p in pts if not _is_odd_pow2(po2_mag(cls, cfg, p))]
  return pts


def po2_sqrt_oracle(tf, cls, cfg, xs32):
  """tf.sqrt(x_filter) of the selected side, by the same TF op (device 2); float32 array"""
  x = np.asarray(xs32, dtype=np.float32)
  if cls == "quantized_relu_po2":
    ns = np.float32(cfg["negative_slope"])
    mag = np.where((x >= 0) | (ns == 0), np.maximum(x, np.float32(0)), (-x) * ns).astype(np.float32)
  else:
    mag = np.abs(x)
  eps = np.float32(1e-7)
  f = np.where(mag < eps, eps, mag).astype(np.float32)
  if cfg.get("max_value") is not None:
    mv = np.float32(cfg["max_value"])
    f = np.where(f >= mv, mv, f).astype(np.float32)
  return np.asarray(tf.sqrt(tf.constant(f)).numpy(), dtype=np.float32)


def model_line(cls, cfg, stoch, phase, xs, u1=None, u2=None, extra=None, s=None):
  d = {"op": "q", "cls": cls, "phase": phase, "stoch": stoch, "x": enc(xs)}
  if cls in ("quantized_bits", "quantized_linear"):
    d.update(bits=cfg["bits"], integer=cfg["integer"], symmetric=bool(cfg["symmetric"]),
             keep_negative=cfg["keep_negative"], alpha=core.rj(cfg["alpha"] if cfg["alpha"] else 1))
  elif cls == "quantized_relu":
    d.update(bits=cfg["bits"], integer=cfg["integer"], neg_slope=core.rj(cfg["negative_slope"]))
  elif cls in ("quantized_tanh", "quantized_sigmoid"):
    d.update(bits=cfg["bits"], symmetric=bool(cfg["symmetric"]))
  elif cls in ("quantized_po2", "quantized_relu_po2"):
    d.update(bits=cfg["bits"], max_value=None if cfg["max_value"] is None else core.rj(cfg["max_value"]),
             floor=cfg.get("log2_rounding", "rnd") == "floor", quad=bool(cfg.get("quadratic_approximation", False)))
    if cls == "quantized_relu_po2":
      d["neg_slope"] = core.rj(cfg["negative_slope"])
    if s is not None:
      d["s"] = enc(s)
  if u1 is not None:
    d["u1"] = enc(u1)
  if u2 is not None:
    d["u2"] = enc(u2)
  if extra:
    d.update(extra)
  return d


def q_draws(cls, cfg):
  """draws QUEUED for a training call: what the class can consume at most"""
  if cls == "quantized_bits" and cfg["bits"] - int(cfg["keep_negative"]) <= 0:
    return 0          # sign branch: no _round_through call
  if cls == "quantized_relu":
    return 2 if cfg["negative_slope"] > 0 else 1
  if cls == "quantized_relu_po2":
    return 2
  return 1


def n_draws(cls, cfg):
  """draws the MODEL consumes in training (log2_rounding="floor": `power_of_two_clip` tests "floor"
  before the stochastic flag, so nothing is drawn)"""
  if "po2" in cls and cfg.get("log2_rounding", "rnd") == "floor":
    return 0
  return q_draws(cls, cfg)


# --------------------------------------------------------------------------- the check

def run(run: core.Run, tier: str):
  core.assert_repo_import()
  import tensorflow as tf
  from qkeras import quantizers as Q
  from tensorflow.keras import backend as K
  rng = np.random.default_rng(run.seed)
  quick = tier == "quick"
  run.extra["rule"] = (
      "inputs per configuration: every (sampled) code k*step, the half step (k+1/2)*step (tie of "
      "round-half-even), off-lattice points, both saturation sides, 0; power-of-two classes: 2^e, "
      "1.5*2^e, points next to 2^e and 2^(e+1), max_value edges. Draws u are chosen, not sampled: 0, "
      "floor23(frac)-2^-23, floor23(frac), +2^-23, 1-2^-23 and one seeded random multiple of 2^-23 "
      "(frac = probability of the upper code from the Lean reference; +2*2^-23 for real tanh/sigmoid, "
      "whose `fraction` carries one float32 rounding <= 2^-25). All other values are short dyadics so "
      "float32 arithmetic is exact. Power-of-two classes: the FULL option lattice bits x max_value x "
      "log2_rounding {rnd, floor} x quadratic_approximation x negative_slope {0, 1/4, 1, 2} (complete at "
      "bits=4, covering subset at the other widths in quick), each with the flag on (training, inference) "
      "against the twin built from the same options with the flag off; quadratic inputs add codes 4^e, "
      "perfect squares and both ends of a 4^e bracket and exclude x_filter = 2^odd (float tie of the "
      "deterministic path). Cross-cutting streams (12 configurations): numeric options as np.int32/"
      "np.float32, np.int64/np.float64, 0-d ndarray, tf.constant; the flag as 1, np.bool_, 0-d bool; "
      "from_config(get_config()) and get_quantizer(str(q)) routes; ranks 0-5 with size-1 dimensions, numpy "
      "vs tensor inputs; one object through phase 0 -> 1 -> 0 -> 1 (plain, K.learning_phase_scope, "
      "tf.function), shape changed between calls, built under the opposite phase, "
      "use_stochastic_rounding re-assigned off/on; set_internal_sigmoid smooth/real switched after "
      "construction. Lattice stream: ~300 option combinations outside the model, inference clause only. "
      "sctor stream: stochastic_ternary / stochastic_binary / ternary(flag) over alpha {None,1,0.5,2,auto,auto_po2} x "
      "threshold {None,0,0.25,0.33,0.5,2} x number_of_unrolls {0,1,2,3,5,8} x temperature x use_real_sigmoid, routes "
      "keywords / positional / from_config / get_quantizer(str), argument forms python / np32 / np64, against the "
      "deterministic class built from the same shared arguments at phase 0 on cascade tensors (every iteration of "
      "the scale/threshold loop changes the zero pattern; sensitivity per unroll count is measured on the real "
      "code: histogram unroll_*), second call, after a training call, after number_of_unrolls is re-assigned, "
      "after _set_trainable_parameter; attributes vs the Lean constructors; Lean whole-call model per channel "
      "(exact for auto_po2 inside the 2^-10 band around sqrt2*2^k and for numeric alpha, sign pattern for auto). "
      "layers stream: the 12 cross-cutting configurations x 9 eager layer routes (QActivation object / text / "
      "from_config, keras Activation, QDense / QConv2D activation=, QDense kernel_quantizer=, Sequential / functional "
      "Model.__call__) x phase orders (1,0,1,0) and (0,1,0,1) on ONE layer object with the same input signature "
      "(built under the opposite phase), then a second signature; Model.predict / predict_on_batch (3 configurations "
      "in quick) against the traced layer model; stochastic_binary / stochastic_ternary / binary(flag) / "
      "ternary(flag) behind the activation routes against the deterministic counterpart (phase 0) and a fresh bare "
      "quantizer under the same draws (training). "
      "non-trivial = distinct (class, configuration, stream, variant)")
  run.assumptions += [
      "tf.random.uniform returns float32 multiples of 2^-23 in [0,1), independent per element; it is "
      "replaced in the harness process by a function returning chosen tensors (train stream) and used "
      "un-patched in the rng stream",
      "expectation = input is proved algebraically (round-up set is {u <= frac}, mean identity); the "
      "measure-theoretic step P(u <= frac) = frac for a uniform draw is not formalised",
      "tanh / sigmoid values enter the model as oracle arguments computed by the same TF op",
      "round(log2(y+eps)) inside stochastic_round_po2 is an oracle the theorems only need within 1 "
      "of log2 y (LogOK); the driver evaluates that hypothesis on every case (h_ok)",
      "tf.sqrt(x_filter) under quadratic_approximation is an oracle argument of the model computed by "
      "the same TF op; the driver checks s*s = x_filter within 2^-22 (relative) on every case and the "
      "theorems hold for every s",
      "element-wise model: K.max(|x|) (binary) and the auto_po2 start scale (ternary) are computed by "
      "the harness with numpy / the same TF ops and passed in",
  ]
  consts = core.run_driver("C08", [{"op": "consts"}])[0]
  run.extra["model_act_precision"] = str(core.unrj(consts["act_precision"]))

  draws = Draws(tf)
  mods = [Q.tf.random]
  if tf.random is not Q.tf.random:
    mods.append(tf.random)
  draws.install(mods)

  def call(q, xs_f32, ulists, phase, shape=None, as_numpy=False, scope=None, graph=False):
    """run the real quantizer with the given draws; returns (flat float32 array | exception, leftover).
    as_numpy: hand the numpy array itself to the quantizer; scope: set the GLOBAL phase to the opposite
    value and enter K.learning_phase_scope(phase); graph: call through tf.function"""
    if scope:
      K.set_learning_phase(0 if phase else 1)
    else:
      K.set_learning_phase(1 if phase else 0)
    x = np.asarray(xs_f32, dtype=np.float32)
    if shape is not None:
      x = x.reshape(shape)
    draws.queue = [np.asarray(u, dtype=np.float32) for u in ulists]
    draws.calls = 0
    try:
      arg = x if as_numpy else tf.constant(x)
      fn = tf.function(lambda t: q(t)) if graph else q
      if scope:
        with K.learning_phase_scope(1 if phase else 0):
          y = fn(arg)
      else:
        y = fn(arg)
      y = np.asarray(y.numpy() if hasattr(y, "numpy") else y, dtype=np.float32)
    except Exception as e:  # pylint: disable=broad-except  (the real code raised; the caller judges it)
      left = len(draws.queue)
      draws.queue = []
      return e, left
    left = len(draws.queue)
    draws.queue = []
    if y.shape != x.shape:
      return ValueError("output shape %s for input shape %s" % (y.shape, x.shape)), left
    return y.reshape(-1), left

  try:
    _prim(run, tier, rng, tf, Q, K, draws)
    cases = _classes(run, tier, rng, tf, Q, K, draws, call)
    _crosscut(run, tier, rng, tf, Q, K, draws, call, cases)
    _layers(run, tier, np.random.default_rng([run.seed, 909]), tf, Q, K, draws, call, cases)
    _lattice(run, tier, rng, tf, Q, K, draws, call)
    _live(run, tier, rng, tf, Q, K, draws, call)
    if not quick:
      # three more input/draw samples of the same configuration grid
      for extra in range(3):
        _classes(run, tier, np.random.default_rng([run.seed, extra + 1]), tf, Q, K, draws, call)
    _binary(run, tier, rng, tf, Q, K, draws, call)
    _ternary(run, tier, rng, tf, Q, K, draws, call)
    _sclasses(run, tier, rng, tf, Q, K, draws, call)
    _sctor(run, tier, np.random.default_rng([run.seed, 808]), tf, Q, K, draws, call)
  finally:
    draws.uninstall()
    K.set_learning_phase(0)
  _rng_stream(run, tier, rng, tf, Q, K)
  K.set_learning_phase(0)


# ---- prim -------------------------------------------------------------------------------------

def _prim(run, tier, rng, tf, Q, K, draws):
  lines, impls, meta = [], [], []
  xs = [Fraction(int(rng.integers(-2048, 2048)), 256) for _ in range(48)] + \
       [Fraction(k, 2) for k in range(-6, 7)] + [Fraction(0)]
  for prec in (1.0, 0.5, 0.25, 0.125):
    fr = [(x / Fraction(prec)) - math.floor(x / Fraction(prec)) for x in xs]
    for v in VARIANTS:
      us = u_variant(v, fr, rng)
      draws.queue = [f32list(us)]
      y = Q.stochastic_round(tf.constant(f32list(xs)), prec).numpy()
      lines.append({"op": "sr", "x": enc(xs), "u": enc(us), "prec": core.rj(prec)})
      impls.append(fr_list(y))
      meta.append(("stochastic_round", prec, v, xs, us))
      for phase in (0, 1):
        for stoch in (False, True):
          K.set_learning_phase(phase)
          draws.queue = [f32list(us)]
          y = Q._round_through(tf.constant(f32list(xs)), stoch, prec)
          y = y.numpy()
          if draws.queue and (phase == 1 and stoch):
            run.disagree("prim", {"fn": "_round_through", "phase": phase, "stoch": stoch}, "no draw", "one draw")
          if not draws.queue and not (phase == 1 and stoch):
            run.disagree("prim", {"fn": "_round_through", "phase": phase, "stoch": stoch}, "draw", "no draw")
          draws.queue = []
          lines.append({"op": "rt", "x": enc(xs), "u": enc(us), "prec": core.rj(prec), "phase": bool(phase),
                        "stoch": stoch})
          impls.append(fr_list(y))
          meta.append(("_round_through", (prec, phase, stoch), v, xs, us))
  # stochastic_round_po2 directly
  ys = []
  for e in range(-8, 8):
    b = Fraction(2) ** e
    ys += [b, b * Fraction(3, 2), b * Fraction(129, 128), b * Fraction(255, 128), b * Fraction(181, 128),
           -b * Fraction(5, 4)]
  fr = []
  for y in ys:
    a = abs(y)
    l = math.floor(math.log2(a))
    while Fraction(2) ** l > a:
      l -= 1
    while Fraction(2) ** (l + 1) <= a:
      l += 1
    fr.append((a - Fraction(2) ** l) / Fraction(2) ** l)
  for v in VARIANTS:
    us = u_variant(v, fr, rng)
    draws.queue = [f32list(us)]
    y = Q.stochastic_round_po2(tf.constant(f32list(ys))).numpy()
    lines.append({"op": "srpo2", "x": enc(ys), "u": enc(us)})
    impls.append(fr_list(y))
    meta.append(("stochastic_round_po2", None, v, ys, us))
  outs = core.run_driver("C08", lines)
  for (fn, par, v, xs_, us), impl, o in zip(meta, impls, outs):
    model = dec(o["y"]) if fn != "stochastic_round_po2" else [Fraction(int(t)) for t in o["y"]]
    run.case(("prim", fn, str(par), v), sample={"fn": fn, "par": str(par), "variant": v,
                                               "x": str(xs_[0]), "u": str(us[0]), "impl": str(impl[0])})
    run.compared += len(impl)
    run.count("prim_%s" % fn, len(impl))
    if fn == "stochastic_round_po2" and not all(o["h_ok"]):
      run.disagree("prim", {"fn": fn, "what": "LogOK hypothesis false on a generated input"}, None, o["h_ok"])
    for i, (a, b) in enumerate(zip(impl, model)):
      if a != b:
        run.disagree("prim", {"fn": fn, "par": str(par), "variant": v, "x": str(xs_[i]), "u": str(us[i])},
                     str(a), str(b))
        break


# ---- fixed-point and power-of-two classes --------------------------------------------------------

def _oracle_p(tf, Q, K, cls, cfg, xs32):
  """value that enters the rounding for tanh / sigmoid, computed by the same TF op"""
  x = tf.constant(xs32)
  if cls == "quantized_tanh":
    p = K.tanh(x) if cfg["use_real_tanh"] else 2.0 * Q._sigmoid(x) - 1.0
  else:
    p = K.sigmoid(x) if cfg["use_real_sigmoid"] else Q._sigmoid(x)
  return np.asarray(p.numpy(), dtype=np.float32)


def build_case(tf, Q, K, cls, cfg, rng):
  xs = po2_inputs(cls, cfg, rng) if "po2" in cls else fixed_inputs(cls, cfg, rng)
  xs32 = f32list(xs)
  if cls in ("quantized_tanh", "quantized_sigmoid"):
    ps = fr_list(_oracle_p(tf, Q, K, cls, cfg, xs32))
  else:
    ps = xs
  ss = None
  if "po2" in cls and cfg.get("quadratic_approximation"):
    ss = fr_list(po2_sqrt_oracle(tf, cls, cfg, xs32))
  return dict(cls=cls, cfg=cfg, xs=xs, xs32=xs32, ps=ps, ss=ss)


def case_line(c, stoch, phase, u1=None, u2=None):
  return model_line(c["cls"], c["cfg"], stoch, phase, c["ps"], u1, u2, s=c.get("ss"))


def attach_refs(run, cases):
  """pass 1: the reference notions (below / above / frac / is-code) do not depend on the draw"""
  ref = core.run_driver("C08", [case_line(c, True, True) for c in cases])
  for c, r in zip(cases, ref):
    cls, cfg = c["cls"], c["cfg"]
    c["ref"] = r
    if "po2" in cls:
      if not all(r["bracket_ok"]):
        run.disagree("train", {"cls": cls, "cfg": str(cfg), "what": "floorLog2 bracket wrong"}, None, None)
      bad_h = [str(x) for x, ok, tiny in zip(c["xs"], r["h_ok"], r["tiny"]) if not ok and not tiny]
      if bad_h:
        run.disagree("train", {"cls": cls, "cfg": str(cfg), "what": "LogOK false", "x": bad_h[:3]}, None, None)
      if not all(r["sqrt_ok"]):
        run.disagree("train", {"cls": cls, "cfg": str(cfg), "what": "sqrt oracle is not the square root"},
                     None, None)
      run.count("po2_sqrt_exact_inputs", sum(1 for v in r["sqrt_exact"] if v) if c.get("ss") else 0)
    lat = "below" in r
    c["fracs"] = dec(r["frac"]) if lat else [Fraction(0)] * len(c["xs"])


def sub_case(c, idx):
  """the same case restricted to the elements idx (for scalar / small-tensor calls)"""
  n = len(c["xs"])
  d = dict(c)
  for k in ("xs", "ps", "ss", "fracs"):
    if c.get(k) is not None:
      d[k] = [c[k][i] for i in idx]
  d["xs32"] = np.asarray([c["xs32"][i] for i in idx], dtype=np.float32)
  d["ref"] = {k: ([v[i] for i in idx] if isinstance(v, list) and len(v) == n else v) for k, v in c["ref"].items()}
  return d


def train_rec(c, q, call, rng, variant, tag=None, lines=None, recs=None, **kw):
  """one training-phase call of the real quantizer `q` on case `c` with the chosen draws `variant`"""
  cls, cfg = c["cls"], c["cfg"]
  gap = 2 if (cfg.get("use_real_tanh") or cfg.get("use_real_sigmoid") or c.get("gap")) else 1
  nq, nm = q_draws(cls, cfg), n_draws(cls, cfg)
  u1 = u_variant(variant, c["fracs"], rng, gap)
  u2 = u_variant(variant, c["fracs"], rng, gap) if nq == 2 else None
  ul = ([f32list(u1)] if nq >= 1 else []) + ([f32list(u2)] if nq == 2 else [])
  if kw.get("shape") is not None:
    ul = [u.reshape(kw["shape"]) for u in ul]
  y, left = call(q, c["xs32"], ul, True, **kw)
  lines.append(case_line(c, True, True, u1, u2))
  recs.append(dict(c=c, stream="train", variant=tag or variant, u1=u1, u2=u2, y=y, left=left,
                   expect_left=nq - nm))


def infer_rec(c, q, qd, call, tag, lines, recs, phase=False, stoch_model=True, **kw):
  """a call that must be deterministic and equal to the twin `qd` (flag off) at either phase: the flag
  on at phase 0, or (stoch_model=False) an object whose flag was switched off, at `phase`"""
  y0, left0 = call(q, c["xs32"], [], phase, **kw)
  kw2 = {k: v for k, v in kw.items() if k in ("shape", "as_numpy")}
  yt0, _ = call(qd, c["xs32"], [], False, **kw2)
  yt1, _ = call(qd, c["xs32"], [], True, **kw2)
  lines.append(case_line(c, stoch_model, phase))
  recs.append(dict(c=c, stream="infer", variant=tag, y=y0, left=left0, twin0=yt0, twin1=yt1, expect_left=0))


def _classes(run, tier, rng, tf, Q, K, draws, call):
  cfgs = fixed_configs(tier, rng) + po2_configs(tier)
  cases = [build_case(tf, Q, K, cls, cfg, rng) for cls, cfg in cfgs]
  attach_refs(run, cases)
  lines, recs = [], []
  for c in cases:
    cls, cfg = c["cls"], c["cfg"]
    if "po2" in cls:
      run.count("po2_cfg_%s_%s" % (cls, po2_mode(cfg)))
    qs = make_q(Q, cls, cfg, True)
    qd = make_q(Q, cls, cfg, False)
    # ---- training, chosen draws
    for v in VARIANTS:
      train_rec(c, qs, call, rng, v, lines=lines, recs=recs)
    # ---- inference: stochastic flag at phase 0, twin (same options, flag off) at phase 0 and 1
    infer_rec(c, qs, qd, call, "phase0", lines, recs)
  outs = core.run_driver("C08", lines)
  for rec, o in zip(recs, outs):
    _judge_class(run, rec, o)
  return cases


def _judge_class(run, rec, o):
  c = rec["c"]
  cls, cfg, xs, ps, r = c["cls"], c["cfg"], c["xs"], c["ps"], c["ref"]
  ident = {"cls": cls, "cfg": str(cfg), "stream": rec["stream"], "variant": rec["variant"]}
  # known-finding key: class (+ option mode of the power-of-two classes) + kind (+ the layer route)
  kbase = {"class": cls}
  if rec.get("route"):
    # eager routes share one key (one defect = one line; the route is in the detail); the Keras-traced
    # predict routes have their own
    kbase["route"] = rec["route"] if rec["route"] in PREDICT_ROUTES else "layer"
    ident["route"] = rec["route"]
    ident["history"] = rec.get("history")
    if rec.get("replay"):
      # Model.predict: this call re-runs the tf.function traced at the FIRST predict of this model object
      kbase["trace"] = "replayed"
  mode = None
  if "po2" in cls:
    mode = po2_mode(cfg)
    kbase["mode"] = mode
  run.case((cls, str(cfg), rec["stream"], rec["variant"]),
           sample=dict(ident, x=str(xs[min(1, len(xs) - 1)]),
                       u=str(rec["u1"][min(1, len(xs) - 1)]) if rec.get("u1") else None))
  model = dec(o["y"])
  y = rec["y"]
  if isinstance(y, Exception):
    run.disagree(rec["stream"], ident, "exception: %s" % y, "value")
    if isinstance(y, DrawError) and rec["stream"] == "infer":
      run.violate("inference_equal", dict(kbase, kind="random-draw-at-inference"),
                  dict(ident, error=str(y)), mirrored=False)
    else:
      run.violate("runs", dict(kbase, kind=type(y).__name__), dict(ident, error=str(y)[:300]), mirrored=False)
    return
  if rec["left"] != rec.get("expect_left", 0):
    run.disagree(rec["stream"], dict(ident, what="number of tf.random.uniform calls differs from the model's draws"),
                 "left in queue: %d" % rec["left"], "left in queue: %d" % rec.get("expect_left", 0))
  impl = fr_list(y)
  run.compared += len(impl)
  lat = "below" in r
  below = dec(r["below"]) if lat else None
  above = dec(r["above"]) if lat else None
  fracs = dec(r["frac"]) if lat else None
  agree = [a == b for a, b in zip(impl, model)]
  for i, ok in enumerate(agree):
    if not ok:
      run.disagree(rec["stream"], dict(ident, x=str(xs[i]), p=str(ps[i]),
                                       u1=str(rec["u1"][i]) if rec.get("u1") else None),
                   str(impl[i]), str(model[i]))
      break
  if rec["stream"] == "infer":
    # clause: phase 0 == the deterministic twin (at either phase), bit for bit
    for nm in ("twin0", "twin1"):
      t = rec[nm]
      if isinstance(t, Exception):
        run.disagree("infer", dict(ident, what="twin raised"), str(t), None)
        continue
      tw = fr_list(t)
      bad = [i for i in range(len(impl)) if impl[i] != tw[i]]
      run.count("infer_%s_elems" % cls, len(impl))
      if bad:
        i = bad[0]
        run.violate("inference_equal", dict(kbase, kind="value"),
                    dict(ident, twin=nm, x=str(xs[i]), stochastic_flag_output=str(impl[i]),
                         deterministic_output=str(tw[i]), n_bad=len(bad)), mirrored=agree[i])
    return
  if not lat:
    run.count("train_%s_signbranch" % cls, len(impl))
    return
  u1 = rec["u1"]
  neg_side = [False] * len(xs)
  if cls == "quantized_relu" and cfg["negative_slope"] > 0:
    neg_side = [x < 0 for x in xs]
  if cls == "quantized_relu_po2":
    neg_side = [(x < 0 and cfg["negative_slope"] != 0) for x in xs]
  clipped = dec(r["clipped"])
  tag = ("_" + mode) if mode and mode != "rnd" else ""
  for i, yi in enumerate(impl):
    lo_, hi_ = min(below[i], above[i]), max(below[i], above[i])
    u = rec["u2"][i] if (neg_side[i] and rec.get("u2")) else u1[i]
    if below[i] == above[i]:
      # the clipped input is itself a code: it must come back unchanged, whatever the draw
      run.count("train_%s%s_%s" % (cls, tag, "code" if r["xcode"][i] else "saturated"))
      if yi != below[i]:
        kind = "u0_roundup" if ("po2" in cls and u == 0 and abs(yi) == 2 * abs(below[i])) else "other"
        run.violate("code_fixed", dict(kbase, kind=kind),
                    dict(ident, x=str(xs[i]), clipped_input=str(clipped[i]), u=str(u), output=str(yi)),
                    mirrored=agree[i])
      continue
    run.count("train_%s%s_interior" % (cls, tag))
    # clause adjacent
    if yi != below[i] and yi != above[i]:
      kind = "midpoint" if 2 * yi == below[i] + above[i] else ("between" if lo_ < yi < hi_ else "outside")
      run.violate("adjacent", dict(kbase, kind=kind),
                  dict(ident, x=str(xs[i]), clipped_input=str(clipped[i]), u=str(u), output=str(yi),
                       code_below=str(below[i]), code_above=str(above[i])), mirrored=agree[i])
      continue
    # clause threshold (the draw set that rounds up is {u <= frac}: unbiasedness)
    # judged strictly on either side of frac; at u == frac exactly both outcomes leave P(up) within
    # 2^-23 of frac (the model, like the code, rounds up there for stochastic_round and down for
    # stochastic_round_po2 — a change shows as a disagreement)
    up = (yi == above[i])
    if (u < fracs[i] and not up) or (u > fracs[i] and up):
      kind = "up" if up else "down"
      if up and mode == "quad":
        # the recorded defect of quadratic_approximation: the draw is compared with the position of
        # sqrt(x) between 2^l and 2^(l+1) instead of the position of x between 4^l and 4^(l+1):
        # up although u > frac, but u is still below the sqrt-domain fraction  <=>  x > 4^l (1+u)^2
        if abs(clipped[i]) > abs(below[i]) * (1 + u) ** 2:
          kind = "up_sqrt_domain"
      run.violate("threshold", dict(kbase, kind=kind),
                  dict(ident, x=str(xs[i]), clipped_input=str(clipped[i]), u=str(u), frac=str(fracs[i]),
                       output=str(yi), code_below=str(below[i]), code_above=str(above[i])), mirrored=agree[i])


# ---- binary(use_stochastic_rounding) ----------------------------------------------------------------

def _binary(run, tier, rng, tf, Q, K, draws, call):
  lines, recs = [], []
  n = 12
  # the last channel is ALL ZERO: f = 2*min(max|x|, 1) = 0 there; x/f used to be 0/0 = NaN in training
  # (value and gradient) until the repair of binary.__call__ (`f = tf.where(f > 0, f, 1)`); the model's
  # rational 0/0 = 0 is what the repaired code computes (x = 0, so x/f = 0 for every positive f)
  col_max = [Fraction(1, 4), Fraction(1, 64), Fraction(1), Fraction(3), Fraction(1, 2), Fraction(0)]
  cols = []
  for m in col_max:
    mc = min(m, Fraction(1))
    f = 2 * mc
    col = [m, -m, Fraction(0), Fraction(0), f / 8, -f / 8, f / 16, -f / 16, f * Fraction(3, 64),
           -f * Fraction(5, 128), f * Fraction(int(rng.integers(1, 32)), 256), -f * Fraction(int(rng.integers(1, 32)), 256)]
    cols.append(col)
  xs = [cols[j][i] for i in range(n) for j in range(len(cols))]         # row-major (n, ch)
  ms = [col_max[j] for i in range(n) for j in range(len(cols))]
  shape = (n, len(cols))
  fr1 = []
  for x, m in zip(xs, ms):
    f = 2 * min(m, Fraction(1))
    t = x / f * 8 if f != 0 else Fraction(0)
    fr1.append(t - math.floor(t))
  xs32 = f32list(xs)
  for use01 in (False, True):
    qs = Q.binary(use_01=use01, alpha=1.0, use_stochastic_rounding=True)
    qd = Q.binary(use_01=use01, alpha=1.0)
    for v in VARIANTS:
      u1 = u_variant(v, fr1, rng)
      u2 = [Fraction(int(k), 8) for k in rng.integers(0, 8, size=len(xs))]
      if v == "at":
        u2 = [Fraction(1, 2)] * len(xs)         # tf.round(0.5) = 0 -> -1
      y, left = call(qs, xs32, [f32list(u1), f32list(u2)], True, shape)
      lines.append({"op": "q", "cls": "binary", "phase": True, "stoch": True, "use_01": use01,
                    "alpha": [1, 1], "x": enc(xs), "m": enc(ms), "u1": enc(u1), "u2": enc(u2)})
      recs.append(dict(use01=use01, variant=v, y=y, left=left, u1=u1, u2=u2, stream="train"))
    y0, left0 = call(qs, xs32, [], False, (len(xs) // 2, 2))
    yt, _ = call(qd, xs32, [], False, (len(xs) // 2, 2))
    lines.append({"op": "q", "cls": "binary", "phase": False, "stoch": True, "use_01": use01,
                  "alpha": [1, 1], "x": enc(xs), "m": enc(ms)})
    recs.append(dict(use01=use01, variant="phase0", y=y0, left=left0, twin=yt, stream="infer"))
  outs = core.run_driver("C08", lines)
  for rec, o in zip(recs, outs):
    ident = {"cls": "binary", "use_01": rec["use01"], "stream": rec["stream"], "variant": rec["variant"]}
    run.case(("binary", rec["use01"], rec["stream"], rec["variant"]))
    y = rec["y"]
    if isinstance(y, Exception):
      run.disagree("binary", ident, "exception: %s" % y, "value")
      continue
    if rec["left"]:
      run.disagree("binary", dict(ident, what="draw count"), rec["left"], 0)
    if not np.all(np.isfinite(y)):
      i = int(np.nonzero(~np.isfinite(y))[0][0])
      run.disagree("binary", dict(ident, x=str(xs[i]), m=str(ms[i])), str(y[i]), "a code")
      run.violate("adjacent", {"class": "binary", "kind": "not-finite"},
                  dict(ident, x=str(xs[i]), channel_max=str(ms[i]), output=str(y[i]),
                       n_bad=int(np.sum(~np.isfinite(y)))), mirrored=False)
      continue
    impl, model = fr_list(y), dec(o["y"])
    run.compared += len(impl)
    agree = [a == b for a, b in zip(impl, model)]
    if not all(agree):
      i = agree.index(False)
      run.disagree("binary", dict(ident, x=str(xs[i]), m=str(ms[i]),
                                  u1=str(rec["u1"][i]) if "u1" in rec else None,
                                  u2=str(rec["u2"][i]) if "u2" in rec else None), str(impl[i]), str(model[i]))
    codes = (Fraction(0), Fraction(1)) if rec["use01"] else (Fraction(-1), Fraction(1))
    for i, yi in enumerate(impl):
      run.count("binary_zero_input" if xs[i] == 0 else "binary_nonzero_input")
      if yi not in codes:
        run.violate("adjacent", {"class": "binary", "kind": "not-a-code"},
                    dict(ident, x=str(xs[i]), output=str(yi)), mirrored=agree[i])
      elif rec["stream"] == "train" and xs[i] != 0 and abs(xs[i]) >= 2 * min(ms[i], 1) / 8:
        want = (Fraction(1) if xs[i] > 0 else (Fraction(0) if rec["use01"] else Fraction(-1)))
        if yi != want:    # |x/f| >= 1/8 keeps its sign for every draw (codes are fixed)
          run.violate("code_fixed", {"class": "binary", "kind": "sign-lost"},
                      dict(ident, x=str(xs[i]), m=str(ms[i]), output=str(yi)), mirrored=agree[i])
    if rec["stream"] == "infer" and not isinstance(rec["twin"], Exception):
      tw = fr_list(rec["twin"])
      bad = [i for i in range(len(impl)) if impl[i] != tw[i]]
      if bad:
        run.violate("inference_equal", {"class": "binary", "kind": "value"},
                    dict(ident, x=str(xs[bad[0]]), output=str(impl[bad[0]]), twin=str(tw[bad[0]])),
                    mirrored=agree[bad[0]])
  # phase-0 shape behaviour (regression of repair 65bdf0f: the fill used to be
  # `tf.ones_like(tf.shape(x))`, shape [rank]); every shape must come back with the twin's values
  shapes = [(5,), (4, 2), (3, 4), (2, 3, 3), (2, 2, 5), (6, 1), (1,), (2, 2, 2, 4), (1, 2, 1, 3, 2), (1, 1)]
  souts = core.run_driver("C08", [{"op": "binshape", "shape": list(s)} for s in shapes])
  qs = Q.binary(alpha=1.0, use_stochastic_rounding=True)
  qd = Q.binary(alpha=1.0)
  for s, o in zip(shapes, souts):
    nel = int(np.prod(s))
    x = f32list([Fraction(int(k), 4) for k in rng.integers(-8, 9, size=nel)])
    y, _ = call(qs, x, [], False, s)
    t, _ = call(qd, x, [], False, s)
    ok_impl = not isinstance(y, Exception)
    run.case(("binary-shape", s))
    run.compared += 1
    run.count("binary_shape_ok" if ok_impl else "binary_shape_fails")
    if ok_impl != bool(o["ok"]):
      run.disagree("binary-shape", {"shape": list(s)}, "ok" if ok_impl else str(y)[:200], o["ok"])
    if not ok_impl:
      run.violate("inference_equal", {"class": "binary", "kind": "shape_broadcast"},
                  {"shape": list(s), "error": str(y)[:300],
                   "replay": "K.set_learning_phase(0); binary(alpha=1.0, use_stochastic_rounding=True)"
                             "(tf.zeros(%s))" % (list(s),)}, mirrored=(not o["ok"]))
    elif not isinstance(t, Exception) and not np.array_equal(y, t):
      run.violate("inference_equal", {"class": "binary", "kind": "value"}, {"shape": list(s)}, mirrored=False)


# ---- ternary(use_stochastic_rounding) --------------------------------------------------------------

def _ternary(run, tier, rng, tf, Q, K, draws, call):
  import numpy as _np
  n = 12
  col_max = [Fraction(3, 2), Fraction(1), Fraction(3, 8), Fraction(5)]
  lines, recs = [], []
  cols = []
  for m in col_max:
    col = [m, -m] + [m * Fraction(int(k), 64) for k in rng.integers(-64, 65, size=n - 4)] + [Fraction(0), m * Fraction(21, 64)]
    cols.append(col)
  xs = [cols[j][i] for i in range(n) for j in range(len(cols))]
  shape = (n, len(cols))
  xs32 = f32list(xs)
  # start scale of the auto_po2 branch, by the same ops the code uses (oracle for the element-wise model)
  x_t = tf.constant(xs32.reshape(shape))
  m_t = K.max(tf.abs(x_t), axis=[0], keepdims=True)
  s0 = K.pow(2.0, tf.math.round(K.log(2 * m_t / 3.0 + K.epsilon()) / _np.log(2.0))).numpy().reshape(-1)
  s0 = [Fraction(float(v)) for v in s0]
  for s_ in s0:
    if s_.numerator != 1 and s_.denominator != 1:
      raise core.InfraError("ternary start scale is not a power of two: %s" % s_)
  ss = [s0[j] for i in range(n) for j in range(len(cols))]
  fr = [(3 * x / s) - math.floor(3 * x / s) for x, s in zip(xs, ss)]
  qs = Q.ternary(alpha="auto_po2", use_stochastic_rounding=True, number_of_unrolls=1)
  for v in VARIANTS:
    u = u_variant(v, fr, rng)
    y, left = call(qs, xs32, [f32list(u)], True, shape)
    sc = None if isinstance(y, Exception) else _np.asarray(K.eval(qs.scale), dtype=_np.float32).reshape(-1)
    lines.append({"op": "q", "cls": "ternary_step", "phase": True, "stoch": True, "x": enc(xs), "scale": enc(ss),
                  "u1": enc(u)})
    recs.append(dict(variant=v, y=y, left=left, scale=sc, u=u))
  outs = core.run_driver("C08", lines)
  for rec, o in zip(recs, outs):
    ident = {"cls": "ternary", "variant": rec["variant"]}
    run.case(("ternary", rec["variant"]))
    if isinstance(rec["y"], Exception):
      run.disagree("ternary", ident, "exception: %s" % rec["y"], "value")
      continue
    if rec["left"]:
      run.disagree("ternary", dict(ident, what="draw count"), rec["left"], 0)
    impl = fr_list(rec["y"])
    scs = [Fraction(float(rec["scale"][j])) for i in range(n) for j in range(len(cols))]
    model = dec(o["y"])
    run.compared += len(impl)
    for i, yi in enumerate(impl):
      q = yi / scs[i] if scs[i] != 0 else yi
      run.count("ternary_q_%s" % q if q in (-1, 0, 1) else "ternary_q_other")
      if q not in (-1, 0, 1):
        run.violate("adjacent", {"class": "ternary", "kind": "not-a-code"},
                    dict(ident, x=str(xs[i]), output=str(yi), scale=str(scs[i])), mirrored=False)
      if q != model[i]:
        run.disagree("ternary", dict(ident, x=str(xs[i]), start_scale=str(ss[i]), u=str(rec["u"][i])),
                     str(q), str(model[i]))
        break
  # phase 0: equal to the flag-less twin, for the default number of unrolls as well
  for unrolls in (1, 5):
    for alpha in ("auto_po2", "auto"):
      a = Q.ternary(alpha=alpha, use_stochastic_rounding=True, number_of_unrolls=unrolls)
      b = Q.ternary(alpha=alpha, number_of_unrolls=unrolls)
      ya, la = call(a, xs32, [], False, shape)
      yb, _ = call(b, xs32, [], False, shape)
      run.case(("ternary-infer", unrolls, alpha))
      run.compared += 1
      if isinstance(ya, Exception) or isinstance(yb, Exception):
        run.disagree("ternary-infer", {"unrolls": unrolls, "alpha": alpha}, str(ya)[:200], str(yb)[:200])
      elif not np.array_equal(ya, yb):
        i = int(np.nonzero(ya != yb)[0][0])
        run.violate("inference_equal", {"class": "ternary", "kind": "value"},
                    {"unrolls": unrolls, "alpha": alpha, "x": str(xs[i]), "output": float(ya[i]),
                     "twin": float(yb[i])}, mirrored=False)


# ---- stochastic_binary / stochastic_ternary -----------------------------------------------------------

def _sclasses(run, tier, rng, tf, Q, K, draws, call):
  xs = [Fraction(int(k), 64) for k in rng.integers(-128, 129, size=40)] + [Fraction(0), Fraction(1), Fraction(-1)]
  xs32 = f32list(xs)
  # training sample step of stochastic_binary(alpha=1.0): q = sign(sigmoid(6x) - r), 0 -> +1
  sb = Q.stochastic_binary(alpha=1.0)
  p32 = tf.keras.backend.sigmoid(sb.temperature * tf.constant(xs32) / 1.0).numpy().astype(np.float32)
  ps = fr_list(p32)
  lines, recs = [], []
  for v in ("at", "below", "above", "zero", "top", "rand"):
    if v == "at":
      r32 = p32.copy()
    elif v == "below":
      r32 = np.nextafter(p32, np.float32(0)).astype(np.float32)
    elif v == "above":
      r32 = np.minimum(np.nextafter(p32, np.float32(2)), np.float32(float(TOP))).astype(np.float32)
    elif v == "zero":
      r32 = np.zeros_like(p32)
    elif v == "top":
      r32 = np.full_like(p32, float(TOP))
    else:
      r32 = (rng.integers(0, 2 ** 23, size=len(xs)) / 2.0 ** 23).astype(np.float32)
    y, left = call(sb, xs32, [r32], True)
    lines.append({"op": "q", "cls": "stochastic_binary", "phase": True, "alpha": [1, 1], "x": enc(xs),
                  "p": enc(ps), "u1": enc(fr_list(r32))})
    recs.append(dict(variant=v, y=y, left=left))
  y0, _ = call(sb, xs32, [], False)
  lines.append({"op": "q", "cls": "stochastic_binary", "phase": False, "alpha": [1, 1], "x": enc(xs)})
  recs.append(dict(variant="phase0", y=y0, left=0))
  outs = core.run_driver("C08", lines)
  for rec, o in zip(recs, outs):
    ident = {"cls": "stochastic_binary", "variant": rec["variant"]}
    run.case(("stochastic_binary", rec["variant"]))
    if isinstance(rec["y"], Exception):
      run.disagree("sclass", ident, "exception: %s" % rec["y"], "value")
      continue
    if rec["left"]:
      run.disagree("sclass", dict(ident, what="draw count"), rec["left"], 0)
    impl, model = fr_list(rec["y"]), dec(o["y"])
    run.compared += len(impl)
    for i, (a, b) in enumerate(zip(impl, model)):
      run.count("stochastic_binary_%s" % ("plus" if a > 0 else "minus"))
      if a not in (-1, 1):
        run.violate("adjacent", {"class": "stochastic_binary", "kind": "not-a-code"},
                    dict(ident, x=str(xs[i]), output=str(a)), mirrored=(a == b))
      if a != b:
        run.disagree("sclass", dict(ident, x=str(xs[i]), p=str(ps[i])), str(a), str(b))
        break
  # phase 0: stochastic_* == deterministic counterpart, bit for bit, for numeric and auto alphas
  shape = (len(xs) // 3, 3) if len(xs) % 3 == 0 else None
  x2 = xs32[: (len(xs) // 4) * 4]
  twins = []
  for alpha in (1.0, 5.0, "auto", "auto_po2"):
    twins.append(("stochastic_binary", Q.stochastic_binary(alpha=alpha), Q.binary(alpha=alpha), alpha, None))
    for thr in ((None, 0.33, 0.5, 2.0) if not isinstance(alpha, str) else (None,)):
      twins.append(("stochastic_ternary", Q.stochastic_ternary(alpha=alpha, threshold=thr),
                    Q.ternary(alpha=alpha, threshold=thr), alpha, thr))
  for cls, a, b, alpha, thr in twins:
    for shp in ((len(x2) // 4, 4), (len(x2),), (len(x2) // 4, 2, 2), (1, len(x2) // 4, 1, 2, 2)):
      as_np = len(shp) == 3
      ya, _ = call(a, x2, [], False, shp, as_numpy=as_np)
      yb, _ = call(b, x2, [], False, shp, as_numpy=as_np)
      run.case((cls, "infer", str(alpha), str(thr), shp))
      run.compared += 1
      run.count("twin_%s" % cls)
      if isinstance(ya, Exception) or isinstance(yb, Exception):
        if type(ya) is not type(yb):
          run.violate("inference_equal", {"class": cls, "kind": "raises"},
                      {"alpha": str(alpha), "threshold": str(thr), "shape": list(shp),
                       "stochastic": str(ya)[:200], "deterministic": str(yb)[:200]}, mirrored=False)
        continue
      if not np.array_equal(ya, yb):
        i = int(np.nonzero(ya != yb)[0][0])
        run.violate("inference_equal", {"class": cls, "kind": "value"},
                    {"alpha": str(alpha), "threshold": str(thr), "shape": list(shp), "x": float(x2[i]),
                     "stochastic": float(ya[i]), "deterministic": float(yb[i])}, mirrored=False)
  # training output of stochastic_ternary is a ternary code times its scale (real RNG not needed: any draw)
  st = Q.stochastic_ternary(alpha="auto_po2")
  shp = (len(x2) // 4, 4)
  for k in range(4):
    r0 = (rng.integers(0, 2 ** 23, size=len(x2)) / 2.0 ** 23).astype(np.float32)
    r1 = (rng.integers(0, 2 ** 23, size=len(x2)) / 2.0 ** 23).astype(np.float32)
    y, left = call(st, x2, [r0, r1], True, shp)
    run.case(("stochastic_ternary", "train", k))
    if isinstance(y, Exception):
      run.disagree("sclass", {"cls": "stochastic_ternary"}, str(y)[:200], "value")
      continue
    if left:
      run.disagree("sclass", {"cls": "stochastic_ternary", "what": "draw count"}, left, 0)
    sc = np.broadcast_to(np.asarray(K.eval(st.scale), dtype=np.float32), shp).reshape(-1)
    for yi, si in zip(y, sc):
      q = Fraction(float(yi)) / Fraction(float(si)) if si != 0 else Fraction(float(yi))
      run.count("stochastic_ternary_q_ok" if q in (-1, 0, 1) else "stochastic_ternary_q_bad")
      if q not in (-1, 0, 1):
        run.violate("adjacent", {"class": "stochastic_ternary", "kind": "not-a-code"},
                    {"output": float(yi), "scale": float(si)}, mirrored=False)


# ---- constructors of the stochastic classes: the deterministic counterpart built from the SAME arguments ----

GRID = 2 ** 12          # cascade magnitudes are multiples of 2^-12 in (0, 1]


def cascade_column(rng, po2, steps, max_rows):
  """magnitudes (Fractions, max = 1) on which the scale/threshold iteration of ternary's alpha='auto*'
  branch has NOT converged after `steps` iterations: every iteration lowers the threshold scale/2 just
  below the next group of values, whose inclusion lowers the least-squares scale again (for 'auto_po2' by
  at least one power of two).  Margins >= 1/32 (relative) around every threshold and (po2) around the
  rounding boundaries sqrt2*2^k, so float32 noise cannot change a decision.  Python emulation is used for
  STEERING only; the judgement is the real twin / the Lean model."""
  def rnd(sc):
    if not po2:
      return sc
    e = math.floor(math.log2(float(sc))) - 1
    while Fraction(2) ** (2 * e + 1) <= sc * sc:       # 2^(e+1/2) <= sc: round(log2 sc) > e
      e += 1
    return Fraction(2) ** e
  vals = [Fraction(1)]
  total, cnt = Fraction(1), 1
  scale = rnd(Fraction(2, 3))
  t_prev = None
  for _ in range(steps):
    thr = scale / 2
    # S_k = {|x| > thr}: the new group sits just above thr (and below the previous threshold) ...
    v = Fraction(math.ceil(thr * (1 + Fraction(int(rng.integers(3, 7 if po2 else 9)), 64)) * GRID), GRID)
    if t_prev is not None and not (v < t_prev * Fraction(31, 32)):
      break
    # ... and is large enough to pull the least-squares scale (mean of |x| over S_k) down to `target`:
    # below the rounding boundary scale/sqrt2 for 'auto_po2' (margin 4 %), to 11/16 .. 13/16 of it for 'auto'
    target = scale * (Fraction(87, 128) if po2 else Fraction(int(rng.integers(22, 27)), 32))
    if v >= target:
      break
    c = max(int(math.floor((total - target * cnt) / (target - v))) + 1, 1)
    c += int(rng.integers(0, max(2, c // 16)))
    if cnt + c > max_rows:
      break
    vals += [v] * c
    total += v * c
    cnt += c
    t_prev = thr
    new = rnd(total / cnt)
    if not new < scale:
      break
    scale = new
  return vals


def cascade_tensor(rng, po2, steps, max_rows, ncols):
  """rank-2 tensor (rows, ncols): every column its own cascade, times a power of two, random signs, rows
  shuffled, padded with values far below every threshold (0 and +-2^-12 * column scale)"""
  cols = []
  for _ in range(ncols):
    mags = cascade_column(rng, po2, steps, max_rows)
    sc = Fraction(2) ** int(rng.integers(-3, 3))
    col = [m * sc * (1 if rng.integers(0, 2) else -1) for m in mags]
    cols.append((col, sc))
  rows = max(len(c) for c, _ in cols) + 3
  out = []
  for col, sc in cols:
    pad = [Fraction(0), sc / GRID, -sc / GRID]
    col = col + [pad[i % 3] for i in range(rows - len(col))]
    perm = rng.permutation(rows)
    out.append([col[int(i)] for i in perm])
  return [[out[j][i] for j in range(ncols)] for i in range(rows)]       # row major


def _alpha_wire(alpha):
  if alpha is None or isinstance(alpha, str):
    return alpha
  return core.rj(Fraction(float(np.float32(alpha))))


def _thr_wire(thr):
  return None if thr is None else core.rj(Fraction(float(np.float32(thr))))


def _attr_plain(v):
  """attribute value as a comparable python value (numbers as exact Fractions)"""
  if v is None or isinstance(v, (str, bool)):
    return v
  if isinstance(v, np.bool_):
    return bool(v)
  try:
    return Fraction(float(np.float32(v)))          # options reach the float32 graph: compare as float32
  except Exception:  # pylint: disable=broad-except
    return repr(v)


def _model_attr(v):
  if isinstance(v, list):
    return Fraction(int(v[0]), int(v[1]))
  if isinstance(v, int) and not isinstance(v, bool):
    return Fraction(v)
  return v


S_ROUTES = ("kw", "pos", "from_config", "str")


def _build_route(Q, cls, kw, order, route, form):
  """the same constructor arguments through another API route / argument form"""
  kw = {k: (_form(v, form) if k in ("number_of_unrolls", "temperature", "threshold") else v) for k, v in kw.items()}
  C = getattr(Q, cls)
  if route == "kw":
    return C(**kw)
  if route == "pos":
    return C(*[kw[k] for k in order])
  if route == "from_config":
    return C.from_config(C(**kw).get_config())
  text = str(C(**kw))
  return Q.get_quantizer(text)


def _sctor(run, tier, rng, tf, Q, K, draws, call):
  """last clause of the property on OBJECTS: stochastic_ternary / stochastic_binary (and ternary / binary with
  the flag) at phase 0 equal the deterministic class built from the same FULL argument set, over the option
  lattice alpha x threshold x number_of_unrolls x temperature x use_real_sigmoid, on tensors on which the
  number of unrolls matters; the attributes the calls read equal the constructor arguments (Lean `init`)."""
  quick = tier == "quick"
  unrolls_all = (1, 2, 3, 5, 8)
  temps = (8.0, 1.0, 0.25)
  # --- tensors -------------------------------------------------------------------------------------
  tens = {}
  for alpha, po2 in (("auto", False), ("auto_po2", True)):
    big = cascade_tensor(rng, po2, 9, 100000 if po2 else 900, 2)         # twin comparison only
    small = cascade_tensor(rng, po2, 9 if not po2 else 4, 320 if not po2 else 520, 3)      # also sent to the Lean model
    tens[alpha] = [("cascade-big", big), ("cascade-small", small)]
  flat = [Fraction(int(k), 64) for k in rng.integers(-160, 161, size=52)] + \
      [Fraction(0), Fraction(0), Fraction(1, 4), Fraction(-1, 4), Fraction(1, 2), Fraction(-1, 2), Fraction(2), Fraction(-2),
       Fraction(1), Fraction(-1), Fraction(21, 64), Fraction(11, 32)]
  flat32 = f32list(flat)                                                # 64 values

  arr_cache = {}

  def arr(t):
    if id(t) not in arr_cache:
      a32 = np.array([[float(v) for v in row] for row in t], dtype=np.float32)   # multiples of 2^-15, |x| <= 4
      arr_cache[id(t)] = (a32.reshape(-1), (len(t), len(t[0])))
    return arr_cache[id(t)]

  # generator self-check (evidence): on how many of the tensors does n unrolls differ from 5 (8 for n = 5)?
  for alpha in ("auto", "auto_po2"):
    for name, t in tens[alpha]:
      x32, shp = arr(t)
      ref = {}
      for n in unrolls_all:
        ref[n], _ = call(Q.ternary(alpha=alpha, number_of_unrolls=n), x32, [], False, shp)
      for n in unrolls_all:
        other = ref[8] if n == 5 else ref[5]
        if not isinstance(ref[n], Exception) and not isinstance(other, Exception):
          run.count("unroll_%s_%s_n%d_%s" % (alpha, name, n,
                                              "sensitive" if not np.array_equal(ref[n], other) else "INSENSITIVE"))

  lines, recs = [], []

  def attrs_of(obj, names):
    return {k: _attr_plain(getattr(obj, k, "<missing>")) for k in names}

  def judge_pair(cls, det_cls, label, kw, a, b, x32, shp, tag, as_numpy=False):
    """phase 0: a (stochastic class / flag on) against b (deterministic counterpart), twice on a"""
    ya, _ = call(a, x32, [], False, shp, as_numpy=as_numpy)
    yb, _ = call(b, x32, [], False, shp, as_numpy=as_numpy)
    ya2, _ = call(a, x32, [], False, shp, as_numpy=as_numpy)
    run.compared += 2
    run.count("sctor_twin_%s" % cls)
    key = {"class": cls, "kind": "value", "stream": "sctor"}
    if isinstance(yb, Exception):
      if isinstance(ya, Exception) and type(ya) is type(yb):
        run.count("sctor_both_raise")
      else:
        run.violate("inference_equal", dict(key, kind="raises"),
                    {"cfg": label, "tensor": tag, "stochastic": str(ya)[:200], "deterministic": str(yb)[:200]},
                    mirrored=False)
      return None
    for nm, yy in (("first call", ya), ("second call on the same object", ya2)):
      if isinstance(yy, Exception):
        kind = "random-draw-at-inference" if isinstance(yy, DrawError) else "raises"
        run.violate("inference_equal", dict(key, kind=kind),
                    {"cfg": label, "tensor": tag, "call": nm, "error": str(yy)[:300]}, mirrored=False)
        return None
      if not np.array_equal(yy, yb, equal_nan=True):
        i = int(np.nonzero(~((yy == yb) | (np.isnan(yy) & np.isnan(yb))))[0][0])
        run.violate("inference_equal", key,
                    {"cfg": label, "counterpart": "%s(%s)" % (det_cls, ", ".join("%s=%r" % kv for kv in sorted(kw.items()))),
                     "tensor": tag, "shape": list(shp), "call": nm, "x": float(x32[i]),
                     "output": float(yy[i]), "counterpart_output": float(yb[i]),
                     "n_bad": int(np.sum(yy != yb)), "n": int(yy.size)}, mirrored=False)
        return None
    return ya

  # --- stochastic_ternary ------------------------------------------------------------------------------
  st_order = ("alpha", "threshold", "temperature", "use_real_sigmoid", "number_of_unrolls")
  cfgs = []
  for alpha in ("auto", "auto_po2"):
    for n in unrolls_all:
      for T in temps:
        for rs in (True, False):
          cfgs.append(dict(alpha=alpha, threshold=None, temperature=T, use_real_sigmoid=rs, number_of_unrolls=n))
  cfgs.append(dict(alpha="auto", threshold=0.5, temperature=8.0, use_real_sigmoid=True, number_of_unrolls=2))  # both assert
  cfgs.append(dict(alpha="auto_po2", threshold=None, temperature=8.0, use_real_sigmoid=True, number_of_unrolls=0))  # both raise
  num = []
  for alpha in (None, 1.0, 0.5, 2.0):
    for thr in (None, 0.0, 0.25, 0.33, 0.5, 2.0):
      combos = [(n, T, rs) for n in unrolls_all for T in temps for rs in (True, False)]
      if quick:
        combos = [combos[int(i)] for i in rng.choice(len(combos), size=3, replace=False)]
      for n, T, rs in combos:
        num.append(dict(alpha=alpha, threshold=thr, temperature=T, use_real_sigmoid=rs, number_of_unrolls=n))
  cfgs += num
  for k, kw in enumerate(cfgs):
    auto = isinstance(kw["alpha"], str)
    routes = S_ROUTES if (auto and kw["temperature"] == 8.0) or not quick else (S_ROUTES[k % 4],)
    form = ("py", "np32", "np64")[k % 3]
    det_kw = dict(alpha=kw["alpha"], threshold=kw["threshold"], number_of_unrolls=kw["number_of_unrolls"])
    for route in routes:
      label = "stochastic_ternary(%s) via %s/%s" % (", ".join("%s=%r" % (a, kw[a]) for a in st_order), route, form)
      run.case(("sctor", "stochastic_ternary", label))
      try:
        a = _build_route(Q, "stochastic_ternary", kw, st_order, route, form)
      except Exception as e:  # pylint: disable=broad-except
        run.count("sctor_route_unsupported_%s" % route)
        run.extra.setdefault("sctor_route_unsupported", []).append("%s: %s" % (label, str(e)[:80]))
        continue
      b = Q.ternary(**det_kw)
      # attributes against the Lean constructor model, and the base-class view against the counterpart's
      names = ("alpha", "threshold", "use_stochastic_rounding", "number_of_unrolls", "temperature", "use_real_sigmoid")
      lines.append({"op": "init", "cls": "stochastic_ternary", "alpha": _alpha_wire(kw["alpha"]),
                    "threshold": _thr_wire(kw["threshold"]), "temperature": core.rj(Fraction(kw["temperature"])),
                    "use_real_sigmoid": kw["use_real_sigmoid"], "number_of_unrolls": kw["number_of_unrolls"]})
      recs.append(dict(kind="init", label=label, impl=attrs_of(a, names)))
      try:
        ca, cb = Q.ternary.get_config(a), b.get_config()
        if {k_: _attr_plain(v) for k_, v in ca.items()} != {k_: _attr_plain(v) for k_, v in cb.items()}:
          run.disagree("sctor-attributes", {"cfg": label, "what": "ternary.get_config(stochastic object) vs counterpart"},
                       str(ca), str(cb))
      except Exception as e:  # pylint: disable=broad-except
        run.disagree("sctor-attributes", {"cfg": label}, "exception %s" % str(e)[:120], "config")
      if auto:
        for name, t in tens[kw["alpha"]]:
          x32, shp = arr(t)
          shapes = [shp]
          if name == "cascade-small" and route == routes[0]:
            shapes += [(shp[0] // 2, 2, shp[1]) if shp[0] % 2 == 0 else shp, (shp[0] * shp[1],)]
          for sh in shapes:
            ya = judge_pair("stochastic_ternary", "ternary", label, det_kw, a, b, x32, sh, "%s%s" % (name, list(sh)),
                            as_numpy=(k % 4 == 3))
            if ya is not None and name == "cascade-small" and sh is shp and route == routes[0] and kw["number_of_unrolls"] > 0:
              for j in range(shp[1]):
                col = [t[i][j] for i in range(shp[0])]
                lines.append({"op": "tcall", "cls": "stochastic_ternary", "alpha": kw["alpha"], "threshold": None,
                              "temperature": core.rj(Fraction(kw["temperature"])),
                              "use_real_sigmoid": kw["use_real_sigmoid"], "number_of_unrolls": kw["number_of_unrolls"],
                              "x": enc(col)})
                recs.append(dict(kind="tcall", label=label, col=j, xs=col, y=ya.reshape(shp)[:, j],
                                 exact=kw["alpha"] == "auto_po2"))
        # histories on ONE object: a training call in between, then number_of_unrolls re-assigned
        if route == "kw" and kw["temperature"] == 8.0 and kw["threshold"] is None and kw["number_of_unrolls"] > 0:
          name, t = tens[kw["alpha"]][1]
          x32, shp = arr(t)
          r0 = (rng.integers(0, 2 ** 23, size=x32.size) / 2.0 ** 23).astype(np.float32)
          r1 = (rng.integers(0, 2 ** 23, size=x32.size) / 2.0 ** 23).astype(np.float32)
          yt, left = call(a, x32, [r0, r1], True, shp)
          if isinstance(yt, Exception) or left:
            run.disagree("sctor", {"cfg": label, "what": "training call"}, str(yt)[:200], "value, 2 draws")
          else:
            # the training branch runs its own scale loop `number_of_unrolls` times: same iteration as the
            # deterministic one away from ties (cascade margins) -> self.scale is the model's last scale
            if kw["alpha"] == "auto_po2":
              sc = np.asarray(K.eval(a.scale), dtype=np.float32).reshape(-1)
              for j in range(shp[1]):
                col = [t[i][j] for i in range(shp[0])]
                lines.append({"op": "tcall", "cls": "ternary", "alpha": "auto_po2", "threshold": None,
                              "number_of_unrolls": kw["number_of_unrolls"], "x": enc(col)})
                recs.append(dict(kind="train-scale", label=label, col=j, scale=Fraction(float(sc[j]))))
          judge_pair("stochastic_ternary", "ternary", label + " after a training call", det_kw, a, b, x32, shp, name)
          n2 = int(unrolls_all[(unrolls_all.index(kw["number_of_unrolls"]) + 1) % len(unrolls_all)])
          a.number_of_unrolls = n2
          b2 = Q.ternary(alpha=kw["alpha"], number_of_unrolls=n2)
          judge_pair("stochastic_ternary", "ternary", label + " then number_of_unrolls=%d assigned" % n2,
                     dict(det_kw, number_of_unrolls=n2), a, b2, x32, shp, name)
      else:
        sh = [(16, 4), (64,), (4, 2, 2, 4), (1, 64)][k % 4]
        ya = judge_pair("stochastic_ternary", "ternary", label, det_kw, a, b, flat32, sh, "flat%s" % list(sh),
                        as_numpy=(k % 5 == 4))
        if ya is not None and kw["alpha"] is not None:
          lines.append({"op": "tcall", "cls": "stochastic_ternary", "alpha": _alpha_wire(kw["alpha"]),
                        "threshold": _thr_wire(kw["threshold"]), "temperature": core.rj(Fraction(kw["temperature"])),
                        "use_real_sigmoid": kw["use_real_sigmoid"], "number_of_unrolls": kw["number_of_unrolls"],
                        "x": enc(flat)})
          recs.append(dict(kind="tcall", label=label, col=0, xs=flat, y=ya, exact=True))
        if kw["alpha"] is None and route in ("kw", "pos"):
          # handed to a layer: _set_trainable_parameter turns alpha None into 'auto_po2' on both
          a._set_trainable_parameter()   # pylint: disable=protected-access
          b._set_trainable_parameter()   # pylint: disable=protected-access
          if kw["threshold"] is None:
            name, t = tens["auto_po2"][1]
            x32, shp = arr(t)
            judge_pair("stochastic_ternary", "ternary", label + " after _set_trainable_parameter()",
                       dict(det_kw, alpha="auto_po2"), a, b, x32, shp, name)

  # --- ternary(use_stochastic_rounding=True) against ternary(): every number of unrolls -----------------------
  for alpha in ("auto", "auto_po2"):
    for n in unrolls_all:
      kw = dict(alpha=alpha, number_of_unrolls=n)
      label = "ternary(alpha=%r, use_stochastic_rounding=True, number_of_unrolls=%d)" % (alpha, n)
      run.case(("sctor", "ternary", label))
      for route in ("kw", "from_config", "str"):
        a = _build_route(Q, "ternary", dict(kw, use_stochastic_rounding=True), None, route, "py")
        b = Q.ternary(**kw)
        lines.append({"op": "init", "cls": "ternary", "alpha": alpha, "threshold": None,
                      "use_stochastic_rounding": True, "number_of_unrolls": n})
        recs.append(dict(kind="init", label=label + " via " + route,
                         impl=attrs_of(a, ("alpha", "threshold", "use_stochastic_rounding", "number_of_unrolls"))))
        for name, t in tens[alpha]:
          x32, shp = arr(t)
          judge_pair("ternary", "ternary", label + " via " + route, kw, a, b, x32, shp, name)

  # --- stochastic_binary ------------------------------------------------------------------------------------
  sb_order = ("alpha", "temperature", "use_real_sigmoid")
  k = 0
  for alpha in (None, 1.0, 0.5, 2.0, "auto", "auto_po2"):
    for T in (6.0, 1.0, 0.25):
      for rs in (True, False):
        kw = dict(alpha=alpha, temperature=T, use_real_sigmoid=rs)
        k += 1
        for route in (S_ROUTES if T == 6.0 or not quick else (S_ROUTES[k % 4],)):
          form = ("py", "np32", "np64")[k % 3]
          label = "stochastic_binary(%s) via %s/%s" % (", ".join("%s=%r" % (a_, kw[a_]) for a_ in sb_order), route, form)
          run.case(("sctor", "stochastic_binary", label))
          a = _build_route(Q, "stochastic_binary", kw, sb_order, route, form)
          b = Q.binary(alpha=alpha)
          lines.append({"op": "init", "cls": "stochastic_binary", "alpha": _alpha_wire(alpha),
                        "temperature": core.rj(Fraction(T)), "use_real_sigmoid": rs})
          recs.append(dict(kind="init", label=label,
                           impl=attrs_of(a, ("use_01", "alpha", "use_stochastic_rounding", "temperature", "use_real_sigmoid"))))
          ca, cb = Q.binary.get_config(a), b.get_config()
          if {k_: _attr_plain(v) for k_, v in ca.items()} != {k_: _attr_plain(v) for k_, v in cb.items()}:
            run.disagree("sctor-attributes", {"cfg": label, "what": "binary.get_config(stochastic object) vs counterpart"},
                         str(ca), str(cb))
          sh = [(16, 4), (64,), (4, 2, 2, 4), (64, 1)][k % 4]
          judge_pair("stochastic_binary", "binary", label, dict(alpha=alpha), a, b, flat32, sh, "flat%s" % list(sh),
                     as_numpy=(k % 5 == 4))
          if isinstance(alpha, str):
            name, t = tens[alpha][1]
            x32, shp = arr(t)
            judge_pair("stochastic_binary", "binary", label, dict(alpha=alpha), a, b, x32, shp, name)

  # --- Lean: constructor attributes, whole calls -----------------------------------------------------------------
  outs = core.run_driver("C08", lines)
  for rec, o in zip(recs, outs):
    if rec["kind"] == "init":
      run.compared += 1
      model = {k_: _model_attr(v) for k_, v in o.items()}
      if model != rec["impl"]:
        bad = sorted(k_ for k_ in model if model[k_] != rec["impl"].get(k_, "<missing>"))
        run.disagree("sctor-init", {"cfg": rec["label"], "attributes": bad},
                     {k_: str(rec["impl"].get(k_)) for k_ in bad}, {k_: str(model[k_]) for k_ in bad})
      else:
        run.count("sctor_init_ok")
    elif rec["kind"] == "train-scale":
      run.compared += 1
      if not o["band_ok"]:
        run.count("sctor_band_skipped")
        continue
      ms = dec(o["scales"])[-1]
      run.count("sctor_train_scale")
      if ms != rec["scale"]:
        run.disagree("sctor-train-scale", {"cfg": rec["label"], "column": rec["col"]}, str(rec["scale"]), str(ms))
    else:
      if o["y"] is None:
        run.disagree("sctor-call", {"cfg": rec["label"]}, "value", "model: the call raises")
        continue
      if not o["band_ok"]:
        run.count("sctor_band_skipped")
        continue
      model = dec(o["y"])
      impl = fr_list(rec["y"])
      run.compared += len(impl)
      run.count("sctor_call_exact" if rec["exact"] else "sctor_call_pattern")
      if not rec["exact"]:
        sg = lambda v: (v > 0) - (v < 0)
        model, impl = [sg(v) for v in model], [sg(v) for v in impl]
      for i, (a_, b_) in enumerate(zip(impl, model)):
        if a_ != b_:
          run.disagree("sctor-call", {"cfg": rec["label"], "column": rec["col"], "x": str(rec["xs"][i]),
                                      "compared": "value" if rec["exact"] else "sign pattern"}, str(a_), str(b_))
          break


# ---- cross-cutting: argument forms, ranks, numpy inputs, histories on one object ----------------------

XC_CONFIGS = [
    ("quantized_bits", dict(bits=4, integer=1, symmetric=0, keep_negative=True, alpha=None)),
    ("quantized_linear", dict(bits=4, integer=1, symmetric=1, keep_negative=True, alpha=2.0)),
    ("quantized_linear", dict(bits=1, integer=0, symmetric=1, keep_negative=True, alpha=None)),
    ("quantized_relu", dict(bits=4, integer=1, negative_slope=0.0)),
    ("quantized_relu", dict(bits=4, integer=1, negative_slope=2.0)),
    ("quantized_tanh", dict(bits=4, symmetric=True, use_real_tanh=False)),
    ("quantized_sigmoid", dict(bits=3, symmetric=False, use_real_sigmoid=False)),
    ("quantized_po2", dict(bits=4, max_value=None, log2_rounding="rnd", quadratic_approximation=False)),
    ("quantized_po2", dict(bits=4, max_value=3.0, log2_rounding="floor", quadratic_approximation=False)),
    ("quantized_po2", dict(bits=5, max_value=None, log2_rounding="rnd", quadratic_approximation=True)),
    ("quantized_relu_po2", dict(bits=3, max_value=None, negative_slope=0.25, log2_rounding="rnd",
                                quadratic_approximation=False)),
    ("quantized_relu_po2", dict(bits=3, max_value=4.0, negative_slope=2.0, log2_rounding="floor",
                                quadratic_approximation=True)),
]


def _crosscut(run, tier, rng, tf, Q, K, draws, call, cases):
  """the clause oracle and the model comparison of `_classes`, on calls that are not "fresh object,
  python numbers, one rank-1 tensor": same value => same behaviour, k-th use == first use"""
  by_key = {(c["cls"], str(c["cfg"])): c for c in cases}
  lines, recs = [], []
  for cls, cfg in XC_CONFIGS:
    full = by_key.get((cls, str(cfg)))
    if full is None:
      full = build_case(tf, Q, K, cls, cfg, rng)
      attach_refs(run, [full])
    n = len(full["xs"])
    # 16 elements: a spread over codes / interior / saturation, fixed by the run seed
    idx = sorted(int(i) for i in rng.choice(n, size=min(16, n), replace=False))
    c = sub_case(full, idx)
    m = len(idx)
    qd = make_q(Q, cls, cfg, False)
    # -- argument forms
    for form in ("np32", "np64", "0d", "tf"):
      try:
        qdf = make_q(Q, cls, cfg, False, form)
        probe, _ = call(qdf, c["xs32"], [], False)
      except Exception as e:  # pylint: disable=broad-except
        probe = e
      if isinstance(probe, Exception):
        # the class does not take this form at all (flag off): not a matter of this property
        run.count("xc_argform_unsupported_%s" % form)
        continue
      run.count("xc_argform_%s" % form)
      qsf = make_q(Q, cls, cfg, True, form)
      for v in ("below", "above"):
        train_rec(c, qsf, call, rng, v, tag="form-%s-%s" % (form, v), lines=lines, recs=recs)
      infer_rec(c, qsf, qdf, call, "form-%s-phase0" % form, lines, recs)
      infer_rec(c, qsf, qd, call, "form-%s-phase0-vs-python-twin" % form, lines, recs)
    # -- the flag itself in other truthy / falsy forms
    for fname, ftrue, ffalse in (("int", 1, 0), ("np.bool_", np.bool_(True), np.bool_(False)),
                                 ("0d-bool", np.array(True), np.array(False))):
      try:
        qsf, qdf = make_q(Q, cls, cfg, ftrue), make_q(Q, cls, cfg, ffalse)
      except Exception:  # pylint: disable=broad-except
        run.count("xc_flagform_unsupported_%s" % fname)
        continue
      train_rec(c, qsf, call, rng, "below", tag="flag-%s-below" % fname, lines=lines, recs=recs)
      train_rec(c, qsf, call, rng, "above", tag="flag-%s-above" % fname, lines=lines, recs=recs)
      infer_rec(c, qsf, qd, call, "flag-%s-phase0" % fname, lines, recs)
      infer_rec(c, qdf, qd, call, "flag-%s-off-phase1" % fname, lines, recs, phase=True, stoch_model=False)
      run.count("xc_flagform_%s" % fname)
    # -- other construction routes of the same configuration
    qs0 = make_q(Q, cls, cfg, True)
    routes = [("from_config", lambda: type(qs0).from_config(qs0.get_config())),
              ("get_quantizer-str", lambda: Q.get_quantizer(str(qs0)))]
    for rname, mkr in routes:
      try:
        qr = mkr()
        ok = isinstance(qr, type(qs0)) and bool(qr.use_stochastic_rounding)
        if ok and rname == "get_quantizer-str":
          # the text route is C10's subject: use it only when it reproduces the options (C10 judges that)
          ok = all(getattr(qr, k, None) == getattr(qs0, k, None) for k in cfg)
      except Exception:  # pylint: disable=broad-except
        ok = False
      if not ok:
        run.count("xc_route_unusable_%s" % rname)
        continue
      train_rec(c, qr, call, rng, "below", tag="route-%s-below" % rname, lines=lines, recs=recs)
      train_rec(c, qr, call, rng, "above", tag="route-%s-above" % rname, lines=lines, recs=recs)
      infer_rec(c, qr, qd, call, "route-%s-phase0" % rname, lines, recs)
      run.count("xc_route_%s" % rname)
    # -- ranks 1..5 (dimensions of size 1 included), numpy array vs tensor input
    qs = make_q(Q, cls, cfg, True)
    if m == 16:
      shapes = [(16,), (8, 2), (4, 2, 2), (2, 2, 2, 2), (1, 2, 2, 1, 4), (16, 1), (1, 16)]
      for k, shp in enumerate(shapes):
        as_np = k % 2 == 1
        v = VARIANTS[k % len(VARIANTS)]
        tagb = "rank%d-%s%s" % (len(shp), "x".join(map(str, shp)), "-numpy" if as_np else "")
        train_rec(c, qs, call, rng, v, tag=tagb + "-" + v, lines=lines, recs=recs, shape=shp, as_numpy=as_np)
        infer_rec(c, qs, qd, call, tagb + "-phase0", lines, recs, shape=shp, as_numpy=as_np)
        run.count("xc_rank%d" % len(shp))
    # -- rank 0 (python-scalar-like tensors), one element per call
    for k in range(min(4, m)):
      c1 = sub_case(c, [k * (m // 4)])
      train_rec(c1, qs, call, rng, ("below", "above", "zero", "top")[k], tag="rank0-%d" % k,
                lines=lines, recs=recs, shape=(), as_numpy=(k == 3))
      infer_rec(c1, qs, qd, call, "rank0-%d-phase0" % k, lines, recs, shape=(), as_numpy=(k == 3))
      run.count("xc_rank0")
    # -- history on ONE object: the phase switched between calls, the shape changed between calls,
    #    the phase given through K.learning_phase_scope, the call made through tf.function,
    #    the public attribute use_stochastic_rounding re-assigned
    K.set_learning_phase(1)      # built while the phase is ON, first used with the phase OFF
    qh = make_q(Q, cls, cfg, True)
    sh2 = (m // 2, 2) if m % 2 == 0 else None
    infer_rec(c, qh, qd, call, "hist0-phase0", lines, recs)
    train_rec(c, qh, call, rng, "below", tag="hist1-train", lines=lines, recs=recs)
    infer_rec(c, qh, qd, call, "hist2-phase0-after-train", lines, recs, shape=sh2)
    train_rec(c, qh, call, rng, "above", tag="hist3-train-after-phase0", lines=lines, recs=recs, shape=sh2)
    infer_rec(c, qh, qd, call, "hist4-phase0-scope", lines, recs, scope=True)
    train_rec(c, qh, call, rng, "at", tag="hist5-train-scope", lines=lines, recs=recs, scope=True)
    infer_rec(c, qh, qd, call, "hist6-phase0-tf.function", lines, recs, graph=True)
    train_rec(c, qh, call, rng, "zero", tag="hist7-train-tf.function", lines=lines, recs=recs, graph=True)
    infer_rec(c, qh, qd, call, "hist8-phase0-again", lines, recs)
    run.count("xc_history")
    try:
      qh.use_stochastic_rounding = False
      settable = True
    except AttributeError:
      settable = False          # quantized_linear: read-only property
      run.count("xc_flag_readonly")
    if settable:
      # flag switched off on a used object: deterministic at phase 1 as well (= the twin)
      infer_rec(c, qh, qd, call, "hist9-flag-off-phase1", lines, recs, phase=True, stoch_model=False)
      qh.use_stochastic_rounding = True
      train_rec(c, qh, call, rng, "below", tag="hist10-flag-on-again", lines=lines, recs=recs)
      K.set_learning_phase(0)    # built while the phase is OFF, first used with the phase ON
      qn = make_q(Q, cls, cfg, False)
      infer_rec(c, qn, qd, call, "hist11-built-off-phase1", lines, recs, phase=True, stoch_model=False)
      qn.use_stochastic_rounding = True
      train_rec(c, qn, call, rng, "above", tag="hist12-built-off-switched-on", lines=lines, recs=recs)
      infer_rec(c, qn, qd, call, "hist13-built-off-switched-on-phase0", lines, recs)
      run.count("xc_flag_reassigned")
  # -- process-level switch read by quantized_tanh / quantized_sigmoid: set_internal_sigmoid, set AFTER
  #    the objects were built (configure -> switch -> use); the oracle p follows the switch
  try:
    for smode in ("smooth", "real"):
      for cls, cfg in (("quantized_tanh", dict(bits=4, symmetric=False, use_real_tanh=False)),
                       ("quantized_sigmoid", dict(bits=4, symmetric=True, use_real_sigmoid=False))):
        qs, qd = make_q(Q, cls, cfg, True), make_q(Q, cls, cfg, False)
        Q.set_internal_sigmoid(smode)
        c = build_case(tf, Q, K, cls, cfg, rng)
        c["gap"] = 2 if smode == "real" else 0
        # the sample key must differ from the hard-sigmoid case of the same cfg
        c["cfg"] = dict(cfg)
        attach_refs(run, [c])
        for v in ("below", "at", "above"):
          train_rec(c, qs, call, rng, v, tag="sigmoid-%s-%s" % (smode, v), lines=lines, recs=recs)
        infer_rec(c, qs, qd, call, "sigmoid-%s-phase0" % smode, lines, recs)
        run.count("xc_internal_sigmoid_%s" % smode)
        Q.set_internal_sigmoid("hard")
  finally:
    Q.set_internal_sigmoid("hard")
  outs = core.run_driver("C08", lines)
  for rec, o in zip(recs, outs):
    _judge_class(run, rec, o)


# ---- layer objects holding a quantizer, used several times in both phases ------------------------------

EAGER_ROUTES = ("QActivation", "QActivation-str", "QActivation-from_config", "keras-Activation",
                "QDense-activation", "QConv2D-activation", "Sequential-call", "Functional-call",
                "QDense-kernel_quantizer")
PREDICT_ROUTES = ("Model.predict", "Model.predict_on_batch")
# routes whose construction already runs the quantizer (symbolic model input; QDense.__init__ probing its
# kernel quantizer): built at phase 0, where no draw is needed
MODEL_ROUTES = ("Sequential-call", "Functional-call", "QDense-kernel_quantizer") + PREDICT_ROUTES
# order of the learning phases on ONE layer object, all calls with the same input signature; "s" = one
# more phase-0 / phase-1 pair on ANOTHER input shape at the end (where the route allows it)
LAYER_ORDERS = ((1, 0, 1, 0), (0, 1, 0, 1))


def _layer_route(tf, Q, QL, route, q, ncol):
  """(callable tensor -> tensor around ONE layer object holding the quantizer object `q`, rank of the
  input it needs) or None when the route cannot be built for this quantizer"""
  L = tf.keras.layers
  if route == "QActivation":
    lay = QL.QActivation(q)
    return lay, 2
  if route == "QActivation-str":
    lay = QL.QActivation(str(q))
    return lay, 2
  if route == "QActivation-from_config":
    l0 = QL.QActivation(q)
    lay = QL.QActivation.from_config(l0.get_config())
    return lay, 2
  if route == "keras-Activation":
    return L.Activation(q), 2
  if route == "QDense-activation":
    lay = QL.QDense(ncol, activation=q, use_bias=False, kernel_initializer="identity")
    return lay, 2
  if route == "QConv2D-activation":
    from qkeras import QConv2D
    lay = QConv2D(ncol, (1, 1), activation=q, use_bias=False,
                  kernel_initializer=tf.keras.initializers.Constant(
                      np.eye(ncol, dtype=np.float32).reshape(1, 1, ncol, ncol)))
    return lay, 4
  if route == "Sequential-call":
    return tf.keras.Sequential([L.InputLayer((ncol,)), QL.QActivation(q)]), 2
  if route in ("Functional-call",) + PREDICT_ROUTES:
    i = tf.keras.Input((ncol,))
    m = tf.keras.Model(i, QL.QActivation(q)(i))
    if route == "Functional-call":
      return m, 2
    if route == "Model.predict":
      return (lambda t: m.predict(t, verbose=0)), 2
    return (lambda t: m.predict_on_batch(t)), 2
  if route == "QDense-kernel_quantizer":
    before = q.get_config()
    lay = QL.QDense(ncol, kernel_quantizer=q, use_bias=False)
    lay.build((None, ncol))
    kq = lay.kernel_quantizer_internal
    if kq.get_config() != before:
      return None          # _set_trainable_parameter changed the options (alpha None -> "auto_po2"): other config
    eye = tf.constant(np.eye(ncol, dtype=np.float32))

    def fn(t):
      lay.kernel.assign(tf.reshape(tf.convert_to_tensor(t), (ncol, ncol)))
      return tf.reshape(lay(eye), tf.shape(t))
    return fn, 2
  raise ValueError(route)


def _layers(run, tier, rng, tf, Q, K, draws, call, cases):
  """the clause oracle and the model comparison of `_classes` on LAYER objects that hold the quantizer
  (QActivation built from the object / from its text / from_config, keras Activation, the activation= and
  kernel_quantizer= slots of QDense / QConv2D, Sequential / functional Model.__call__), each layer object
  called several times with the SAME input signature while the learning phase is switched between the
  calls, in both orders (1,0,1,0) and (0,1,0,1): the k-th use must be what a fresh bare quantizer does in
  the phase of that call with the draws of that call (Lean: layerRun qactivationTraced, C08_layer_history_*).
  Model.predict / predict_on_batch run the layer inside ONE cached tf.function per model object: they are
  compared with the TRACED layer model (layerRun kerasPredictTraced) and judged by the same clauses."""
  import qkeras as QL
  quick = tier == "quick"
  by_key = {(c["cls"], str(c["cfg"])): c for c in cases}
  ncol = 4
  hists = []                      # (traced, [line...], [rec...])
  for ci, (cls, cfg) in enumerate(XC_CONFIGS):
    full = by_key.get((cls, str(cfg)))
    if full is None:
      full = build_case(tf, Q, K, cls, cfg, rng)
      attach_refs(run, [full])
    n = len(full["xs"])
    idx = sorted(int(i) for i in rng.choice(n, size=min(16, n), replace=False))
    idx = idx[: (len(idx) // ncol) * ncol]
    c = sub_case(full, idx)
    m = len(idx)
    qd = make_q(Q, cls, cfg, False)
    routes = list(EAGER_ROUTES)
    if ci in (0, 3, 7) or not quick:
      routes += list(PREDICT_ROUTES)
    for route in routes:
      traced = route in PREDICT_ROUTES
      for order in LAYER_ORDERS:
        qs = make_q(Q, cls, cfg, True)
        if route == "QActivation-str":
          try:
            qr = Q.get_quantizer(str(qs))
            ok = isinstance(qr, type(qs)) and all(getattr(qr, k, None) == getattr(qs, k, None) for k in cfg) \
                and bool(qr.use_stochastic_rounding)
          except Exception:  # pylint: disable=broad-except
            ok = False
          if not ok:         # the text does not reproduce the options: C10's subject
            run.count("layer_route_unusable_%s" % route)
            continue
        # the layer is BUILT under the phase opposite to its first use (Keras models, which run the layer
        # once on a symbolic input while they are built, under phase 0: no draw is queued at that time)
        K.set_learning_phase(0 if route in MODEL_ROUTES else 1 - order[0])
        try:
          built = _layer_route(tf, Q, QL, route, qs, ncol)
        except Exception as e:  # pylint: disable=broad-except
          run.disagree("layer", {"cls": cls, "cfg": str(cfg), "route": route, "what": "building the layer raised"},
                       str(e)[:200], None)
          continue
        if built is None:
          run.count("layer_route_unusable_%s" % route)
          continue
        fn, rank = built
        shape = (m // ncol, ncol) if rank == 2 else (1, m // ncol, 1, ncol)
        if route == "QDense-kernel_quantizer":
          if m != ncol * ncol:
            run.count("layer_route_unusable_%s" % route)
            continue
          shape = (ncol, ncol)
        lines, recs = [], []
        hname = "".join(map(str, order))
        seen_sig = set()
        steps = [(ph, shape) for ph in order]
        if rank == 2 and route not in PREDICT_ROUTES and route != "QDense-kernel_quantizer" and m % (2 * ncol) == 0:
          # the same object on another input signature afterwards (rank 3 where the layer takes it)
          shape3 = (2, m // (2 * ncol), ncol) if route not in ("Sequential-call", "Functional-call") else None
          if shape3:
            steps += [(order[0], shape3), (order[1], shape3)]
        for k, (ph, shp) in enumerate(steps):
          tag = "layer-%s-%s-call%d-%s" % (route, hname, k, "train" if ph else "phase0")
          n0 = len(recs)
          replay = traced and shp in seen_sig
          if ph:
            train_rec(c, fn, call, rng, ("below", "above", "at", "zero")[k % 4], tag=tag, lines=lines, recs=recs,
                      shape=shp)
            if replay:
              recs[-1]["expect_left"] = q_draws(cls, cfg)     # a replayed trace consumes no draw
          else:
            infer_rec(c, fn, qd, call, tag, lines, recs, shape=shp)
          for r in recs[n0:]:
            r["route"], r["history"], r["sig"] = route, hname, (0 if shp == shape else 1)
            r["replay"] = replay
          seen_sig.add(shp)
        hists.append((traced, lines, recs))
        run.count("layer_%s_%s" % (route, hname))
  K.set_learning_phase(0)
  wire = []
  for traced, lines, recs in hists:
    wire.append({"op": "layer", "traced": traced,
                 "calls": [dict(l, sig=r["sig"]) for l, r in zip(lines, recs)]})
  outs = core.run_driver("C08", wire)
  for (traced, lines, recs), o in zip(hists, outs):
    if o["qactivation_traced"] is not False or o["predict_traced"] is not True:
      run.disagree("layer", {"what": "model constants"}, None, str(o)[:100])
    for rec, oo in zip(recs, o["outs"]):
      _judge_class(run, rec, oo)
  _layers_sclasses(run, tier, rng, tf, Q, K, draws, call, QL)


def _layers_sclasses(run, tier, rng, tf, Q, K, draws, call, QL):
  """model-free: the stochastic classes (stochastic_binary / stochastic_ternary / binary(flag) / ternary(flag))
  behind the eager layer routes, one layer object through both phase orders.  k-th use == a FRESH bare
  quantizer of the same arguments in the phase of that call with the same draws (values and number of
  draws consumed); at phase 0 == the deterministic counterpart, without a draw."""
  xs32 = np.asarray([float(Fraction(int(k), 64)) for k in rng.integers(-96, 97, size=16)], dtype=np.float32)
  ncol = 4
  makers = [
      ("stochastic_binary", lambda: Q.stochastic_binary(alpha=1.0), lambda: Q.binary(alpha=1.0)),
      ("stochastic_binary", lambda: Q.stochastic_binary(alpha="auto_po2"), lambda: Q.binary(alpha="auto_po2")),
      ("stochastic_ternary", lambda: Q.stochastic_ternary(alpha="auto_po2", number_of_unrolls=2),
       lambda: Q.ternary(alpha="auto_po2", number_of_unrolls=2)),
      ("stochastic_ternary", lambda: Q.stochastic_ternary(alpha=1.0, threshold=0.25),
       lambda: Q.ternary(alpha=1.0, threshold=0.25)),
      ("binary", lambda: Q.binary(alpha=1.0, use_stochastic_rounding=True), lambda: Q.binary(alpha=1.0)),
      ("ternary", lambda: Q.ternary(alpha="auto_po2", use_stochastic_rounding=True, number_of_unrolls=2),
       lambda: Q.ternary(alpha="auto_po2", number_of_unrolls=2)),
  ]
  NQ = 8
  for cls, mk, mkd in makers:
    label = str(mk())
    for route in EAGER_ROUTES[:-1]:
      for order in LAYER_ORDERS:
        K.set_learning_phase(0 if route in MODEL_ROUTES else 1 - order[0])
        q = mk()
        if route == "QActivation-str":
          try:
            if str(Q.get_quantizer(str(q))) != str(q):
              raise ValueError
          except Exception:  # pylint: disable=broad-except
            run.count("layer_route_unusable_%s" % route)
            continue
        try:
          built = _layer_route(tf, Q, QL, route, q, ncol)
        except Exception as e:  # pylint: disable=broad-except
          run.disagree("layer-sclass", {"cls": label, "route": route, "what": "building the layer raised"},
                       str(e)[:200], None)
          continue
        fn, rank = built
        shape = (4, ncol) if rank == 2 else (1, 4, 1, ncol)
        for k, ph in enumerate(order):
          uval = (0.0, float(TOP), 0.25, 0.75)[k]
          ul = [np.full(16, uval, dtype=np.float32).reshape(shape) for _ in range(NQ)] if ph else []
          y, left = call(fn, xs32, ul, bool(ph), shape=shape)
          yf, leftf = call(mk(), xs32, [u.copy() for u in ul], bool(ph), shape=shape)
          key = {"class": cls, "route": "layer"}
          ident = {"cls": label, "route": route, "history": "".join(map(str, order)), "call": k,
                   "phase": ph, "draw_value": uval if ph else None}
          run.case(("layer-sclass", label, route, order, k))
          run.compared += 1
          run.count("layer_sclass_%s" % route)
          if isinstance(yf, Exception):
            if not isinstance(y, Exception):
              run.disagree("layer-sclass", dict(ident, what="bare quantizer raised, layer did not"), "value", str(yf)[:200])
            continue                     # e.g. the assert of ternary(alpha=<number>) in training: not this stream's subject
          if not ph:
            yd, _ = call(mkd(), xs32, [], False, shape=shape)
            if isinstance(y, DrawError):
              run.violate("inference_equal", dict(key, kind="random-draw-at-inference"), dict(ident, error=str(y)),
                          mirrored=False)
            elif isinstance(y, Exception):
              run.violate("runs", dict(key, kind=type(y).__name__), dict(ident, error=str(y)[:300]), mirrored=False)
            elif not isinstance(yd, Exception) and not np.array_equal(y, yd):
              i = int(np.nonzero(y != yd)[0][0])
              run.violate("inference_equal", dict(key, kind="value"),
                          dict(ident, x=float(xs32[i]), layer_output=float(y[i]), deterministic_counterpart=float(yd[i]),
                               n_bad=int(np.sum(y != yd))), mirrored=False)
            continue
          if isinstance(y, Exception):
            run.violate("runs", dict(key, kind=type(y).__name__), dict(ident, error=str(y)[:300]), mirrored=False)
            continue
          if left != leftf or not np.array_equal(y, yf):
            i = int(np.nonzero(y != yf)[0][0]) if not np.array_equal(y, yf) else 0
            run.violate("unbiased", dict(key, kind="training-call-not-a-fresh-draw"),
                        dict(ident, x=float(xs32[i]), layer_output=float(y[i]), fresh_quantizer_output=float(yf[i]),
                             draws_consumed_by_layer=NQ - left, draws_consumed_by_fresh_quantizer=NQ - leftf),
                        mirrored=False)
  K.set_learning_phase(0)


# ---- option lattice beyond the model: inference equality, determinism, no draw -----------------------

def _lattice_makers(Q, tier):
  """(label, class name, constructor(stoch)) — every stochastic-capable class over the options that are
  individually legal; the twin is built from the SAME options"""
  out = []

  def add(cls, **kw):
    label = "%s(%s)" % (cls, ", ".join("%s=%r" % kv for kv in sorted(kw.items())))
    out.append((label, cls, (lambda s, cls=cls, kw=kw: getattr(Q, cls)(use_stochastic_rounding=s, **kw)), kw))
  for us in (0, 1):
    for ns in (0.0, 0.25, 2.0):
      for rub in (None, 1.5):
        for iqc in (True, False):
          add("quantized_relu", bits=4, integer=1, use_sigmoid=us, negative_slope=ns, relu_upper_bound=rub,
              is_quantized_clip=iqc)
  add("quantized_relu", bits=6, integer=2, negative_slope=0.5, qnoise_factor=0.5)
  add("quantized_relu", bits=6, integer=2, use_ste=False, qnoise_factor=0.5)
  for alpha in (None, 2.0, "auto", "auto_po2"):
    for sym in (0, 1):
      for kn in (True, False):
        for bits in (1, 4):
          add("quantized_bits", bits=bits, integer=1 if bits > 1 else 0, symmetric=sym, keep_negative=kn, alpha=alpha)
          if not (alpha in ("auto", "auto_po2") and not sym and kn):      # asymmetric auto is rejected by the class
            add("quantized_linear", bits=bits, integer=1 if bits > 1 else 0, symmetric=sym, keep_negative=kn,
                alpha=alpha)
  add("quantized_bits", bits=8, integer=3, alpha=1, qnoise_factor=0.5)
  add("quantized_bits", bits=8, integer=3, alpha=1, use_ste=False, qnoise_factor=0.25)
  add("quantized_linear", bits=8, integer=3, alpha=1.0, qnoise_factor=0.5)
  add("quantized_hswish", bits=6, integer=2)
  add("quantized_hswish", bits=8, integer=3, symmetric=1, alpha="auto_po2")
  for b in (2, 4, 8):
    for sym in (False, True):
      for real in (False, True):
        add("quantized_tanh", bits=b, symmetric=sym, use_real_tanh=real)
        add("quantized_sigmoid", bits=b, symmetric=sym, use_real_sigmoid=real)
  for alpha in (None, 1.0, 3.0, "auto", "auto_po2"):
    for u01 in (False, True):
      add("binary", alpha=alpha, use_01=u01)
  for alpha in ("auto", "auto_po2"):
    for thr in (None, 0.5):
      for nu in (1, 5):
        add("ternary", alpha=alpha, threshold=thr, number_of_unrolls=nu)
  for bits in (4, 8):
    for mv in (None, 0.5, 1.0, 2.0, 3.0):
      for rounding in ("rnd", "floor"):
        for quad in (False, True):
          add("quantized_po2", bits=bits, max_value=mv, log2_rounding=rounding, quadratic_approximation=quad)
          for ns in (0, 0.5, 2.0):
            add("quantized_relu_po2", bits=bits - 1, max_value=mv, negative_slope=ns, log2_rounding=rounding,
                quadratic_approximation=quad)
  add("quantized_po2", bits=6, qnoise_factor=0.5)
  add("quantized_po2", bits=6, quadratic_approximation=True, use_ste=False, qnoise_factor=0.5)
  add("quantized_relu_po2", bits=6, quadratic_approximation=True, use_ste=False)
  return out


def _lattice(run, tier, rng, tf, Q, K, draws, call):
  """clause `inference_equal` judged directly on the real outputs (no model): learning phase 0, flag on
  vs. the twin with the SAME options and the flag off; no random draw may happen; a second call on the
  same object returns the same tensor.  Inputs are NOT restricted to the exact regime: both objects run
  the same float computation, so equality is bit for bit whatever the rounding noise."""
  vals = [Fraction(int(k), 64) for k in rng.integers(-640, 641, size=36)]
  vals += [Fraction(0), Fraction(0), Fraction(1), Fraction(-1), Fraction(1, 2), Fraction(3, 2), Fraction(5, 2),
           Fraction(1, 32), Fraction(3, 32), Fraction(723, 100), Fraction(3, 4), Fraction(7, 2), Fraction(1, 3)]
  vals += [Fraction(2) ** int(e) * (1 if k % 2 else -1) for k, e in enumerate(rng.integers(-6, 6, size=7))]
  x = np.array([float(v) for v in vals], dtype=np.float32)             # 56 values
  shapes = [(14, 4), (56,), (7, 2, 4), (1, 7, 2, 2, 2)]
  for k, (label, cls, mk, _kw) in enumerate(_lattice_makers(Q, tier)):
    shp = shapes[k % len(shapes)] if cls not in ("binary", "ternary") else (14, 4)
    key = {"class": cls, "kind": "value", "stream": "lattice"}
    run.case(("lattice", label))
    run.compared += 1
    try:
      qs, qd = mk(True), mk(False)
    except Exception as e:  # pylint: disable=broad-except
      run.count("lattice_unsupported_options")
      continue
    ya, _ = call(qs, x, [], False, shp, as_numpy=(k % 3 == 2))
    yb, _ = call(qd, x, [], False, shp, as_numpy=(k % 3 == 2))
    ya2, _ = call(qs, x, [], False, shp)
    run.count("lattice_%s" % cls)
    if isinstance(yb, Exception):
      if not isinstance(ya, Exception):
        run.disagree("lattice", {"cfg": label, "what": "twin raised, stochastic did not"}, "value", str(yb)[:200])
      else:
        run.count("lattice_both_raise")
      run.extra.setdefault("lattice_both_raise", []).append("%s: %s" % (label, str(yb)[:80]))
      continue
    for nm, yy in (("first call", ya), ("second call on the same object", ya2)):
      if isinstance(yy, Exception):
        kind = "random-draw-at-inference" if isinstance(yy, DrawError) else "raises"
        run.violate("inference_equal", dict(key, kind=kind),
                    {"cfg": label, "shape": list(shp), "call": nm, "error": str(yy)[:300]}, mirrored=False)
        break
      if not np.array_equal(yy, yb, equal_nan=True):
        i = int(np.nonzero(~((yy == yb) | (np.isnan(yy) & np.isnan(yb))))[0][0])
        run.violate("inference_equal", key,
                    {"cfg": label, "shape": list(shp), "call": nm, "x": float(x[i]),
                     "stochastic_flag_output": float(yy[i]), "deterministic_output": float(yb[i]),
                     "n_bad": int(np.sum(yy != yb))}, mirrored=False)
        break


# ---- option lattice, training phase: is the flag alive?  (model-free necessary conditions) ------------

LIVE_CLASSES = ("quantized_bits", "quantized_linear", "quantized_relu", "quantized_po2", "quantized_relu_po2")


def _live_target(cls, kw, x64):
  """the quantity whose expectation the property speaks about, in output units (before clipping)"""
  if cls == "quantized_bits" and isinstance(kw.get("alpha"), (int, float)):
    return x64 * float(kw["alpha"])          # quantized_bits multiplies the codes by a numeric alpha
  if cls in ("quantized_relu", "quantized_relu_po2"):
    return np.where(x64 >= 0, x64, x64 * float(kw.get("negative_slope", 0)))
  return x64


def _live_corner(cls, kw):
  if cls == "quantized_bits" and isinstance(kw.get("alpha"), str):
    return "alpha=auto*"
  if cls == "quantized_bits" and kw["bits"] - int(bool(kw.get("keep_negative", True))) <= 0:
    return "sign-branch"
  if "po2" in cls and kw.get("log2_rounding") == "floor":
    return "log2_rounding=floor"
  return "none"


def _live(run, tier, rng, tf, Q, K, draws, call):
  """Training phase over the option lattice, judged WITHOUT the model, for the classes whose rounded
  quantity is the input itself.  Two calls with chosen draws: u = 0 everywhere (every non-code goes UP)
  and u = 1-2^-23 everywhere (every non-code goes DOWN).  For every element that is not saturated
  (strictly inside the range of the twin's outputs of its channel):
    bracket   y_down <= input <= y_up  and  the twin's (round-to-nearest) output is one of the two
    live      if the input is not returned unchanged, y_down != y_up — otherwise the output does not depend
              on the draw and its expectation is that output, not the input (clause `unbiased`); when NO
              draw is consumed at all the whole option corner ignores the flag (kind `flag-ignored`)."""
  vals = [Fraction(int(k), 64) for k in rng.integers(-640, 641, size=40)]
  vals += [Fraction(0), Fraction(1), Fraction(-1), Fraction(1, 2), Fraction(3, 2), Fraction(5, 2), Fraction(1, 32),
           Fraction(3, 32), Fraction(3, 4), Fraction(7, 2), Fraction(-3, 8), Fraction(-5, 16), Fraction(3, 10),
           Fraction(-7, 10), Fraction(9, 4), Fraction(-9, 16)]
  x = np.array([float(v) for v in vals], dtype=np.float32).reshape(14, 4)
  xfr = fr_list(x)
  x64 = x.astype(np.float64)
  n = x.size
  zero = np.zeros(n, dtype=np.float32)
  top = np.full(n, float(TOP), dtype=np.float32)
  pend = []           # (violation args, model line or None, element index)
  for k, (label, cls, mk, kw) in enumerate(_lattice_makers(Q, tier)):
    if cls not in LIVE_CLASSES or kw.get("use_sigmoid"):
      continue
    if kw.get("qnoise_factor", 1.0) != 1.0:
      continue      # the output is a mix of x and xq: saturation cannot be read off the outputs
    if cls == "quantized_bits" and kw.get("alpha") == "auto":
      continue      # same dead branch as "auto_po2", but its float scale is not exactly mirrored
    if cls == "quantized_linear" and isinstance(kw.get("alpha"), str):
      continue      # the scale search itself rounds stochastically: the code lattice depends on the draws
    run.case(("live", label))
    try:
      qs, qd = mk(True), mk(False)
    except Exception:  # pylint: disable=broad-except
      continue
    nq = 24           # quantized_linear(alpha="auto_po2") rounds inside its scale iteration as well
    y_up, left_up = call(qs, x.reshape(-1), [zero] * nq, True, (14, 4))
    y_dn, left_dn = call(qs, x.reshape(-1), [top] * nq, True, (14, 4))
    t, _ = call(qd, x.reshape(-1), [], True, (14, 4))
    if any(isinstance(v, Exception) for v in (y_up, y_dn, t)):
      if not isinstance(t, Exception):
        e = y_up if isinstance(y_up, Exception) else y_dn
        run.violate("runs", {"class": cls, "kind": type(e).__name__, "stream": "live"},
                    {"cfg": label, "error": str(e)[:300]}, mirrored=False)
      else:
        run.count("live_both_raise")
      continue
    if not (np.all(np.isfinite(t)) and np.all(np.isfinite(y_up)) and np.all(np.isfinite(y_dn))):
      run.count("live_skipped_nonfinite")
      continue
    run.compared += n
    consumed = nq - left_up
    corner = _live_corner(cls, kw)
    tgt = _live_target(cls, kw, x64).reshape(-1)
    t2 = t.reshape(14, 4).astype(np.float64)
    lo = np.broadcast_to(t2.min(axis=0, keepdims=True), (14, 4)).reshape(-1)
    hi = np.broadcast_to(t2.max(axis=0, keepdims=True), (14, 4)).reshape(-1)
    yu, yd, tt = y_up.astype(np.float64), y_dn.astype(np.float64), t.astype(np.float64)
    inside = (tgt > lo) & (tgt < hi)
    if "po2" in cls:
      # the lattice is one of magnitudes: saturation is |input| outside the range of |output|
      a2 = np.abs(t2)
      alo = np.broadcast_to(a2.min(axis=0, keepdims=True), (14, 4)).reshape(-1)
      ahi = np.broadcast_to(a2.max(axis=0, keepdims=True), (14, 4)).reshape(-1)
      inside = (np.abs(tgt) > alo) & (np.abs(tgt) < ahi)
    run.count("live_%s_%s" % (cls, "dead" if consumed == 0 else "alive"))
    run.count("live_elements_judged", int(inside.sum()))
    # which model line can mirror a dead corner
    mline = None
    if consumed == 0 and corner != "none" and kw.get("qnoise_factor", 1.0) == 1.0 and kw.get("use_ste", True):
      if corner == "alpha=auto*" and kw["alpha"] == "auto_po2":
        S = np.broadcast_to(np.asarray(K.eval(qs.scale), dtype=np.float32), (14, 4)).reshape(-1)
        mline = {"op": "q", "cls": "quantized_bits_auto", "phase": True, "stoch": True, "x": enc(xfr),
                 "bits": kw["bits"], "integer": kw["integer"], "symmetric": True,
                 "keep_negative": bool(kw["keep_negative"]), "alpha": [1, 1], "S": enc(fr_list(S))}
      elif corner == "sign-branch":
        mline = model_line("quantized_bits", dict(kw, alpha=kw.get("alpha")), True, True, xfr)
      elif corner == "log2_rounding=floor":
        cfg = dict(kw)
        cfg.setdefault("negative_slope", 0)
        ss = fr_list(po2_sqrt_oracle(tf, cls, cfg, x.reshape(-1))) if cfg.get("quadratic_approximation") else None
        mline = model_line(cls, cfg, True, True, xfr, s=ss)
    for i in np.nonzero(inside)[0]:
      i = int(i)
      det = {"cfg": label, "x": float(x.reshape(-1)[i]), "input_in_output_units": float(tgt[i]),
             "output_u0": float(yu[i]), "output_u_top": float(yd[i]), "round_to_nearest_twin": float(tt[i]),
             "draws_consumed": consumed}
      if yu[i] == yd[i] and yu[i] != tgt[i]:
        kind = "flag-ignored" if consumed == 0 else "flag-ignored-element"
        pend.append((("unbiased", {"class": cls, "kind": kind, "corner": corner, "stream": "live"}, det), mline, i))
      elif not (min(yd[i], yu[i]) <= tgt[i] <= max(yd[i], yu[i])):
        pend.append((("adjacent", {"class": cls, "kind": "bracket", "stream": "live"}, det), None, i))
      elif tt[i] != yu[i] and tt[i] != yd[i]:
        pend.append((("inference_equal", {"class": cls, "kind": "twin-not-adjacent", "stream": "live"}, det), None, i))
  # mirror check for the dead corners the model knows about
  mlines, seen = [], {}
  for _, ml, _ in pend:
    if ml is not None and id(ml) not in seen:
      seen[id(ml)] = len(mlines)
      mlines.append(ml)
  mouts = core.run_driver("C08", mlines) if mlines else []
  for (clause, key, det), ml, i in pend:
    mirrored = False
    if ml is not None:
      my = dec(mouts[seen[id(ml)]]["y"])
      mirrored = (my[i] == Fraction(det["output_u0"]))
      det = dict(det, model_output=str(my[i]))
    run.violate(clause, key, det, mirrored=mirrored)


# ---- un-patched RNG -------------------------------------------------------------------------------------

def _rng_stream(run, tier, rng, tf, Q, K):
  seeds = 48 if tier == "quick" else 200
  cfgs = [("quantized_bits", dict(bits=4, integer=1, symmetric=0, keep_negative=True, alpha=None)),
          ("quantized_linear", dict(bits=4, integer=1, symmetric=1, keep_negative=True, alpha=None)),
          ("quantized_relu", dict(bits=4, integer=0, negative_slope=0.0)),
          ("quantized_tanh", dict(bits=4, symmetric=False, use_real_tanh=False)),
          ("quantized_sigmoid", dict(bits=4, symmetric=False, use_real_sigmoid=False)),
          ("quantized_po2", dict(bits=4, max_value=None)),
          ("quantized_relu_po2", dict(bits=4, max_value=None, negative_slope=0)),
          ("quantized_po2", dict(bits=4, max_value=None, log2_rounding="floor")),
          ("quantized_po2", dict(bits=5, max_value=None, quadratic_approximation=True)),
          ("quantized_relu_po2", dict(bits=4, max_value=3.0, negative_slope=2.0, quadratic_approximation=True))]
  K.set_learning_phase(1)
  lines, cases = [], []
  for cls, cfg in cfgs:
    if "po2" in cls:
      xs = [Fraction(int(k), 64) for k in rng.integers(1, 512, size=48)] + [Fraction(1), Fraction(1, 2)]
      if cls == "quantized_po2" or cfg.get("negative_slope"):
        xs += [-x for x in xs[:10]]
    else:
      xs = [Fraction(int(k), 256) for k in rng.integers(-640, 640, size=56)]
    xs32 = f32list(xs)
    ps = fr_list(_oracle_p(tf, Q, K, cls, cfg, xs32)) if cls in ("quantized_tanh", "quantized_sigmoid") else xs
    ss = fr_list(po2_sqrt_oracle(tf, cls, cfg, xs32)) if ("po2" in cls and cfg.get("quadratic_approximation")) else None
    lines.append(model_line(cls, cfg, True, True, ps, s=ss))
    cases.append((cls, cfg, xs, xs32, ps))
  refs = core.run_driver("C08", lines)
  means = {}
  for (cls, cfg, xs, xs32, ps), r in zip(cases, refs):
    q = make_q(Q, cls, cfg, True)
    below, above, clipped = dec(r["below"]), dec(r["above"]), dec(r["clipped"])
    acc = np.zeros(len(xs), dtype=np.float64)
    for s in range(seeds):
      tf.random.set_seed(int(run.seed) * 100003 + s)
      y = np.asarray(q(tf.constant(xs32)).numpy(), dtype=np.float32)
      acc += y
      run.case(("rng", cls, str(cfg), s), nontrivial=(s < 2))
      for i, yi in enumerate(fr_list(y)):
        if yi != below[i] and yi != above[i]:
          kind = "midpoint" if (below[i] != above[i] and 2 * yi == below[i] + above[i]) else "other"
          # mirrored: the model with SOME draw gives this output (the half step is what the model's
          # precision produces); for other kinds there is no such claim
          mirrored = kind == "midpoint" and run.extra.get("model_act_precision") == "1/2"
          kb = {"class": cls, "kind": kind}
          if "po2" in cls:
            kb["mode"] = po2_mode(cfg)
          run.violate("adjacent", kb,
                      {"stream": "rng", "seed": s, "cfg": str(cfg), "x": str(xs[i]), "output": str(yi),
                       "code_below": str(below[i]), "code_above": str(above[i])}, mirrored=mirrored)
      run.count("rng_draws_%s" % cls, len(xs))
    mean = acc / seeds
    # evidence only: largest |empirical mean - clipped input| in units of the local code gap,
    # with the 6-sigma alarm threshold for a two-point distribution (gap/2/sqrt(seeds))
    worst = 0.0
    for i in range(len(xs)):
      gap = float(abs(above[i] - below[i]))
      if gap == 0:
        continue
      worst = max(worst, abs(mean[i] - float(clipped[i])) / gap)
    means[cls if "po2" not in cls or po2_mode(cfg) == "rnd" else "%s[%s]" % (cls, po2_mode(cfg))] = {"seeds": seeds, "max_abs_mean_error_in_code_gaps": round(worst, 4),
                  "six_sigma_bound": round(6 * 0.5 / math.sqrt(seeds), 4),
                  "alarm": bool(worst > 6 * 0.5 / math.sqrt(seeds))}
  run.extra["empirical_mean_unpatched_rng"] = means
