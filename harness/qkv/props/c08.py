"""C08 — stochastic rounding: adjacent code, unbiased in training, exact at inference
(DESIGN.md §4 C08; model lean/QKV/Model/Stoch.lean; theorems lean/QKV/Props/C08.lean).

Streams
  prim      stochastic_round / _round_through / stochastic_round_po2 called directly, draws chosen
  train     every class with use_stochastic_rounding, K.learning_phase()=1, `tf.random.uniform`
            replaced by a function returning the tensor chosen here (u straddles frac)
  infer     learning phase 0: exact equality with the deterministic twin and with the model
  binary    binary(use_stochastic_rounding) (two draws), phase-0 shape behaviour
  ternary   ternary(alpha='auto_po2', use_stochastic_rounding, number_of_unrolls=1)
  sclass    stochastic_binary / stochastic_ternary: training sample step, phase-0 twins
  rng       un-patched tf.random: many seeds, every draw judged by the `adjacent` clause,
            empirical mean in the evidence only
"""
from fractions import Fraction
import math

import numpy as np

from .. import core

ULP = Fraction(1, 2 ** 23)          # tf.random.uniform(float32) returns multiples of 2^-23 in [0,1)
TOP = 1 - ULP


class DrawError(Exception):
  pass


class Draws:
  """stand-in for tf.random.uniform: returns the queued tensors in call order"""

  def __init__(self, tf):
    self.tf = tf
    self.queue = []
    self.calls = 0
    self.active = False
    self.mods = []

  def install(self, mods):
    for m in mods:
      self.mods.append((m, m.uniform))
      m.uniform = self.fake
    self.active = True

  def uninstall(self):
    for m, orig in self.mods:
      m.uniform = orig
    self.mods = []
    self.active = False

  def fake(self, shape, minval=0, maxval=None, dtype=None, seed=None, name=None):
    tf = self.tf
    self.calls += 1
    if not self.queue:
      raise DrawError("unexpected draw #%d" % self.calls)
    u = np.asarray(self.queue.pop(0), dtype=np.float32)
    u = tf.reshape(tf.constant(u), shape)
    if maxval is None and (isinstance(minval, (int, float)) and minval == 0):
      return u
    if maxval is None:
      maxval = 1.0
    # what random_ops.random_uniform does with the unit draw
    return u * (maxval - minval) + minval


def fl23(fr):
  """largest multiple of 2^-23 that is <= fr, kept inside [0, 1-2^-23]"""
  k = math.floor(fr * 2 ** 23)
  return min(max(Fraction(k, 2 ** 23), Fraction(0)), TOP)


VARIANTS = ("zero", "below", "at", "above", "top", "rand")


def u_variant(name, fracs, rng, gap=1):
  """gap: distance (in 2^-23) of the 'above' draw from floor23(frac); 2 where the code's own
  `fraction` carries one float32 rounding (real tanh / sigmoid values are not short dyadics)"""
  out = []
  for fr in fracs:
    at = fl23(fr)
    if name == "zero":
      u = Fraction(0)
    elif name == "below":
      u = max(at - ULP, Fraction(0))
    elif name == "at":
      u = at
    elif name == "above":
      u = min(at + gap * ULP, TOP)
    elif name == "top":
      u = TOP
    else:
      u = Fraction(int(rng.integers(0, 2 ** 23)), 2 ** 23)
    out.append(u)
  return out


def f32list(fr_list):
  a = np.array([float(f) for f in fr_list], dtype=np.float32)
  for f, v in zip(fr_list, a):
    if Fraction(float(v)) != f:
      raise core.InfraError("generator produced a value that is not a float32: %s" % f)
  return a


def fr_list(arr):
  return [Fraction(float(v)) for v in np.asarray(arr, dtype=np.float64).reshape(-1)]


def enc(frs):
  return [[f.numerator, f.denominator] for f in frs]


def dec(ps):
  return [Fraction(int(p[0]), int(p[1])) for p in ps]


# --------------------------------------------------------------------------- configurations

def lattice_points(step, lo_k, hi_k, rng, n_codes=10):
  """codes, midpoints (ties), off-lattice points, out-of-range points — as Fractions"""
  ks = list(range(lo_k, hi_k + 1))
  if len(ks) > n_codes:
    inner = rng.choice(ks[1:-1], size=n_codes - 4, replace=False).tolist()
    ks = sorted(set([ks[0], ks[1], ks[-2], ks[-1]] + [int(k) for k in inner]))
  pts = []
  for k in ks:
    pts.append(Fraction(k) * step)                              # code
    pts.append((Fraction(k) + Fraction(1, 2)) * step)           # tie / half step
    pts.append((Fraction(k) + Fraction(int(rng.integers(1, 16)), 16)) * step)
    pts.append((Fraction(k) + Fraction(int(rng.integers(1, 64)), 64)) * step)
  for d in (Fraction(3, 2), Fraction(13, 4), Fraction(8)):
    pts.append((Fraction(hi_k) + d) * step)                     # saturated high
    pts.append((Fraction(lo_k) - d) * step)                     # saturated low
  pts += [Fraction(0), step / 64, -step / 64]
  return pts


def fixed_configs(tier, rng):
  """(cls, cfg dict) for the fixed-point family"""
  out = []
  big = tier != "quick"
  bits_l = [2, 3, 4, 8] + ([5, 6, 12] if big else [])
  for bits in bits_l:
    for integer in ([0, 1, 2] if bits <= 4 or big else [0, 3]):
      for kn in (True, False):
        for sym in ((0, 1) if bits <= 4 or big else (0,)):
          out.append(("quantized_bits", dict(bits=bits, integer=integer, symmetric=sym, keep_negative=kn,
                                              alpha=None)))
          for alpha in (None, 2.0, 0.5) if (bits in (2, 4) and integer == 0) else (None,):
            out.append(("quantized_linear", dict(bits=bits, integer=integer, symmetric=sym,
                                                 keep_negative=kn, alpha=alpha)))
  out.append(("quantized_bits", dict(bits=1, integer=0, symmetric=0, keep_negative=True, alpha=None)))
  out.append(("quantized_bits", dict(bits=1, integer=0, symmetric=0, keep_negative=False, alpha=None)))
  out.append(("quantized_linear", dict(bits=1, integer=0, symmetric=1, keep_negative=True, alpha=None)))
  out.append(("quantized_linear", dict(bits=1, integer=0, symmetric=1, keep_negative=False, alpha=None)))
  for bits in [2, 3, 4, 8] + ([6] if big else []):
    for integer in (0, 1, 2):
      out.append(("quantized_relu", dict(bits=bits, integer=integer, negative_slope=0.0)))
    if bits >= 4:
      for ns in (0.25, 0.5):
        out.append(("quantized_relu", dict(bits=bits, integer=1, negative_slope=ns)))
  for bits in [2, 3, 4, 8] + ([6] if big else []):
    for sym in (False, True):
      for real in (False, True):
        out.append(("quantized_tanh", dict(bits=bits, symmetric=sym, use_real_tanh=real)))
        out.append(("quantized_sigmoid", dict(bits=bits, symmetric=sym, use_real_sigmoid=real)))
  return out


def po2_configs(tier):
  out = []
  for bits in (3, 4, 5) + ((6,) if tier != "quick" else ()):
    for mv in (None, 1.0, 3.0, 4.0):
      out.append(("quantized_po2", dict(bits=bits, max_value=mv)))
      out.append(("quantized_relu_po2", dict(bits=bits - 1, max_value=mv, negative_slope=0)))
    out.append(("quantized_relu_po2", dict(bits=bits - 1, max_value=None, negative_slope=0.25)))
  return out


def make_q(Q, cls, cfg, stoch):
  kw = dict(cfg)
  kw["use_stochastic_rounding"] = stoch
  return getattr(Q, cls)(**kw)


def fixed_inputs(cls, cfg, rng):
  """input values (Fractions) aimed at the model's case splits for this configuration"""
  if cls in ("quantized_bits", "quantized_linear"):
    bits, integer, kn = cfg["bits"], cfg["integer"], cfg["keep_negative"]
    alpha = Fraction(cfg["alpha"]) if (cls == "quantized_linear" and cfg["alpha"]) else Fraction(1)
    ub = bits - int(kn)
    if cls == "quantized_linear" and bits == 1 and kn:
      step = alpha * Fraction(2) ** (integer - bits + 1)
      return [step * Fraction(j, 16) for j in range(-14, 15)] + [Fraction(0), 3 * step, -3 * step]
    if ub <= 0:
      return [Fraction(j, 8) for j in range(-9, 10)]
    step = alpha * Fraction(2) ** (integer - ub)
    lo_k = -(2 ** ub) if kn else 0
    return lattice_points(step, lo_k, 2 ** ub - 1, rng)
  if cls == "quantized_relu":
    nsb = cfg["bits"] - int(cfg["negative_slope"] != 0)
    step = Fraction(2) ** (cfg["integer"] - nsb)
    pts = lattice_points(step, 0, 2 ** nsb - 1, rng)
    if cfg["negative_slope"]:
      ns = Fraction(cfg["negative_slope"])
      # negative side: the rounded level is x*slope/step
      pts += [-(p / ns) for p in lattice_points(step, 0, int(ns * 2 ** nsb), rng, n_codes=6) if p > 0]
    return pts
  if cls == "quantized_tanh":
    m = 2 ** (cfg["bits"] - 1)
    pts = lattice_points(Fraction(1, m), -m, m - 1, rng)
    if cfg["use_real_tanh"]:
      return pts + [Fraction(int(rng.integers(-4096, 4096)), 1024) for _ in range(16)]
    return pts                     # 2*hard_sigmoid(x)-1 = clip(x,-1,1): x is the level directly
  if cls == "quantized_sigmoid":
    m = 2 ** cfg["bits"]
    pts = lattice_points(Fraction(1, m), 0, m - 1, rng)
    if cfg["use_real_sigmoid"]:
      return [4 * p - 2 for p in pts] + [Fraction(int(rng.integers(-8192, 8192)), 1024) for _ in range(16)]
    return [2 * p - 1 for p in pts]  # hard_sigmoid(x) = clip(x/2+1/2, 0, 1)
  raise ValueError(cls)


def po2_inputs(cls, cfg, rng):
  pts = [Fraction(0)]
  for e in range(-7, 5):
    b = Fraction(2) ** e
    pts += [b, b * Fraction(3, 2), b * Fraction(5, 4), b * Fraction(129, 128), b * Fraction(255, 128),
            b * (1 + Fraction(int(rng.integers(1, 128)), 128))]
  pts += [-p for p in pts[1::3]]
  if cfg.get("max_value"):
    mv = Fraction(cfg["max_value"])
    pts += [mv, mv * Fraction(127, 128), mv * Fraction(129, 128), mv * 3]
  return pts


def model_line(cls, cfg, stoch, phase, xs, u1=None, u2=None, extra=None):
  d = {"op": "q", "cls": cls, "phase": phase, "stoch": stoch, "x": enc(xs)}
  if cls in ("quantized_bits", "quantized_linear"):
    d.update(bits=cfg["bits"], integer=cfg["integer"], symmetric=bool(cfg["symmetric"]),
             keep_negative=cfg["keep_negative"], alpha=core.rj(cfg["alpha"] if cfg["alpha"] else 1))
  elif cls == "quantized_relu":
    d.update(bits=cfg["bits"], integer=cfg["integer"], neg_slope=core.rj(cfg["negative_slope"]))
  elif cls in ("quantized_tanh", "quantized_sigmoid"):
    d.update(bits=cfg["bits"], symmetric=bool(cfg["symmetric"]))
  elif cls in ("quantized_po2", "quantized_relu_po2"):
    d.update(bits=cfg["bits"], max_value=None if cfg["max_value"] is None else core.rj(cfg["max_value"]))
    if cls == "quantized_relu_po2":
      d["neg_slope"] = core.rj(cfg["negative_slope"])
  if u1 is not None:
    d["u1"] = enc(u1)
  if u2 is not None:
    d["u2"] = enc(u2)
  if extra:
    d.update(extra)
  return d


def n_draws(cls, cfg):
  if cls == "quantized_bits" and cfg["bits"] - int(cfg["keep_negative"]) <= 0:
    return 0          # sign branch: no _round_through call
  if cls == "quantized_relu":
    return 2 if cfg["negative_slope"] > 0 else 1
  if cls == "quantized_relu_po2":
    return 2
  return 1


# --------------------------------------------------------------------------- the check

def run(run: core.Run, tier: str):
  core.assert_repo_import()
  import tensorflow as tf
  from qkeras import quantizers as Q
  from tensorflow.keras import backend as K
  rng = np.random.default_rng(run.seed)
  quick = tier == "quick"
  run.extra["rule"] = (
      "inputs per configuration: every (sampled) code k*step, the half step (k+1/2)*step (tie of "
      "round-half-even), off-lattice points, both saturation sides, 0; power-of-two classes: 2^e, "
      "1.5*2^e, points next to 2^e and 2^(e+1), max_value edges. Draws u are chosen, not sampled: 0, "
      "floor23(frac)-2^-23, floor23(frac), +2^-23, 1-2^-23 and one seeded random multiple of 2^-23 "
      "(frac = probability of the upper code from the Lean reference; +2*2^-23 for real tanh/sigmoid, "
      "whose `fraction` carries one float32 rounding <= 2^-25). All other values are short dyadics so "
      "float32 arithmetic is exact. non-trivial = distinct (class, configuration, stream, variant)")
  run.assumptions += [
      "tf.random.uniform returns float32 multiples of 2^-23 in [0,1), independent per element; it is "
      "replaced in the harness process by a function returning chosen tensors (train stream) and used "
      "un-patched in the rng stream",
      "expectation = input is proved algebraically (round-up set is {u <= frac}, mean identity); the "
      "measure-theoretic step P(u <= frac) = frac for a uniform draw is not formalised",
      "tanh / sigmoid values enter the model as oracle arguments computed by the same TF op",
      "round(log2(y+eps)) inside stochastic_round_po2 is an oracle the theorems only need within 1 "
      "of log2 y (LogOK); the driver evaluates that hypothesis on every case (h_ok)",
      "element-wise model: K.max(|x|) (binary) and the auto_po2 start scale (ternary) are computed by "
      "the harness with numpy / the same TF ops and passed in",
  ]
  consts = core.run_driver("C08", [{"op": "consts"}])[0]
  run.extra["model_act_precision"] = str(core.unrj(consts["act_precision"]))

  draws = Draws(tf)
  mods = [Q.tf.random]
  if tf.random is not Q.tf.random:
    mods.append(tf.random)
  draws.install(mods)

  def call(q, xs_f32, ulists, phase, shape=None):
    """run the real quantizer with the given draws; returns (flat float32 array | exception, leftover)"""
    K.set_learning_phase(1 if phase else 0)
    draws.queue = [np.asarray(u, dtype=np.float32) for u in ulists]
    draws.calls = 0
    x = np.asarray(xs_f32, dtype=np.float32)
    if shape is not None:
      x = x.reshape(shape)
    try:
      y = q(tf.constant(x))
      y = np.asarray(y.numpy() if hasattr(y, "numpy") else y, dtype=np.float32)
    except Exception as e:  # pylint: disable=broad-except  (the real code raised; the caller judges it)
      left = len(draws.queue)
      draws.queue = []
      return e, left
    left = len(draws.queue)
    draws.queue = []
    if y.shape != x.shape:
      return ValueError("output shape %s for input shape %s" % (y.shape, x.shape)), left
    return y.reshape(-1), left

  try:
    _prim(run, tier, rng, tf, Q, K, draws)
    _classes(run, tier, rng, tf, Q, K, draws, call)
    if not quick:
      # three more input/draw samples of the same configuration grid
      for extra in range(3):
        _classes(run, tier, np.random.default_rng([run.seed, extra + 1]), tf, Q, K, draws, call)
    _binary(run, tier, rng, tf, Q, K, draws, call)
    _ternary(run, tier, rng, tf, Q, K, draws, call)
    _sclasses(run, tier, rng, tf, Q, K, draws, call)
  finally:
    draws.uninstall()
    K.set_learning_phase(0)
  _rng_stream(run, tier, rng, tf, Q, K)
  K.set_learning_phase(0)


# ---- prim -------------------------------------------------------------------------------------

def _prim(run, tier, rng, tf, Q, K, draws):
  lines, impls, meta = [], [], []
  xs = [Fraction(int(rng.integers(-2048, 2048)), 256) for _ in range(48)] + \
       [Fraction(k, 2) for k in range(-6, 7)] + [Fraction(0)]
  for prec in (1.0, 0.5, 0.25, 0.125):
    fr = [(x / Fraction(prec)) - math.floor(x / Fraction(prec)) for x in xs]
    for v in VARIANTS:
      us = u_variant(v, fr, rng)
      draws.queue = [f32list(us)]
      y = Q.stochastic_round(tf.constant(f32list(xs)), prec).numpy()
      lines.append({"op": "sr", "x": enc(xs), "u": enc(us), "prec": core.rj(prec)})
      impls.append(fr_list(y))
      meta.append(("stochastic_round", prec, v, xs, us))
      for phase in (0, 1):
        for stoch in (False, True):
          K.set_learning_phase(phase)
          draws.queue = [f32list(us)]
          y = Q._round_through(tf.constant(f32list(xs)), stoch, prec)
          y = y.numpy()
          if draws.queue and (phase == 1 and stoch):
            run.disagree("prim", {"fn": "_round_through", "phase": phase, "stoch": stoch}, "no draw", "one draw")
          if not draws.queue and not (phase == 1 and stoch):
            run.disagree("prim", {"fn": "_round_through", "phase": phase, "stoch": stoch}, "draw", "no draw")
          draws.queue = []
          lines.append({"op": "rt", "x": enc(xs), "u": enc(us), "prec": core.rj(prec), "phase": bool(phase),
                        "stoch": stoch})
          impls.append(fr_list(y))
          meta.append(("_round_through", (prec, phase, stoch), v, xs, us))
  # stochastic_round_po2 directly
  ys = []
  for e in range(-8, 8):
    b = Fraction(2) ** e
    ys += [b, b * Fraction(3, 2), b * Fraction(129, 128), b * Fraction(255, 128), b * Fraction(181, 128),
           -b * Fraction(5, 4)]
  fr = []
  for y in ys:
    a = abs(y)
    l = math.floor(math.log2(a))
    while Fraction(2) ** l > a:
      l -= 1
    while Fraction(2) ** (l + 1) <= a:
      l += 1
    fr.append((a - Fraction(2) ** l) / Fraction(2) ** l)
  for v in VARIANTS:
    us = u_variant(v, fr, rng)
    draws.queue = [f32list(us)]
    y = Q.stochastic_round_po2(tf.constant(f32list(ys))).numpy()
    lines.append({"op": "srpo2", "x": enc(ys), "u": enc(us)})
    impls.append(fr_list(y))
    meta.append(("stochastic_round_po2", None, v, ys, us))
  outs = core.run_driver("C08", lines)
  for (fn, par, v, xs_, us), impl, o in zip(meta, impls, outs):
    model = dec(o["y"]) if fn != "stochastic_round_po2" else [Fraction(int(t)) for t in o["y"]]
    run.case(("prim", fn, str(par), v), sample={"fn": fn, "par": str(par), "variant": v,
                                               "x": str(xs_[0]), "u": str(us[0]), "impl": str(impl[0])})
    run.compared += len(impl)
    run.count("prim_%s" % fn, len(impl))
    if fn == "stochastic_round_po2" and not all(o["h_ok"]):
      run.disagree("prim", {"fn": fn, "what": "LogOK hypothesis false on a generated input"}, None, o["h_ok"])
    for i, (a, b) in enumerate(zip(impl, model)):
      if a != b:
        run.disagree("prim", {"fn": fn, "par": str(par), "variant": v, "x": str(xs_[i]), "u": str(us[i])},
                     str(a), str(b))
        break


# ---- fixed-point and power-of-two classes --------------------------------------------------------

def _oracle_p(tf, Q, K, cls, cfg, xs32):
  """value that enters the rounding for tanh / sigmoid, computed by the same TF op"""
  x = tf.constant(xs32)
  if cls == "quantized_tanh":
    p = K.tanh(x) if cfg["use_real_tanh"] else 2.0 * Q._sigmoid(x) - 1.0
  else:
    p = K.sigmoid(x) if cfg["use_real_sigmoid"] else Q._sigmoid(x)
  return np.asarray(p.numpy(), dtype=np.float32)


def _classes(run, tier, rng, tf, Q, K, draws, call):
  cfgs = fixed_configs(tier, rng) + po2_configs(tier)
  cases = []
  for cls, cfg in cfgs:
    xs = po2_inputs(cls, cfg, rng) if "po2" in cls else fixed_inputs(cls, cfg, rng)
    xs32 = f32list(xs)
    if cls in ("quantized_tanh", "quantized_sigmoid"):
      ps = fr_list(_oracle_p(tf, Q, K, cls, cfg, xs32))
    else:
      ps = xs
    cases.append(dict(cls=cls, cfg=cfg, xs=xs, xs32=xs32, ps=ps))
  # pass 1: the reference notions (below / above / frac / is-code) do not depend on the draw
  ref = core.run_driver("C08", [model_line(c["cls"], c["cfg"], True, True, c["ps"]) for c in cases])
  lines, recs = [], []
  for c, r in zip(cases, ref):
    cls, cfg = c["cls"], c["cfg"]
    lat = "below" in r
    c["ref"] = r
    if "po2" in cls:
      if not all(r["bracket_ok"]):
        run.disagree("train", {"cls": cls, "cfg": str(cfg), "what": "floorLog2 bracket wrong"}, None, None)
      bad_h = [str(x) for x, ok, tiny in zip(c["xs"], r["h_ok"], r["tiny"]) if not ok and not tiny]
      if bad_h:
        run.disagree("train", {"cls": cls, "cfg": str(cfg), "what": "LogOK false", "x": bad_h[:3]}, None, None)
    fracs = dec(r["frac"]) if lat else [Fraction(0)] * len(c["xs"])
    qs = make_q(Q, cls, cfg, True)
    qd = make_q(Q, cls, cfg, False)
    nd = n_draws(cls, cfg)
    # ---- training, chosen draws
    gap = 2 if (cfg.get("use_real_tanh") or cfg.get("use_real_sigmoid")) else 1
    for v in VARIANTS:
      u1 = u_variant(v, fracs, rng, gap)
      u2 = u_variant(v, fracs, rng, gap) if nd == 2 else None
      ul = ([f32list(u1)] if nd >= 1 else []) + ([f32list(u2)] if nd == 2 else [])
      y, left = call(qs, c["xs32"], ul, True)
      lines.append(model_line(cls, cfg, True, True, c["ps"], u1, u2))
      recs.append(dict(c=c, stream="train", variant=v, u1=u1, u2=u2, y=y, left=left))
    # ---- inference: stochastic flag at phase 0, twin without the flag at phase 0 and 1
    y0, left0 = call(qs, c["xs32"], [], False)
    yt0, _ = call(qd, c["xs32"], [], False)
    yt1, _ = call(qd, c["xs32"], [], True)
    lines.append(model_line(cls, cfg, True, False, c["ps"]))
    recs.append(dict(c=c, stream="infer", variant="phase0", y=y0, left=left0, twin0=yt0, twin1=yt1))
  outs = core.run_driver("C08", lines)
  for rec, o in zip(recs, outs):
    _judge_class(run, rec, o)


def _judge_class(run, rec, o):
  c = rec["c"]
  cls, cfg, xs, ps, r = c["cls"], c["cfg"], c["xs"], c["ps"], c["ref"]
  ident = {"cls": cls, "cfg": str(cfg), "stream": rec["stream"], "variant": rec["variant"]}
  run.case((cls, str(cfg), rec["stream"], rec["variant"]),
           sample=dict(ident, x=str(xs[1]), u=str(rec.get("u1", [0, 0])[1]) if rec.get("u1") else None))
  model = dec(o["y"])
  y = rec["y"]
  if isinstance(y, Exception):
    run.disagree(rec["stream"], ident, "exception: %s" % y, "value")
    if isinstance(y, DrawError) and rec["stream"] == "infer":
      run.violate("inference_equal", {"class": cls, "kind": "random-draw-at-inference"},
                  dict(ident, error=str(y)), mirrored=False)
    else:
      run.violate("runs", {"class": cls, "kind": type(y).__name__}, dict(ident, error=str(y)), mirrored=False)
    return
  if rec["left"]:
    run.disagree(rec["stream"], dict(ident, what="fewer tf.random.uniform calls than the model has draws"),
                 rec["left"], 0)
  impl = fr_list(y)
  run.compared += len(impl)
  lat = "below" in r
  below = dec(r["below"]) if lat else None
  above = dec(r["above"]) if lat else None
  fracs = dec(r["frac"]) if lat else None
  agree = [a == b for a, b in zip(impl, model)]
  for i, ok in enumerate(agree):
    if not ok:
      run.disagree(rec["stream"], dict(ident, x=str(xs[i]), p=str(ps[i]),
                                       u1=str(rec["u1"][i]) if rec.get("u1") else None),
                   str(impl[i]), str(model[i]))
      break
  if rec["stream"] == "infer":
    # clause: phase 0 == the deterministic twin (at either phase), bit for bit
    for nm in ("twin0", "twin1"):
      t = rec[nm]
      if isinstance(t, Exception):
        run.disagree("infer", dict(ident, what="twin raised"), str(t), None)
        continue
      tw = fr_list(t)
      bad = [i for i in range(len(impl)) if impl[i] != tw[i]]
      run.count("infer_%s_elems" % cls, len(impl))
      if bad:
        i = bad[0]
        run.violate("inference_equal", {"class": cls, "kind": "value"},
                    dict(ident, twin=nm, x=str(xs[i]), stochastic_flag_output=str(impl[i]),
                         deterministic_output=str(tw[i]), n_bad=len(bad)), mirrored=agree[i])
    return
  if not lat:
    run.count("train_%s_signbranch" % cls, len(impl))
    return
  u1 = rec["u1"]
  neg_side = [False] * len(xs)
  if cls == "quantized_relu" and cfg["negative_slope"] > 0:
    neg_side = [x < 0 for x in xs]
  if cls == "quantized_relu_po2":
    neg_side = [(x < 0 and cfg["negative_slope"] != 0) for x in xs]
  clipped = dec(r["clipped"])
  for i, yi in enumerate(impl):
    lo_, hi_ = min(below[i], above[i]), max(below[i], above[i])
    u = rec["u2"][i] if (neg_side[i] and rec.get("u2")) else u1[i]
    if below[i] == above[i]:
      # the clipped input is itself a code: it must come back unchanged, whatever the draw
      run.count("train_%s_%s" % (cls, "code" if r["xcode"][i] else "saturated"))
      if yi != below[i]:
        kind = "u0_roundup" if ("po2" in cls and u == 0 and abs(yi) == 2 * abs(below[i])) else "other"
        run.violate("code_fixed", {"class": cls, "kind": kind},
                    dict(ident, x=str(xs[i]), clipped_input=str(clipped[i]), u=str(u), output=str(yi)),
                    mirrored=agree[i])
      continue
    run.count("train_%s_interior" % cls)
    # clause adjacent
    if yi != below[i] and yi != above[i]:
      kind = "midpoint" if 2 * yi == below[i] + above[i] else ("between" if lo_ < yi < hi_ else "outside")
      run.violate("adjacent", {"class": cls, "kind": kind},
                  dict(ident, x=str(xs[i]), clipped_input=str(clipped[i]), u=str(u), output=str(yi),
                       code_below=str(below[i]), code_above=str(above[i])), mirrored=agree[i])
      continue
    # clause threshold (the draw set that rounds up is {u <= frac}: unbiasedness)
    # judged strictly on either side of frac; at u == frac exactly both outcomes leave P(up) within
    # 2^-23 of frac (the model, like the code, rounds up there for stochastic_round and down for
    # stochastic_round_po2 — a change shows as a disagreement)
    up = (yi == above[i])
    if (u < fracs[i] and not up) or (u > fracs[i] and up):
      run.violate("threshold", {"class": cls, "kind": "up" if up else "down"},
                  dict(ident, x=str(xs[i]), u=str(u), frac=str(fracs[i]), output=str(yi),
                       code_below=str(below[i]), code_above=str(above[i])), mirrored=agree[i])


# ---- binary(use_stochastic_rounding) ----------------------------------------------------------------

def _binary(run, tier, rng, tf, Q, K, draws, call):
  lines, recs = [], []
  n = 12
  col_max = [Fraction(1, 4), Fraction(1, 64), Fraction(1), Fraction(3), Fraction(1, 2)]
  cols = []
  for m in col_max:
    mc = min(m, Fraction(1))
    f = 2 * mc
    col = [m, -m, Fraction(0), Fraction(0), f / 8, -f / 8, f / 16, -f / 16, f * Fraction(3, 64),
           -f * Fraction(5, 128), f * Fraction(int(rng.integers(1, 32)), 256), -f * Fraction(int(rng.integers(1, 32)), 256)]
    cols.append(col)
  xs = [cols[j][i] for i in range(n) for j in range(len(cols))]         # row-major (n, ch)
  ms = [col_max[j] for i in range(n) for j in range(len(cols))]
  shape = (n, len(cols))
  fr1 = []
  for x, m in zip(xs, ms):
    f = 2 * min(m, Fraction(1))
    t = x / f * 8
    fr1.append(t - math.floor(t))
  xs32 = f32list(xs)
  for use01 in (False, True):
    qs = Q.binary(use_01=use01, alpha=1.0, use_stochastic_rounding=True)
    qd = Q.binary(use_01=use01, alpha=1.0)
    for v in VARIANTS:
      u1 = u_variant(v, fr1, rng)
      u2 = [Fraction(int(k), 8) for k in rng.integers(0, 8, size=len(xs))]
      if v == "at":
        u2 = [Fraction(1, 2)] * len(xs)         # tf.round(0.5) = 0 -> -1
      y, left = call(qs, xs32, [f32list(u1), f32list(u2)], True, shape)
      lines.append({"op": "q", "cls": "binary", "phase": True, "stoch": True, "use_01": use01,
                    "alpha": [1, 1], "x": enc(xs), "m": enc(ms), "u1": enc(u1), "u2": enc(u2)})
      recs.append(dict(use01=use01, variant=v, y=y, left=left, u1=u1, u2=u2, stream="train"))
    y0, left0 = call(qs, xs32, [], False, (len(xs) // 2, 2))
    yt, _ = call(qd, xs32, [], False, (len(xs) // 2, 2))
    lines.append({"op": "q", "cls": "binary", "phase": False, "stoch": True, "use_01": use01,
                  "alpha": [1, 1], "x": enc(xs), "m": enc(ms)})
    recs.append(dict(use01=use01, variant="phase0", y=y0, left=left0, twin=yt, stream="infer"))
  outs = core.run_driver("C08", lines)
  for rec, o in zip(recs, outs):
    ident = {"cls": "binary", "use_01": rec["use01"], "stream": rec["stream"], "variant": rec["variant"]}
    run.case(("binary", rec["use01"], rec["stream"], rec["variant"]))
    y = rec["y"]
    if isinstance(y, Exception):
      run.disagree("binary", ident, "exception: %s" % y, "value")
      continue
    if rec["left"]:
      run.disagree("binary", dict(ident, what="draw count"), rec["left"], 0)
    impl, model = fr_list(y), dec(o["y"])
    run.compared += len(impl)
    agree = [a == b for a, b in zip(impl, model)]
    if not all(agree):
      i = agree.index(False)
      run.disagree("binary", dict(ident, x=str(xs[i]), m=str(ms[i]),
                                  u1=str(rec["u1"][i]) if "u1" in rec else None,
                                  u2=str(rec["u2"][i]) if "u2" in rec else None), str(impl[i]), str(model[i]))
    codes = (Fraction(0), Fraction(1)) if rec["use01"] else (Fraction(-1), Fraction(1))
    for i, yi in enumerate(impl):
      run.count("binary_zero_input" if xs[i] == 0 else "binary_nonzero_input")
      if yi not in codes:
        run.violate("adjacent", {"class": "binary", "kind": "not-a-code"},
                    dict(ident, x=str(xs[i]), output=str(yi)), mirrored=agree[i])
      elif rec["stream"] == "train" and abs(xs[i]) >= 2 * min(ms[i], 1) / 8:
        want = (Fraction(1) if xs[i] > 0 else (Fraction(0) if rec["use01"] else Fraction(-1)))
        if yi != want:    # |x/f| >= 1/8 keeps its sign for every draw (codes are fixed)
          run.violate("code_fixed", {"class": "binary", "kind": "sign-lost"},
                      dict(ident, x=str(xs[i]), m=str(ms[i]), output=str(yi)), mirrored=agree[i])
    if rec["stream"] == "infer" and not isinstance(rec["twin"], Exception):
      tw = fr_list(rec["twin"])
      bad = [i for i in range(len(impl)) if impl[i] != tw[i]]
      if bad:
        run.violate("inference_equal", {"class": "binary", "kind": "value"},
                    dict(ident, x=str(xs[bad[0]]), output=str(impl[bad[0]]), twin=str(tw[bad[0]])),
                    mirrored=agree[bad[0]])
  # phase-0 shape behaviour (regression of repair 65bdf0f: the fill used to be
  # `tf.ones_like(tf.shape(x))`, shape [rank]); every shape must come back with the twin's values
  shapes = [(5,), (4, 2), (3, 4), (2, 3, 3), (2, 2, 5), (6, 1), (1,), (2, 2, 2, 4)]
  souts = core.run_driver("C08", [{"op": "binshape", "shape": list(s)} for s in shapes])
  qs = Q.binary(alpha=1.0, use_stochastic_rounding=True)
  qd = Q.binary(alpha=1.0)
  for s, o in zip(shapes, souts):
    nel = int(np.prod(s))
    x = f32list([Fraction(int(k), 4) for k in rng.integers(-8, 9, size=nel)])
    y, _ = call(qs, x, [], False, s)
    t, _ = call(qd, x, [], False, s)
    ok_impl = not isinstance(y, Exception)
    run.case(("binary-shape", s))
    run.compared += 1
    run.count("binary_shape_ok" if ok_impl else "binary_shape_fails")
    if ok_impl != bool(o["ok"]):
      run.disagree("binary-shape", {"shape": list(s)}, "ok" if ok_impl else str(y)[:200], o["ok"])
    if not ok_impl:
      run.violate("inference_equal", {"class": "binary", "kind": "shape_broadcast"},
                  {"shape": list(s), "error": str(y)[:300],
                   "replay": "K.set_learning_phase(0); binary(alpha=1.0, use_stochastic_rounding=True)"
                             "(tf.zeros(%s))" % (list(s),)}, mirrored=(not o["ok"]))
    elif not isinstance(t, Exception) and not np.array_equal(y, t):
      run.violate("inference_equal", {"class": "binary", "kind": "value"}, {"shape": list(s)}, mirrored=False)


# ---- ternary(use_stochastic_rounding) --------------------------------------------------------------

def _ternary(run, tier, rng, tf, Q, K, draws, call):
  import numpy as _np
  n = 12
  col_max = [Fraction(3, 2), Fraction(1), Fraction(3, 8), Fraction(5)]
  lines, recs = [], []
  cols = []
  for m in col_max:
    col = [m, -m] + [m * Fraction(int(k), 64) for k in rng.integers(-64, 65, size=n - 4)] + [Fraction(0), m * Fraction(21, 64)]
    cols.append(col)
  xs = [cols[j][i] for i in range(n) for j in range(len(cols))]
  shape = (n, len(cols))
  xs32 = f32list(xs)
  # start scale of the auto_po2 branch, by the same ops the code uses (oracle for the element-wise model)
  x_t = tf.constant(xs32.reshape(shape))
  m_t = K.max(tf.abs(x_t), axis=[0], keepdims=True)
  s0 = K.pow(2.0, tf.math.round(K.log(2 * m_t / 3.0 + K.epsilon()) / _np.log(2.0))).numpy().reshape(-1)
  s0 = [Fraction(float(v)) for v in s0]
  for s_ in s0:
    if s_.numerator != 1 and s_.denominator != 1:
      raise core.InfraError("ternary start scale is not a power of two: %s" % s_)
  ss = [s0[j] for i in range(n) for j in range(len(cols))]
  fr = [(3 * x / s) - math.floor(3 * x / s) for x, s in zip(xs, ss)]
  qs = Q.ternary(alpha="auto_po2", use_stochastic_rounding=True, number_of_unrolls=1)
  for v in VARIANTS:
    u = u_variant(v, fr, rng)
    y, left = call(qs, xs32, [f32list(u)], True, shape)
    sc = None if isinstance(y, Exception) else _np.asarray(K.eval(qs.scale), dtype=_np.float32).reshape(-1)
    lines.append({"op": "q", "cls": "ternary_step", "phase": True, "stoch": True, "x": enc(xs), "scale": enc(ss),
                  "u1": enc(u)})
    recs.append(dict(variant=v, y=y, left=left, scale=sc, u=u))
  outs = core.run_driver("C08", lines)
  for rec, o in zip(recs, outs):
    ident = {"cls": "ternary", "variant": rec["variant"]}
    run.case(("ternary", rec["variant"]))
    if isinstance(rec["y"], Exception):
      run.disagree("ternary", ident, "exception: %s" % rec["y"], "value")
      continue
    if rec["left"]:
      run.disagree("ternary", dict(ident, what="draw count"), rec["left"], 0)
    impl = fr_list(rec["y"])
    scs = [Fraction(float(rec["scale"][j])) for i in range(n) for j in range(len(cols))]
    model = dec(o["y"])
    run.compared += len(impl)
    for i, yi in enumerate(impl):
      q = yi / scs[i] if scs[i] != 0 else yi
      run.count("ternary_q_%s" % q if q in (-1, 0, 1) else "ternary_q_other")
      if q not in (-1, 0, 1):
        run.violate("adjacent", {"class": "ternary", "kind": "not-a-code"},
                    dict(ident, x=str(xs[i]), output=str(yi), scale=str(scs[i])), mirrored=False)
      if q != model[i]:
        run.disagree("ternary", dict(ident, x=str(xs[i]), start_scale=str(ss[i]), u=str(rec["u"][i])),
                     str(q), str(model[i]))
        break
  # phase 0: equal to the flag-less twin, for the default number of unrolls as well
  for unrolls in (1, 5):
    for alpha in ("auto_po2", "auto"):
      a = Q.ternary(alpha=alpha, use_stochastic_rounding=True, number_of_unrolls=unrolls)
      b = Q.ternary(alpha=alpha, number_of_unrolls=unrolls)
      ya, la = call(a, xs32, [], False, shape)
      yb, _ = call(b, xs32, [], False, shape)
      run.case(("ternary-infer", unrolls, alpha))
      run.compared += 1
      if isinstance(ya, Exception) or isinstance(yb, Exception):
        run.disagree("ternary-infer", {"unrolls": unrolls, "alpha": alpha}, str(ya)[:200], str(yb)[:200])
      elif not np.array_equal(ya, yb):
        i = int(np.nonzero(ya != yb)[0][0])
        run.violate("inference_equal", {"class": "ternary", "kind": "value"},
                    {"unrolls": unrolls, "alpha": alpha, "x": str(xs[i]), "output": float(ya[i]),
                     "twin": float(yb[i])}, mirrored=False)


# ---- stochastic_binary / stochastic_ternary -----------------------------------------------------------

def _sclasses(run, tier, rng, tf, Q, K, draws, call):
  xs = [Fraction(int(k), 64) for k in rng.integers(-128, 129, size=40)] + [Fraction(0), Fraction(1), Fraction(-1)]
  xs32 = f32list(xs)
  # training sample step of stochastic_binary(alpha=1.0): q = sign(sigmoid(6x) - r), 0 -> +1
  sb = Q.stochastic_binary(alpha=1.0)
  p32 = tf.keras.backend.sigmoid(sb.temperature * tf.constant(xs32) / 1.0).numpy().astype(np.float32)
  ps = fr_list(p32)
  lines, recs = [], []
  for v in ("at", "below", "above", "zero", "top", "rand"):
    if v == "at":
      r32 = p32.copy()
    elif v == "below":
      r32 = np.nextafter(p32, np.float32(0)).astype(np.float32)
    elif v == "above":
      r32 = np.minimum(np.nextafter(p32, np.float32(2)), np.float32(float(TOP))).astype(np.float32)
    elif v == "zero":
      r32 = np.zeros_like(p32)
    elif v == "top":
      r32 = np.full_like(p32, float(TOP))
    else:
      r32 = (rng.integers(0, 2 ** 23, size=len(xs)) / 2.0 ** 23).astype(np.float32)
    y, left = call(sb, xs32, [r32], True)
    lines.append({"op": "q", "cls": "stochastic_binary", "phase": True, "alpha": [1, 1], "x": enc(xs),
                  "p": enc(ps), "u1": enc(fr_list(r32))})
    recs.append(dict(variant=v, y=y, left=left))
  y0, _ = call(sb, xs32, [], False)
  lines.append({"op": "q", "cls": "stochastic_binary", "phase": False, "alpha": [1, 1], "x": enc(xs)})
  recs.append(dict(variant="phase0", y=y0, left=0))
  outs = core.run_driver("C08", lines)
  for rec, o in zip(recs, outs):
    ident = {"cls": "stochastic_binary", "variant": rec["variant"]}
    run.case(("stochastic_binary", rec["variant"]))
    if isinstance(rec["y"], Exception):
      run.disagree("sclass", ident, "exception: %s" % rec["y"], "value")
      continue
    if rec["left"]:
      run.disagree("sclass", dict(ident, what="draw count"), rec["left"], 0)
    impl, model = fr_list(rec["y"]), dec(o["y"])
    run.compared += len(impl)
    for i, (a, b) in enumerate(zip(impl, model)):
      run.count("stochastic_binary_%s" % ("plus" if a > 0 else "minus"))
      if a not in (-1, 1):
        run.violate("adjacent", {"class": "stochastic_binary", "kind": "not-a-code"},
                    dict(ident, x=str(xs[i]), output=str(a)), mirrored=(a == b))
      if a != b:
        run.disagree("sclass", dict(ident, x=str(xs[i]), p=str(ps[i])), str(a), str(b))
        break
  # phase 0: stochastic_* == deterministic counterpart, bit for bit, for numeric and auto alphas
  shape = (len(xs) // 3, 3) if len(xs) % 3 == 0 else None
  x2 = xs32[: (len(xs) // 4) * 4]
  twins = []
  for alpha in (1.0, 5.0, "auto", "auto_po2"):
    twins.append(("stochastic_binary", Q.stochastic_binary(alpha=alpha), Q.binary(alpha=alpha), alpha, None))
    for thr in ((None, 0.33, 0.5, 2.0) if not isinstance(alpha, str) else (None,)):
      twins.append(("stochastic_ternary", Q.stochastic_ternary(alpha=alpha, threshold=thr),
                    Q.ternary(alpha=alpha, threshold=thr), alpha, thr))
  for cls, a, b, alpha, thr in twins:
    for shp in ((len(x2) // 4, 4), (len(x2),)):
      ya, _ = call(a, x2, [], False, shp)
      yb, _ = call(b, x2, [], False, shp)
      run.case((cls, "infer", str(alpha), str(thr), shp))
      run.compared += 1
      run.count("twin_%s" % cls)
      if isinstance(ya, Exception) or isinstance(yb, Exception):
        if type(ya) is not type(yb):
          run.violate("inference_equal", {"class": cls, "kind": "raises"},
                      {"alpha": str(alpha), "threshold": str(thr), "shape": list(shp),
                       "stochastic": str(ya)[:200], "deterministic": str(yb)[:200]}, mirrored=False)
        continue
      if not np.array_equal(ya, yb):
        i = int(np.nonzero(ya != yb)[0][0])
        run.violate("inference_equal", {"class": cls, "kind": "value"},
                    {"alpha": str(alpha), "threshold": str(thr), "shape": list(shp), "x": float(x2[i]),
                     "stochastic": float(ya[i]), "deterministic": float(yb[i])}, mirrored=False)
  # training output of stochastic_ternary is a ternary code times its scale (real RNG not needed: any draw)
  st = Q.stochastic_ternary(alpha="auto_po2")
  shp = (len(x2) // 4, 4)
  for k in range(4):
    r0 = (rng.integers(0, 2 ** 23, size=len(x2)) / 2.0 ** 23).astype(np.float32)
    r1 = (rng.integers(0, 2 ** 23, size=len(x2)) / 2.0 ** 23).astype(np.float32)
    y, left = call(st, x2, [r0, r1], True, shp)
    run.case(("stochastic_ternary", "train", k))
    if isinstance(y, Exception):
      run.disagree("sclass", {"cls": "stochastic_ternary"}, str(y)[:200], "value")
      continue
    if left:
      run.disagree("sclass", {"cls": "stochastic_ternary", "what": "draw count"}, left, 0)
    sc = np.broadcast_to(np.asarray(K.eval(st.scale), dtype=np.float32), shp).reshape(-1)
    for yi, si in zip(y, sc):
      q = Fraction(float(yi)) / Fraction(float(si)) if si != 0 else Fraction(float(yi))
      run.count("stochastic_ternary_q_ok" if q in (-1, 0, 1) else "stochastic_ternary_q_bad")
      if q not in (-1, 0, 1):
        run.violate("adjacent", {"class": "stochastic_ternary", "kind": "not-a-code"},
                    {"output": float(yi), "scale": float(si)}, mirrored=False)


# ---- un-patched RNG -------------------------------------------------------------------------------------

def _rng_stream(run, tier, rng, tf, Q, K):
  seeds = 48 if tier == "quick" else 200
  cfgs = [("quantized_bits", dict(bits=4, integer=1, symmetric=0, keep_negative=True, alpha=None)),
          ("quantized_linear", dict(bits=4, integer=1, symmetric=1, keep_negative=True, alpha=None)),
          ("quantized_relu", dict(bits=4, integer=0, negative_slope=0.0)),
          ("quantized_tanh", dict(bits=4, symmetric=False, use_real_tanh=False)),
          ("quantized_sigmoid", dict(bits=4, symmetric=False, use_real_sigmoid=False)),
          ("quantized_po2", dict(bits=4, max_value=None)),
          ("quantized_relu_po2", dict(bits=4, max_value=None, negative_slope=0))]
  K.set_learning_phase(1)
  lines, cases = [], []
  for cls, cfg in cfgs:
    if "po2" in cls:
      xs = [Fraction(int(k), 64) for k in rng.integers(1, 512, size=48)] + [Fraction(1), Fraction(1, 2)]
      if cls == "quantized_po2":
        xs += [-x for x in xs[:10]]
    else:
      xs = [Fraction(int(k), 256) for k in rng.integers(-640, 640, size=56)]
    xs32 = f32list(xs)
    ps = fr_list(_oracle_p(tf, Q, K, cls, cfg, xs32)) if cls in ("quantized_tanh", "quantized_sigmoid") else xs
    lines.append(model_line(cls, cfg, True, True, ps))
    cases.append((cls, cfg, xs, xs32, ps))
  refs = core.run_driver("C08", lines)
  means = {}
  for (cls, cfg, xs, xs32, ps), r in zip(cases, refs):
    q = make_q(Q, cls, cfg, True)
    below, above, clipped = dec(r["below"]), dec(r["above"]), dec(r["clipped"])
    acc = np.zeros(len(xs), dtype=np.float64)
    for s in range(seeds):
      tf.random.set_seed(int(run.seed) * 100003 + s)
      y = np.asarray(q(tf.constant(xs32)).numpy(), dtype=np.float32)
      acc += y
      run.case(("rng", cls, s), nontrivial=(s < 2))
      for i, yi in enumerate(fr_list(y)):
        if yi != below[i] and yi != above[i]:
          kind = "midpoint" if (below[i] != above[i] and 2 * yi == below[i] + above[i]) else "other"
          # mirrored: the model with SOME draw gives this output (the half step is what the model's
          # precision produces); for other kinds there is no such claim
          mirrored = kind == "midpoint" and run.extra.get("model_act_precision") == "1/2"
          run.violate("adjacent", {"class": cls, "kind": kind},
                      {"stream": "rng", "seed": s, "cfg": str(cfg), "x": str(xs[i]), "output": str(yi),
                       "code_below": str(below[i]), "code_above": str(above[i])}, mirrored=mirrored)
      run.count("rng_draws_%s" % cls, len(xs))
    mean = acc / seeds
    # evidence only: largest |empirical mean - clipped input| in units of the local code gap,
    # with the 6-sigma alarm threshold for a two-point distribution (gap/2/sqrt(seeds))
    worst = 0.0
    for i in range(len(xs)):
      gap = float(abs(above[i] - below[i]))
      if gap == 0:
        continue
      worst = max(worst, abs(mean[i] - float(clipped[i])) / gap)
    means[cls] = {"seeds": seeds, "max_abs_mean_error_in_code_gaps": round(worst, 4),
                  "six_sigma_bound": round(6 * 0.5 / math.sqrt(seeds), 4),
                  "alarm": bool(worst > 6 * 0.5 / math.sqrt(seeds))}
  run.extra["empirical_mean_unpatched_rng"] = means
