"""C04 — binary / ternary quantizers: codes, sign, threshold, data-dependent scale.

Streams (all derived from run.seed):
  exact      exact-regime tensors (short dyadics, power-of-two groups): real output and q.scale are
             compared BIT FOR BIT with the float32 form of the Lean model (device 1, DESIGN §3.2);
  general    random float32 tensors: codes exact, 'auto' scales within relative 2^-18 of the exact
             model, 'auto_po2' scales exact outside the band around sqrt(2)*2^k (device 3);
  absorb     |x| far above the scale: the straight-through idiom x + (-x + s*k) loses s*k (finding);
  order      NON-ASCENDING list scale_axis ([1,0], [2,0], [3,1,0] ...) with list / int / no elements_per_scale,
             exact regime: bit for bit against the model, all grouping clauses against the SPEC groups (a set
             of (axis, elements) pairs), and against the ascending spelling of the same pairs on the real code
             (clause axes_order_irrelevant); an exception is a returns_output failure;
  malformed  the assertion / ValueError paths of _validate_axis_and_eps;
  static     _get_scaling_axis / _get_unrolled_shape / _get_rolled_back_shape on their own.
Independently of the model every real output is judged by the clause oracle (Python Fractions):
code set, sign / threshold, scale >= 0, scale constant on the SPEC groups, least-squares identity on
the SPEC groups, power of two within the configured exponent bounds."""
import copy
from fractions import Fraction as F

import numpy as np

from .. import autoscale as A
from .. import core
from . import c04_obj
from . import c04_sr

TOL = F(1, 2 ** 18)


def _alpha_json(a):
  return a if (a is None or isinstance(a, str)) else core.rj(a)


def gen_binary(rng, tier):
  n_exact, n_general = (260, 90) if tier == "quick" else (1500, 500)
  cases = []
  kinds = ["plain", "plain", "sparse", "zeros", "zero_channel", "one_big", "tiny", "huge"]
  for stream, n in (("exact", n_exact), ("general", n_general)):
    for sh in A.shapes(rng, n, max_elems=128 if tier == "quick" else 256):
      rank = len(sh)
      alpha = [None, 0.5, 1.0, 2.0, "auto", "auto", "auto", "auto_po2", "auto_po2", "auto_po2"][int(rng.integers(0, 10))]
      use01 = bool(rng.random() < 0.35)
      ch_last = bool(rng.random() < 0.75)
      sa = eps = mn = mx = None
      if isinstance(alpha, str) and rank >= 2:
        t = rng.random()
        if t < 0.3:
          sa = int(rng.integers(0, rank))
        elif t < 0.55:
          k = int(rng.integers(1, rank + 1))
          sa = sorted(rng.choice(rank, size=k, replace=False).tolist())
        if sa is not None and rng.random() < 0.6:
          axes = sa if isinstance(sa, list) else [sa]
          facs = []
          for a in axes:
            divs = [d for d in (1, 2, 4, 8) if sh[a] % d == 0]
            facs.append(int(rng.choice(divs)))
          if isinstance(sa, list):
            eps = facs if rng.random() < 0.6 else int(min(facs))
          else:
            eps = facs[0]
      if alpha == "auto_po2" and rng.random() < 0.5:
        mn = int(rng.integers(-12, 3)) if rng.random() < 0.7 else None
        mx = int(rng.integers(-6, 8)) if rng.random() < 0.7 else None
      if stream == "exact":
        x = A.exact_tensor(rng, sh, kinds[int(rng.integers(0, len(kinds)))])
      else:
        x = A.general_tensor(rng, sh, ["normal", "small", "large"][int(rng.integers(0, 3))])
      cases.append(dict(stream=stream, q="binary", shape=sh, x=x, alpha=alpha, use01=use01, ch_last=ch_last,
                        sa=sa, eps=eps, mn=mn, mx=mx))
  # absorption stream: constant scale, magnitudes beyond 2^24 lsb(scale)
  for a, xs in ((1.0, [1e8, -1e8, 2.0 ** 25, 3e7, 0.5, -0.25, 0.0]), (0.5, [2.0 ** 26, -3.0, 1.0])):
    cases.append(dict(stream="absorb", q="binary", shape=[len(xs)], x=np.array(xs, dtype=np.float32), alpha=a,
                      use01=False, ch_last=True, sa=None, eps=None, mn=None, mx=None))
  return cases


def gen_ternary(rng, tier):
  n_exact, n_general = (200, 70) if tier == "quick" else (1200, 400)
  cases = []
  kinds = ["plain", "plain", "sparse", "zeros", "zero_channel", "one_big", "tiny", "huge"]
  for stream, n in (("exact", n_exact), ("general", n_general)):
    for sh in A.shapes(rng, n, max_elems=128 if tier == "quick" else 256):
      alpha = [None, 1.0, 2.0, "auto", "auto", "auto_po2", "auto_po2"][int(rng.integers(0, 7))]
      thr = None if isinstance(alpha, str) else [None, 0.5, 0.25, 1.0, 0.33][int(rng.integers(0, 5))]
      unrolls = [1, 2, 5, 5][int(rng.integers(0, 4))]
      ch_last = bool(rng.random() < 0.75)
      if stream == "exact":
        x = A.exact_tensor(rng, sh, kinds[int(rng.integers(0, len(kinds)))])
        if thr is not None and x.size:
          # aim at the threshold itself and its float neighbours
          flat = x.reshape(-1)
          t = np.float32(thr)
          pts = [t, -t, np.nextafter(t, np.float32(0)), np.nextafter(t, np.float32(9)), -np.nextafter(t, np.float32(0))]
          for j, v in zip(rng.choice(flat.size, size=min(flat.size, len(pts)), replace=False).tolist(), pts):
            flat[j] = v
      else:
        x = A.general_tensor(rng, sh, ["normal", "small", "large"][int(rng.integers(0, 3))])
      cases.append(dict(stream=stream, q="ternary", shape=sh, x=x, alpha=alpha, thr=thr, unrolls=unrolls,
                        ch_last=ch_last))
  for a, xs in ((1.0, [1e8, -1e8, 2.0 ** 25, 0.5, 0.25, 0.0]),):
    cases.append(dict(stream="absorb", q="ternary", shape=[len(xs)], x=np.array(xs, dtype=np.float32), alpha=a,
                      thr=None, unrolls=5, ch_last=True))
  return cases


def gen_order(rng, tier):
  """binary with a data-dependent scale and a list scale_axis that is NOT ascending (fix round N: the order of
  the (axis, elements_per_scale) pairs is free; the unchanged code raised `Incompatible shapes`, or — with
  elements_per_scale 1 — grouped silently wrong).  `twin` = the ascending spelling of the same pairs."""
  n = 30 if tier == "quick" else 160
  cases = []
  planted = [([4, 4], [1, 0], [2, 2]), ([4, 4], [1, 0], [1, 1]), ([4, 2, 8], [2, 0], [4, 2]), ([2, 4, 2, 4], [2, 0], 2),
             ([2, 4, 4], [2, 0, 1], [2, 1, 4]), ([2, 2, 4, 4], [3, 1], [2, 1])]
  kinds = ["plain", "plain", "sparse", "zero_channel", "one_big"]
  while len(cases) < n:
    if len(cases) < len(planted):
      sh, sa, eps = planted[len(cases)]
    else:
      sh = A.shapes(rng, 1, max_elems=128, ranks=(2, 3, 4))[0]
      rank = len(sh)
      k = int(rng.integers(2, rank + 1))
      sa = [int(a) for a in rng.choice(rank, size=k, replace=False)]
      if sa == sorted(sa):
        sa = sa[::-1]
      t = rng.random()
      facs = [int(rng.choice([d for d in (1, 2, 4, 8) if sh[a] % d == 0])) for a in sa]
      eps = None if t < 0.15 else (int(min(facs)) if t < 0.45 else facs)
    order = sorted(range(len(sa)), key=lambda j: sa[j])
    twin = ([sa[j] for j in order], [eps[j] for j in order] if isinstance(eps, list) else eps)
    alpha = ["auto", "auto_po2"][int(rng.integers(0, 2))]
    mn = mx = None
    if alpha == "auto_po2" and rng.random() < 0.3:
      mn, mx = int(rng.integers(-8, 1)), int(rng.integers(-2, 6))
    x = A.exact_tensor(rng, sh, kinds[int(rng.integers(0, len(kinds)))])
    cases.append(dict(stream="order", q="binary", shape=sh, x=x, alpha=alpha, use01=bool(rng.random() < 0.3),
                      ch_last=bool(rng.random() < 0.7), sa=sa, eps=eps, mn=mn, mx=mx, twin=twin))
  return cases


MALFORMED = [
    # (shape, scale_axis, elements_per_scale, expected error)
    ([4, 8], None, 2, "assert"),
    ([4, 8], 1, [2, 4], "value-error"),
    ([4, 8], 1, 3, "assert"),
    ([4, 6], [0, 1], 4, "assert"),
    ([4, 8], [0, 1], [2], "assert"),
    ([4, 8], [0, 1], [2, 3], "assert"),
    ([2, 4, 8], [1, 2], [4, 3], "assert"),
]


def impl_call(Q, K, tf, c):
  K.set_image_data_format("channels_last" if c["ch_last"] else "channels_first")
  try:
    if c["q"] == "binary":
      # the real code gets private copies of the lists: `c` stays the CONFIGURED value the oracle judges by
      q = Q.binary(use_01=c["use01"], alpha=c["alpha"], scale_axis=copy.deepcopy(c["sa"]),
                   elements_per_scale=copy.deepcopy(c["eps"]), min_po2_exponent=c["mn"], max_po2_exponent=c["mx"])
    else:
      q = Q.ternary(alpha=c["alpha"], threshold=c["thr"], number_of_unrolls=c["unrolls"])
    xt = tf.constant(c["x"])
    y = np.asarray(q(xt), dtype=np.float32)
    sc = A.broadcast_scale(q.scale if not hasattr(q.scale, "numpy") else q.scale.numpy(), c["x"].shape)
    return q, y, sc
  finally:
    K.set_image_data_format("channels_last")


def line_of(c, xste, eps32):
  if c["q"] == "binary":
    cfg = dict(use01=c["use01"], alpha=_alpha_json(c["alpha"]), ch_last=c["ch_last"], sa=c["sa"], eps=c["eps"],
               min_e=c["mn"], max_e=c["mx"])
    return dict(op="binary", cfg=cfg, shape=c["shape"], x=A.enc(A.fr(c["x"])), xste=A.enc(A.fr(xste)),
                eps32=core.rj(eps32))
  thr = np.float32(0.33 if c["thr"] is None else c["thr"])
  cfg = dict(alpha=_alpha_json(c["alpha"]), thres=core.rj(thr), ch_last=c["ch_last"], unrolls=c["unrolls"])
  return dict(op="ternary", cfg=cfg, shape=c["shape"], x=A.enc(A.fr(c["x"])), xste=A.enc(A.fr(xste)),
              eps32=core.rj(eps32))


def label(c):
  d = {k: (np.asarray(v).tolist() if isinstance(v, np.ndarray) else v) for k, v in c.items() if k not in ("x",)}
  return d


def judge(run, c, x, xste, y, sc, eps32, model, mirrored):
  """clause oracle on the REAL outputs (exact rationals, independent of the model except `mirrored`)"""
  qn = c["q"]
  auto = isinstance(c["alpha"], str)
  key0 = dict(quantizer=qn, alpha=("const" if not auto and c["alpha"] is not None else str(c["alpha"])))
  if c.get("cls", qn) != qn:
    key0["cls"] = c["cls"]      # stochastic_binary / stochastic_ternary in the inference phase
  det0 = {"case": label(c)}
  n = len(x)
  if n <= 64:
    det0["x"] = [float(v) for v in x]      # the concrete input (row-major), small tensors only
  # ---- constant alpha (any numeric form, scalar or ndarray) / None: `q.scale` IS alpha (1 for None),
  # broadcast to the input; the output is then judged as scale x code below
  if not auto:
    ea = [F(1)] * n if c["alpha"] is None else [
        F(float(v)) for v in np.broadcast_to(np.asarray(c["alpha"], dtype=np.float64), c["shape"]).ravel()]
    bad = next((i for i in range(n) if sc[i] != ea[i]), None)
    run.count("clause:const_scale:" + ("ok" if bad is None else "FAIL"))
    if bad is not None:
      run.violate("const_scale", key0,
                  dict(det0, form=str(c.get("aform", "pyfloat")), i=bad, x=str(x[bad]), y=str(y[bad]), scale_reported=str(sc[bad]), alpha=str(ea[bad]),
                       y_float=float(y[bad]), scale_float=float(sc[bad]), alpha_float=float(ea[bad])),
                  mirrored=mirrored)
  # ---- recover codes.  The forward value is x + (-x + s*k) in float32 (device 1): when that sum is
  # exact y = s*k; when it is merely rounded, y/s still rounds to k (bucket ste-rounded); when s*k is
  # absorbed by a much larger |x| the observable code y/s is a DIFFERENT integer: clause failure.
  codes = []
  allowed = ([F(0), F(1)] if c.get("use01") else [F(-1), F(1)]) if qn == "binary" else [F(-1), F(0), F(1)]

  def expected(i):
    if qn == "binary":
      return F(1) if x[i] >= 0 else (F(0) if c["use01"] else F(-1))
    if not auto:
      # zero exactly below the threshold; otherwise the sign, zero counting as positive (threshold 0)
      t = F(float(np.float32(0.33 if c["thr"] is None else c["thr"])))
      return F(0) if abs(x[i]) < t else (F(1) if x[i] >= 0 else F(-1))
    return None

  for i in range(n):
    s = sc[i]
    exp = expected(i)
    cands = [exp] if exp is not None else [F(1), F(-1), F(0)]
    k = next((a for a in cands if y[i] == s * a), None)
    if k is not None:
      if s == 0:
        run.count("zero_scale_element")     # y = 0 = 0 * anything: the code is not observable
        k = exp if exp is not None else F(0)
      codes.append(k)
      continue
    hit = next((a for a in cands if F(float(A.ste32(float(xste[i]), float(s * a)))) == y[i]), None)
    if hit is not None:
      obs = None if s == 0 else ((y[i] / s + F(1, 2)).numerator // (y[i] / s + F(1, 2)).denominator)
      if obs is not None and obs == hit:
        run.count("ste-rounded")
      else:
        run.count("clause:code_set:ste-absorption")
        run.violate("code_set", dict(key0, why="ste-absorption"),
                    dict(det0, i=i, x=str(x[i]), y=str(y[i]), scale=str(s), code_expected=str(hit),
                         code_observed=str(obs), x_float=float(x[i]), y_float=float(y[i])), mirrored=mirrored)
      codes.append(hit)
      continue
    other = next((a for a in allowed if y[i] == s * a), None)
    if other is not None:
      codes.append(other)       # a legal code, but not the one the input calls for: judged below
      continue
    run.count("clause:code_set:not-a-code")
    run.violate("code_set", dict(key0, why="not-a-code"),
                dict(det0, i=i, x=str(x[i]), y=str(y[i]), scale=str(s), x_float=float(x[i]), y_float=float(y[i])),
                mirrored=mirrored)
    codes.append(None)
  # ---- sign / threshold
  for i in range(n):
    k = codes[i]
    if k is None:
      continue
    if qn == "binary":
      exp = (F(1) if x[i] >= 0 else (F(0) if c["use01"] else F(-1)))
      run.count("binary:code=%s" % exp)
      if k != exp:
        run.violate("sign", key0, dict(det0, i=i, x=str(x[i]), code=str(k)), mirrored=mirrored)
    else:
      # a non-zero code has the sign of the input; a ZERO input has a non-zero code only where the
      # threshold lets it through (fixed threshold <= 0, judged below), and then it counts as positive
      if k != 0 and ((k > 0) != (x[i] > 0) if x[i] != 0 else (auto or k < 0)):
        run.violate("sign", key0, dict(det0, i=i, x=str(x[i]), code=str(k)), mirrored=mirrored)
      if not auto:
        t = F(float(np.float32(0.33 if c["thr"] is None else c["thr"])))
        exp0 = abs(x[i]) < t
        run.count("ternary:fixed:%s" % ("zero" if exp0 else ("tie" if abs(x[i]) == t else "nonzero")))
        if (k == 0) != exp0:
          # (threshold 0 is legal and falsy: |0| is not below it, the code of the input 0 must not be 0)
          run.violate("threshold", dict(key0, why="fixed"), dict(det0, i=i, x=str(x[i]), code=str(k), thres=str(t)),
                      mirrored=mirrored)
  # ---- data-dependent scale
  if not auto:
    return
  if any(s < 0 for s in sc):
    run.violate("scale_nonneg", key0, dict(det0, scale=[str(s) for s in sc[:8]]), mirrored=mirrored)
  sa = c.get("sa")
  eps = c.get("eps")
  if qn == "binary" and sa is not None and any(a < 0 for a in (sa if isinstance(sa, list) else [sa])):
    # numpy convention: -1 is the last axis (the SPEC groups below follow it)
    key0 = dict(key0, axis="negative")
  groups = A.spec_groups(c["shape"], sa if qn == "binary" else None, eps if qn == "binary" else None, c["ch_last"])
  by = {}
  for i, g in enumerate(groups):
    by.setdefault(g, []).append(i)
  po2 = c["alpha"] == "auto_po2"
  mn, mx = c.get("mn"), c.get("mx")
  for g, idx in by.items():
    ss = {sc[i] for i in idx}
    if len(ss) != 1:
      run.violate("scale_group_constant", key0, dict(det0, group=str(g), scales=[str(s) for s in sorted(ss)[:4]]),
                  mirrored=mirrored)
      continue
    s = sc[idx[0]]
    if qn == "ternary":
      # thresholding by magnitude inside a group: a non-zero code never sits below a zero code
      nz = [abs(x[i]) for i in idx if codes[i] not in (None, 0)]
      zz = [abs(x[i]) for i in idx if codes[i] == 0 and s != 0]
      if nz and zz and min(nz) <= max(zz):
        run.violate("threshold", key0, dict(det0, group=str(g), min_nonzero=str(min(nz)), max_zero=str(max(zz))),
                    mirrored=mirrored)
    if s == 0 and not po2:
      # code unrecoverable from y/scale: take the specified code of the input
      ks = [(F(1) if x[i] >= 0 else (F(0) if c.get("use01") else F(-1))) if qn == "binary" else None for i in idx]
      if qn == "ternary":
        run.count("scale:zero-group")
        continue
    else:
      ks = [codes[i] for i in idx]
    if any(k is None for k in ks):
      continue
    num = sum(x[i] * k for i, k in zip(idx, ks))
    den = sum(k * k for k in ks) + len(idx) * eps32
    ls = num / den          # the coded formula: mean(x*q) / (mean(q*q) + eps)
    if not po2:
      run.count("scale:auto")
      if abs(s - ls) > TOL * abs(ls):
        run.violate("least_squares", key0, dict(det0, group=str(g), scale=str(s), expected=str(ls),
                                                 scale_float=float(s), expected_float=float(ls)), mirrored=mirrored)
    else:
      if not A.is_pow2(s):
        run.violate("po2", dict(key0, why="not-a-power-of-two"), dict(det0, group=str(g), scale=str(s)),
                    mirrored=mirrored)
        continue
      e = A.log2_exact(s)
      lo = mn
      hi = mx if (mn is None or mx is None or mx >= mn) else mn
      if (lo is not None and e < lo) or (hi is not None and e > hi):
        run.violate("po2", dict(key0, why="outside-exponent-bounds"), dict(det0, group=str(g), e=e, min=mn, max=mx),
                    mirrored=mirrored)
      v = ls + eps32
      want = A.nearest_exp(v)
      if lo is not None:
        want = max(want, lo)
      if hi is not None:
        want = min(want, hi)
      if A.near_break(v):
        run.count("scale:po2:band")
      else:
        run.count("scale:po2:" + ("clipped" if want != A.nearest_exp(v) else "free"))
        if e != want:
          run.violate("po2", dict(key0, why="not-the-nearest-exponent"),
                      dict(det0, group=str(g), e=e, expected=want, ls=float(ls)), mirrored=mirrored)


def run(run, tier):
  import tensorflow as tf
  import tf_keras.backend as K
  from qkeras import quantizers as Q
  core.assert_repo_import()
  rng = np.random.default_rng(run.seed)
  eps32 = F(float(np.float32(K.epsilon())))
  cases = gen_binary(rng, tier) + gen_ternary(rng, tier)
  # own generator: the older streams keep their cases
  cases += gen_order(np.random.default_rng([run.seed, 14]), tier)
  run.extra["rule"] = ("binary/ternary configs (alpha None/const/auto/auto_po2, use_01, thresholds, scale_axis int/list, "
                       "elements_per_scale int/list, exponent bounds, both data formats, unrolls; NON-ASCENDING list scale_axis with "
                       "list/int/no elements_per_scale, each also compared with its ascending spelling) x tensors of rank 1-4: "
                       "exact-regime dyadics incl. all-zero, zero channel, one big element, tiny/huge magnitudes, "
                       "threshold ties; general random float32; absorption points; malformed configs. A case is "
                       "non-trivial when it has a data-dependent scale or touches a threshold/zero branch.")
  lines, impl = [], []
  for c in cases:
    x = c["x"]
    xste = np.asarray(K.tanh(tf.constant(x)), dtype=np.float32) if c["alpha"] is None else x
    try:
      q, y, sc = impl_call(Q, K, tf, c)
    except Exception as e:  # pylint: disable=broad-except
      # a valid configuration must produce an output: an exception of the real code is a failure of the
      # property on this input (not an infrastructure error of the check)
      run.case(key=("raises", len(run.nontrivial)), nontrivial=True)
      run.count("impl-raises")
      key = dict(quantizer=c["q"], alpha=str(c["alpha"]), error=type(e).__name__)
      if "twin" in c:
        key["why"] = "non-ascending-scale-axis-list"    # names the repaired defect that is back; nothing is downgraded
      run.violate("returns_output", key, {"case": label(c), "error": str(e)[:300]}, mirrored=False)
      impl.append(None)
      lines.append(line_of(c, xste, eps32))
      continue
    lines.append(line_of(c, xste, eps32))
    if "twin" in c:
      # the SAME pairs listed in ascending order: same output, same q.scale, bit for bit
      run.count("clause:axes_order_irrelevant")
      try:
        _q2, y2, sc2 = impl_call(Q, K, tf, dict(c, sa=c["twin"][0], eps=c["twin"][1]))
        same = bool(np.array_equal(y, y2) and np.array_equal(np.asarray(sc), np.asarray(sc2)))
        other = dict(y=[float(v) for v in np.asarray(y2).ravel()[:8]], scale=[float(v) for v in np.asarray(sc2).ravel()[:8]])
      except Exception as e:  # pylint: disable=broad-except
        same, other = False, dict(error=type(e).__name__ + ": " + str(e)[:200])
      if not same:
        run.violate("axes_order_irrelevant", dict(quantizer="binary", alpha=str(c["alpha"])),
                    {"case": label(c), "listed": dict(y=[float(v) for v in np.asarray(y).ravel()[:8]],
                                                      scale=[float(v) for v in np.asarray(sc).ravel()[:8]]),
                     "ascending_spelling": other}, mirrored=False)
    if not (np.isfinite(y).all() and np.isfinite(sc).all()):
      run.case(key=("nonfinite", len(run.nontrivial)), nontrivial=True)
      run.count("impl-nonfinite")
      run.violate("finite", dict(quantizer=c["q"], alpha=str(c["alpha"])),
                  {"case": label(c), "y": [float(v) for v in np.asarray(y).ravel()[:8]],
                   "scale": [float(v) for v in np.asarray(sc).ravel()[:8]]}, mirrored=False)
      impl.append(None)
      continue
    impl.append((A.fr(x), A.fr(xste), A.fr(y), [F(float(v)) for v in sc]))
  outs = core.run_driver("C04", lines)
  for c, im, o in zip(cases, impl, outs):
    if im is None:
      continue
    x, xste, y, sc = im
    auto = isinstance(c["alpha"], str)
    run.case(key=(c["q"], str(c["alpha"]), c["stream"], tuple(c["shape"]), str(c.get("sa")), str(c.get("eps")),
                  len(run.nontrivial)),
             nontrivial=auto or c["stream"] != "general",
             sample={"case": {k: (v if k != "x" else np.asarray(v).ravel()[:6].tolist()) for k, v in c.items()},
                     "impl_y": [float(v) for v in y[:6]], "impl_scale": [float(v) for v in sc[:6]]})
    run.count("stream:%s:%s:%s" % (c["stream"], c["q"], c["alpha"] if not isinstance(c["alpha"], float) else "const"))
    if "err" in o:
      run.disagree("model-rejects", label(c), "ok", o)
      continue
    Fm, Em, band = o["F"], o["E"], o["band"]
    mF = dict(out=A.dec(Fm["out"]), scales=A.dec(Fm["scales"]), codes=A.dec(Fm["codes"]))
    mE = dict(out=A.dec(Em["out"]), scales=A.dec(Em["scales"]), codes=A.dec(Em["codes"]))
    run.compared += 1
    mirrored = True
    if c["stream"] in ("exact", "absorb", "order"):
      if band:
        run.count("tie:band")          # either neighbour admissible: judged by the clause oracle only
        mirrored = (mF["out"] == y)
      elif mF["out"] != y or mF["scales"] != sc:
        mirrored = False
        j = next((i for i in range(len(y)) if mF["out"][i] != y[i] or mF["scales"][i] != sc[i]), 0)
        run.disagree("bit-exact:" + c["q"], label(c),
                     {"i": j, "y": float(y[j]), "scale": float(sc[j])},
                     {"i": j, "y": float(mF["out"][j]), "scale": float(mF["scales"][j])})
      else:
        run.count("tie:bit-exact")
    else:
      # general regime: reductions are inexact -> relational
      sens = band or mF["codes"] != mE["codes"]
      if sens:
        run.count("tie:general:sensitive")
      else:
        ok = True
        for i in range(len(y)):
          s, se = sc[i], mE["scales"][i]
          if c["alpha"] == "auto_po2":
            good = s == mF["scales"][i]
          elif auto:
            good = abs(s - se) <= TOL * abs(se)
          else:
            good = s == se
          # codes: y = fl(s * k) exactly for k in {-1,0,1}
          k = mE["codes"][i]
          if not (good and (y[i] == s * k or y[i] == mF["out"][i]
                            or y[i] == F(float(A.ste32(float(xste[i]), float(s * k)))))):
            ok = False
            run.disagree("relational:" + c["q"], label(c), {"i": i, "y": float(y[i]), "scale": float(s)},
                         {"i": i, "code": float(k), "scale": float(se)})
            break
        mirrored = ok
        run.count("tie:general:" + ("ok" if ok else "bad"))
    judge(run, c, x, xste, y, sc, eps32, (mE, mF), mirrored)

  # ---- object-level streams: argument forms, routes, stochastic variants (inference), histories
  c04_obj.run_obj(run, tier, Q, K, tf, np.random.default_rng([run.seed, 4]), eps32, judge)

  # ---- the option use_stochastic_rounding x learning phase (inference: deterministic, tied bit for bit and
  # compared with a twin without the option; training: judged relationally; histories with phase switches)
  c04_sr.run_sr(run, tier, Q, K, tf, np.random.default_rng([run.seed, 24]), eps32, judge, line_of)

  # ---- malformed configurations: the code must reject what the model rejects, with the same kind
  ml = []
  for sh, sa, eps, want in MALFORMED:
    ml.append(dict(op="keys", cfg=dict(ch_last=True, sa=sa, eps=eps), shape=sh))
  mo = core.run_driver("C04", ml)
  for (sh, sa, eps, want), o in zip(MALFORMED, mo):
    try:
      q = Q.binary(alpha="auto", scale_axis=copy.deepcopy(sa), elements_per_scale=copy.deepcopy(eps))
      q(tf.constant(np.ones(sh, dtype=np.float32)))
      got = "ok"
    except AssertionError:
      got = "assert"
    except ValueError:
      got = "value-error"
    except Exception as e:  # pylint: disable=broad-except
      got = "other:" + type(e).__name__
    run.case(key=("malformed", str(sh), str(sa), str(eps)), nontrivial=True)
    run.compared += 1
    run.count("malformed:" + got)
    if o.get("err") != got:
      run.disagree("malformed", dict(shape=sh, sa=sa, eps=eps), got, o.get("err", "ok"))

  # ---- static helpers on their own (exhaustive over a small lattice).  The helpers get private copies of the
  # list arguments and must leave them as they were (they are handed the quantizer's own attributes)
  def helper(fn, *args):
    mine = copy.deepcopy(args)
    out = fn(*mine)
    if mine != args:
      run.count("clause:argument_not_mutated:FAIL")
      run.violate("argument_not_mutated", dict(quantizer="binary", helper=fn.__name__),
                  {"helper": fn.__name__, "arguments": [repr(a) for a in args], "after_the_call": [repr(a) for a in mine]},
                  mirrored=False)
    return out

  sl, want = [], []
  for rank in range(0, 6):
    for ch_last in (True, False):
      if rank == 0 and not ch_last:
        continue            # tf.range(1, 0) raises
      for sa in [None] + list(range(rank)) + ([[0], [rank - 1], [0, rank - 1], list(range(rank))] if rank >= 2 else []):
        sl.append(dict(op="scaling_axis", sa=sa, len=rank, ch_last=ch_last))
        K.set_image_data_format("channels_last" if ch_last else "channels_first")
        try:
          want.append([int(v) for v in np.asarray(helper(Q._get_scaling_axis, sa, rank)).ravel().tolist()])
        except Exception as e:  # pylint: disable=broad-except
          want.append("raises:" + type(e).__name__)
  # negative axes (counted from the end), through the argument-level model `axisOfArg`; axes below -rank are
  # no axes of the tensor: the int must be rejected by both, the list entry is ignored by both
  for rank in range(1, 6):
    specs = list(range(-rank - 1, 0)) + [[-1], [-rank], [0, -1], [-1, -rank], [-rank - 1], [-1, rank - 1]]
    if rank >= 3:
      specs += [[-2, 0], [1, -1], [-3, -2, -1]]
    for sa in specs:
      sl.append(dict(op="scaling_axis_arg", sa=sa, len=rank, ch_last=True))
      try:
        want.append([int(v) for v in np.asarray(helper(Q._get_scaling_axis, sa, rank)).ravel().tolist()])
      except Exception as e:  # pylint: disable=broad-except
        want.append("raises")
  K.set_image_data_format("channels_last")
  def spec_unrolled(sh, sa, eps):
    """the documented unrolling, from the SET of (axis, elements) pairs: axis a becomes the two axes
    (shape[a] // elements, elements); returns (unrolled shape, positions of the outer axes in list order)"""
    axes = sa if isinstance(sa, list) else [sa]
    fac = dict(zip(axes, eps if isinstance(eps, list) else [eps] * len(axes)))
    out, at = [], {}
    for d, n in enumerate(sh):
      if d in fac:
        at[d] = len(out)
        out += [n // fac[d], fac[d]]
      else:
        out.append(n)
    return out, sorted(at.values())

  for sh, sa, eps in [([16, 32], 1, 4), ([16, 32], [0, 1], [2, 4]), ([4, 8, 8, 16], [2, 3], [2, 4]),
                      ([4, 8, 8, 16], [1, 3], 2), ([8], 0, 2), ([2, 4, 8], [0, 1, 2], [2, 2, 2]),
                      ([2, 4, 8], 2, 8), ([2, 4, 8], [1], [4]),
                      # non-ascending lists (the order of the pairs is free)
                      ([4, 4], [1, 0], [2, 2]), ([16, 32], [1, 0], [4, 2]), ([4, 8, 8, 16], [3, 2], [4, 2]),
                      ([4, 8, 8, 16], [3, 1], 2), ([2, 4, 8], [2, 0, 1], [2, 2, 2]), ([2, 4, 8], [2, 0], [1, 1]),
                      ([2, 4, 8], [1, 2, 0], [4, 8, 1]), ([4, 2, 4, 8], [2, 0], [2, 4]), ([4, 2, 4, 8], [3, 0, 2], 2)]:
    sl.append(dict(op="shapes", shape=sh, sa=sa, eps=eps))
    try:
      sa2, eps2 = helper(Q._validate_axis_and_eps, list(sh), sa, eps)
      u, ua = helper(Q._get_unrolled_shape, list(sh), eps2, sa2)
      rb = helper(Q._get_rolled_back_shape, list(u), ua)
      want.append(dict(unrolled=list(u), uaxes=(ua if isinstance(ua, list) else [ua]), rolled=list(rb)))
    except Exception as e:  # pylint: disable=broad-except
      want.append("raises:" + type(e).__name__)
    # clause on the REAL helpers (independent of the model): validate -> unroll gives the documented unrolled
    # shape whatever the order of the list, and rolling back returns to the input shape
    su, sua = spec_unrolled(sh, sa, eps)
    ok = isinstance(want[-1], dict) and want[-1]["unrolled"] == su and sorted(want[-1]["uaxes"]) == sua \
        and want[-1]["rolled"] == list(sh)
    run.count("clause:unrolled_shape:" + ("ok" if ok else "FAIL"))
    if not ok:
      run.violate("unrolled_shape", dict(quantizer="binary", helper="_get_unrolled_shape"),
                  dict(shape=sh, scale_axis=sa, elements_per_scale=eps, helpers_returned=want[-1],
                       expected=dict(unrolled=su, uaxes=sua, rolled=list(sh))), mirrored=False)
  so = core.run_driver("C04", sl)
  for l, w, o in zip(sl, want, so):
    run.case(key=("static", core.json.dumps(l, sort_keys=True)), nontrivial=True)
    run.compared += 1
    run.count("static:" + l["op"])
    if l["op"] == "scaling_axis_arg":
      got = "raises" if "err" in o else o.get("axes")
    else:
      got = o.get("axes") if l["op"] == "scaling_axis" else {k: o.get(k) for k in ("unrolled", "uaxes", "rolled")}
    if got != w:
      run.disagree("static:" + l["op"], l, w, got)
  run.extra["cases"] = len(cases)
  run.assumptions.append("float32 reductions are order-independent only in the exact regime; elsewhere 'auto' scales "
                         "are compared within relative 2^-18 and 'auto_po2' scales exactly outside a 2^-17 band "
                         "around sqrt(2)*2^k (DESIGN 3.2 device 3)")
  run.assumptions.append("tanh (alpha=None surrogate) enters the straight-through sum as an oracle value computed by "
                         "the same TF op (device 2)")
