"""C01F — float32 transfer of C01/C02: the operation-by-operation binary32 transcriptions
`qbitsF` / `qreluF` / `qlinearF` (lean/QKV/Model/F32.lean) against the real quantizers, bit for bit,
INSIDE and OUTSIDE the envelope of the transfer theorems (|x| up to 2^30 steps, subnormals,
non-power-of-two alpha), plus `rnd32` / `isF32` against numpy's float64 -> float32 conversion."""
from fractions import Fraction as F
import itertools

import numpy as np

from .. import core, fixedq


def _rnd32_inputs(rng, n):
  """float64 values: random over the whole exponent range, exact float32 values, exact midpoints
  between adjacent float32 values (ties), values next to midpoints, subnormal range"""
  out = []
  e = rng.integers(-160, 100, size=n)
  m = rng.uniform(1.0, 2.0, size=n)
  s = rng.choice([-1.0, 1.0], size=n)
  out += list(s * np.ldexp(m, e))
  a = (s * np.ldexp(m, rng.integers(-151, 100, size=n))).astype(np.float32)
  a = a[np.isfinite(a)]
  b = np.nextafter(a, np.float32(np.inf), dtype=np.float32)
  mid = (a.astype(np.float64) + b.astype(np.float64)) / 2.0
  out += list(a.astype(np.float64)) + list(mid)
  out += list(np.nextafter(mid, np.inf)) + list(np.nextafter(mid, -np.inf))
  out += [0.0, 2.0 ** -149, 2.0 ** -150, 2.0 ** -151, 3 * 2.0 ** -150, 2.0 ** -126, 2.0 ** -126 - 2.0 ** -150,
          2.0 ** 24 + 1, 2.0 ** 24 + 3, 1.0 + 2.0 ** -24, 1.0 + 3 * 2.0 ** -24, 1.0 - 2.0 ** -25, 0.1, 0.3]
  out = [float(v) for v in out if np.isfinite(v) and abs(v) < 2.0 ** 127]
  return out


def _configs(tier, rng):
  out = []
  bits = [1, 2, 3, 4, 6, 8, 12, 16, 24, 25]
  alphas = [None, 1.0, 0.5, 0.125, 2.0 ** -6, 2.0, 4.0, 1024.0, 0.3, 1.7, 3.0]
  for b in bits:
    ints = sorted(set([-3, 0, 1, b - 1, b, b + 2, b + 3, 26 if b >= 24 else 7]))
    for i in ints:
      for kn, sym in itertools.product((0, 1), (0, 1)):
        for a in alphas:
          ub = b - kn
          if ub >= 1 and ub <= 24:
            out.append(("qbits", dict(bits=b, integer=i, symmetric=sym, keep_negative=kn, alpha=a)))
          if ub >= 0 and ub <= 24 and not (b == 1 and kn):
            out.append(("qlinear", dict(bits=b, integer=i, symmetric=sym, keep_negative=kn, alpha=a)))
      if b <= 24 and i >= 0:
        # quantized_relu builds m, m_i with an int32 pow: a negative `integer` raises in TF
        out.append(("qrelu", dict(bits=b, integer=i, slope_log=None)))
  n = 150 if tier == "quick" else 900
  by = {}
  for c in out:
    by.setdefault(c[0], []).append(c)
  sel = []
  share = {"qbits": 0.5, "qlinear": 0.3, "qrelu": 0.2}
  for k in ("qbits", "qlinear", "qrelu"):
    lst = by[k]
    m = min(len(lst), int(n * share[k]))
    sel += [lst[j] for j in sorted(rng.choice(len(lst), size=m, replace=False).tolist())]
  # the two proved counterexample sites are always present
  sel.append(("qbits", dict(bits=8, integer=7, symmetric=0, keep_negative=1, alpha=None)))
  sel.append(("qbits", dict(bits=25, integer=26, symmetric=0, keep_negative=1, alpha=0.125)))
  sel.append(("qlinear", dict(bits=8, integer=7, symmetric=0, keep_negative=1, alpha=None)))
  return sel


def _inputs(rng, step, lo, hi, n):
  """float32 inputs: the C01 stream (inside the envelope) + far outside it"""
  st = float(step)
  pts = list(fixedq.points(rng, step, lo, hi, n_random=12))
  # beyond 2^24 steps: full-mantissa values in the binades 2^24 .. 2^30 steps, both signs
  for k in range(23, 31):
    mant = rng.integers(2 ** 23, 2 ** 24, size=max(2, n // 16))
    for mm in mant.tolist() + [2 ** 23 + 1, 2 ** 24 - 1, 2 ** 23 + 2]:
      v = float(mm) * 2.0 ** (k - 23) * st
      pts += [np.float32(v), np.float32(-v)]
  # the envelope counterexample shape: 2^k + small, small not a multiple of the ulp of the residual
  for k in range(24, 29):
    for j in (1, 2, 3, 4, 5, 6, 7, 12):
      pts += [np.float32((2.0 ** k + j * 2.0 ** (k - 23)) * st), np.float32(-(2.0 ** k + j * 2.0 ** (k - 23)) * st)]
  # full-mantissa values inside the envelope, every binade from 2^-30 steps up
  for k in range(-30, 24):
    mm = rng.integers(2 ** 23, 2 ** 24, size=2)
    for m1 in mm.tolist():
      v = float(m1) * 2.0 ** (k - 23) * st
      pts += [np.float32(v), np.float32(-v)]
  pts += [np.float32(16777211.0), np.float32(33554436.0)]
  arr = np.array(pts, dtype=np.float32)
  arr = arr[np.isfinite(arr) & (np.abs(arr) < np.float32(2.0 ** 100))]
  return arr


def _is_po2(a):
  if a is None:
    return 0
  f = F(a)
  if f <= 0:
    return None
  n, d = f.numerator, f.denominator
  if n & (n - 1) == 0 and d & (d - 1) == 0 and (n == 1 or d == 1):
    return (n.bit_length() - 1) - (d.bit_length() - 1)
  return None


def run(run: core.Run, tier: str):
  core.assert_repo_import()
  import tensorflow as tf
  rng = np.random.default_rng(run.seed)
  run.extra["rule_f32"] = (
      "rnd32/isF32: random float64 over exponents -160..100, exact float32 values, exact midpoints of adjacent "
      "float32 values and their float64 neighbours, subnormal edge cases, vs numpy float64->float32; "
      "quantizers: seeded stratified sample of quantized_bits / quantized_linear / plain quantized_relu "
      "(bits 1..25, integer -3..bits+3 and 26, keep_negative, symmetric, alpha in "
      "{None,1,1/2,1/8,1/64,2,4,1024,0.3,1.7,3}); inputs = the C01 breakpoint stream + full-mantissa values in "
      "every binade from 2^-30 to 2^30 steps + 2^k+j shapes; the float32 transcription (qbitsF/qreluF/qlinearF) "
      "must equal the real float32 output bit for bit on EVERY input; inside the proved envelope the exact model "
      "must be hit as well; non-trivial = distinct (configuration, input bit pattern)")
  # ---------------------------------------------------------------- rnd32 / isF32
  xs = _rnd32_inputs(rng, 400 if tier == "quick" else 4000)
  ans = core.run_driver("C01F", [{"op": "rnd32", "xs": core.enc_list(xs)}])[0]
  ys = core.dec_list(ans["ys"])
  with np.errstate(all="ignore"):
    for x, y, fl in zip(xs, ys, ans["f32"]):
      run.case(("rnd32", x), nontrivial=True)
      run.compared += 1
      want = np.float32(x)
      if F(float(want)) != y:
        run.disagree("rnd32", {"x": repr(x)}, repr(float(want)), str(y))
      is32 = bool(float(want) == x)
      if is32 != bool(fl):
        run.disagree("isF32", {"x": repr(x)}, is32, bool(fl))
      run.count("rnd32:" + ("exact" if is32 else "rounded") + (":subnormal" if abs(x) < 2.0 ** -126 else ""))
  # ---------------------------------------------------------------- quantizers
  lines, recs = [], []
  for kind, cfg in _configs(tier, rng):
    lat = fixedq.lattice(kind, cfg)
    if lat is None:
      continue
    step, lo, hi, gain = lat
    label = "%s(%s)" % (kind, ",".join("%s=%s" % kv for kv in cfg.items()))
    try:
      q = fixedq.build(kind, cfg)
      xs = _inputs(rng, step, lo, hi, 32 if tier == "quick" else 96)
      y = np.asarray(q(tf.constant(xs, dtype=tf.float32)).numpy(), dtype=np.float32)
    except Exception as e:  # pylint: disable=broad-except
      run.count("impl_error:" + type(e).__name__)
      continue
    ok = np.isfinite(y)
    xs, y = xs[ok], y[ok]
    jc = dict(cfg)
    jc["symmetric"] = bool(jc.get("symmetric", 0))
    jc["keep_negative"] = bool(jc.get("keep_negative", 1))
    jc["alpha"] = None if cfg.get("alpha") is None else core.rj(cfg["alpha"])
    lines.append({"op": kind, "cfg": jc, "xs": core.enc_list(xs)})
    recs.append((kind, cfg, label, lat, xs, y))
  outs = core.run_driver("C01F", lines)
  for (kind, cfg, label, lat, xs, y), o in zip(recs, outs):
    step, lo, hi, gain = lat
    yf, ye = core.dec_list(o["ys"]), core.dec_list(o["es"])
    a = _is_po2(cfg.get("alpha"))
    for x, yi, m, e in zip(xs, y, yf, ye):
      fx, fy = F(float(x)), F(float(yi))
      run.case((label, float(x)), nontrivial=True)
      run.compared += 1
      mirrored = fy == m
      if not mirrored:
        run.disagree("f32-transcription", {"config": label, "x": repr(float(x))}, str(fy), str(m))
      # which theorem covers this input?
      if kind == "qrelu":
        inside = True                                   # C01_f32_transfer_relu_all
      elif kind == "qlinear":
        inside = a is not None and -49 <= a <= 3 and abs(fx) < 2 ** 24 * step   # step = qs
      else:
        inside = a is not None and -49 <= a <= 0 and abs(fx) < 2 ** 24 * step * gain
      if inside:
        run.count(kind + ":inside-envelope")
        if fy != e:
          run.disagree("transfer-theorem", {"config": label, "x": repr(float(x))}, str(fy), str(e))
        continue
      region = ("alpha-not-po2" if a is None else
                "beyond-2^24-steps" if abs(fx) >= 2 ** 24 * step else
                "alpha>1-within-2^24-steps" if a > 0 else "alpha<1-between-envelopes")
      run.count("%s:outside:%s:%s" % (kind, region, "same" if fy == e else "DIFFERS"))
      if a is None:
        continue
      # OUTSIDE the property's envelope (|x| >= 2^24 output steps): the float32 residual x + (-x + xq) may
      # leave the lattice (Props.C01F.*_envelope_counterexample).  Not a C01 violation - counted only.
      k = fy / (gain * step)
      if k.denominator != 1 or not (lo <= k <= hi):
        run.count("%s:outside:%s:off-lattice" % (kind, region))
  run.assumptions.append("K.pow(2.0, k) is exact for integer k; float32 kernels (+,-,*,/) are correctly rounded "
                         "(both are what this tie checks bit for bit)")
