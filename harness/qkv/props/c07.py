"""C07 — qnoise_factor interpolation, factor storage, QNoiseScheduler (DESIGN.md §4 C07).

Streams (all randomness from run.seed; case counts fixed per tier):
  A  mix        real quantizer outputs for (class config x use_ste x storage route x factor) against the
                Lean float32 evaluation `mixF` bit-for-bit (device 1: every float32 step simulated with
                explicit rounding); clause oracle: f=0 -> analytic surrogate, f=1 -> quantized value,
                exact interpolation where no float step rounds, stated tolerance elsewhere.
  B  storage    BaseQuantizer.build / update_qnoise_factor / use_variables / __call__ operation
                sequences (exhaustive short, seeded long) on real quantizers against `QState.step`;
                the final call's output against `mixF` with the observed storage.
  C  scheduler  the real QNoiseScheduler hooks driven over event histories on stub models whose
                layers carry real quantizers, against `Sched.step`; np.power enters the model as an
                oracle table (device 2), every other float64/float32 step is simulated; clause
                oracle on the observed factor sequence.
  D  layers     get_quantizers on real Keras/QKeras models (activation quantizers, recurrent cells,
                wrappers, nested models, shared objects) vs the Lean walk over the same layer structure and
                vs an independent object-graph walk (clause: every knob-bearing quantizer, each once);
                tiny model.fit runs: hook order, factors, and every quantizer of the model holds the
                applied factor afterwards.
  E  alias      three real quantizers of one class (every pair of storages: python number / tf.Variable,
                built / unbuilt) and two caller-owned tf.Variables under interleaved histories — one source
                variable pushed to several quantizers, then number updates of one of them, updates from
                another variable, the caller assigning to the source, copying another quantizer's attribute,
                rebuilding, probe calls — against `Sys.step` (state of every quantizer and variable after every
                operation); clause oracle with its own bookkeeping: after every step every quantizer's
                factor (attribute, and the output of every probe call) is the last value written to THAT
                quantizer and no caller-owned variable was modified by qkeras.
  A2 lattice    every knob-bearing class over its OPTION LATTICE (quantized_relu: bits/integer x leaky slope x
                is_quantized_clip x relu_upper_bound none / on the grid / off the grid above and below half a step
                / above the largest code / 0.0 / np.float32 / python int; quantized_relu_po2 and quantized_po2:
                max_value a power of two or not x slope x quadratic_approximation; quantized_hswish: relu_shift x
                relu_upper_bound; quantized_bits / quantized_linear: symmetric x keep_negative; stochastic rounding
                outside training; sigmoid-shaped relu) on inputs straddling every bound in steps of 1/32 of the
                quantization step: out(f) = surrogate + f*(quantized - surrogate), out(f) = out(0) + f*(out(1) -
                out(0)) in exact rationals wherever the float32 evaluation is exact (decided independently of the
                model) and within the stated tolerance elsewhere; quantized_relu additionally against the Lean
                model of the WHOLE call (`reluNoise`: x_u, xq with the relu_upper_bound pass, mix) from the input.
  F  reuse      ONE quantizer object used many times (tensors of rank 1-5, factor updates in every argument form,
                use_ste / use_variables / relu option attributes changed between calls, QActivation route): the
                k-th use equals a fresh object in the same configuration and interpolates; every argument form of
                the factor (python int, numpy scalars, 0-d arrays, tf.constant) through constructor and update API;
                the module-level sigmoid switch in every order around construction and use (default restored).
  G  compiled   the quantizer called from a `tf.function` traced once (what the Keras train step does): every
                knob-bearing class x initial factor {0 in four argument forms, 1/4, 1} x five routes into the
                variable-backed mode x trace first / eager call first, then updates interleaved with compiled and
                eager calls; seeded histories with build(T/F) / use_variables flips; Sequential([QActivation(q)]) driven
                by the real QNoiseScheduler hooks around a compiled training step.  Against `CState.step` (state, what
                the graph captured) and `mixF` bit for bit; clause oracle with its own bookkeeping: in variable mode
                the factor IS a tf.Variable after every operation (also judged in A, B, C), and a compiled call
                returns s + f*(q - s) with the LAST value written.
  H  history    the values returned by ALL calls of a history on ONE object: constructor factor {0 in four argument
                forms, 1, 1/2} x python / Variable storage x five ways of being built (first call, build(False),
                build(True), first call inside a QActivation layer, update before any use), then updates to and away
                from the boundary factors 0 and 1 (numbers, tf.Variables), a call after each (rank 1 / rank 2 tensor,
                directly or through QActivation; another object of the class used in between); every knob-bearing class,
                every return form, plus an auto-scaled quantized_linear.  Against `QState.outs` bit for bit; clause
                oracle with its own books on EVERY call: output = s + f*(q - s) with f the last value written before
                that call, and bit-identical to a fresh object constructed with that constant (nothing derived from
                the factor — an identity flag, a cached 1 - f, a skipped branch — may outlive the call).
"""
import itertools
import fractions

import numpy as np

from .. import core

F = fractions.Fraction
TOL_REL = F(1, 2 ** 22)   # stated tolerance of the interpolation clause where float32 steps round


# --------------------------------------------------------------------------- class configurations

def _leaky(x, a):
  x = x.astype(np.float32)
  return np.where(x >= 0, x, (np.float32(a) * x).astype(np.float32)).astype(np.float32)


def _sur_id(cfg, x):
  return x.astype(np.float32)


def _sur_relu(cfg, x):
  """x_u of quantized_relu, computed independently in numpy float32"""
  bits, integer = cfg.get("bits", 8), cfg.get("integer", 0)
  ns = cfg.get("negative_slope", 0.0)
  nsb = bits - (1 if ns != 0.0 else 0)
  r = _leaky(x, ns)
  if cfg.get("is_quantized_clip", True):
    ub = np.float32(2.0 ** integer) - np.float32(2.0 ** (integer - nsb))
    return np.where(x <= ub, r, ub).astype(np.float32)
  if cfg.get("relu_upper_bound") is not None:
    ub = np.float32(cfg["relu_upper_bound"])
    return np.where(x <= ub, r, ub).astype(np.float32)
  return r


def _sur_relu_po2(cfg, x):
  ns = cfg.get("negative_slope", 0.0)
  r = _leaky(x, ns)
  mv = cfg.get("max_value")
  if mv is None:
    return r
  return np.where(x <= np.float32(mv), r, np.float32(mv)).astype(np.float32)


def _sur_hswish(cfg, x):
  x = x.astype(np.float32)
  sh, ub = np.float32(cfg.get("relu_shift", 3)), np.float32(cfg.get("relu_upper_bound", 6))
  shift = (x + sh).astype(np.float32)
  relu = np.where(shift <= ub, np.maximum(shift, np.float32(0)), ub).astype(np.float32)
  return ((x * relu).astype(np.float32) / ub).astype(np.float32)


# (label, class name, kwargs, surrogate, form)
CONFIGS = [
    ("bits_4_0_sym", "quantized_bits", dict(bits=4, integer=0, symmetric=1), _sur_id, "two"),
    ("bits_8_3", "quantized_bits", dict(bits=8, integer=3, symmetric=0), _sur_id, "two"),
    ("bits_6_2_unsigned", "quantized_bits", dict(bits=6, integer=2, keep_negative=False), _sur_id, "two"),
    ("bits_5_1_alpha2", "quantized_bits", dict(bits=5, integer=1, alpha=2.0), _sur_id, "two"),
    ("bits_1_0", "quantized_bits", dict(bits=1, integer=0), _sur_id, "two"),
    ("bits_4_0_auto", "quantized_bits", dict(bits=4, integer=0, alpha="auto"), _sur_id, "two"),
    ("bits_4_1_auto_po2", "quantized_bits", dict(bits=4, integer=1, alpha="auto_po2"), _sur_id, "two"),
    ("relu_4_1", "quantized_relu", dict(bits=4, integer=1), _sur_relu, "two"),
    ("relu_6_2_slope", "quantized_relu", dict(bits=6, integer=2, negative_slope=0.25), _sur_relu, "two"),
    ("relu_4_1_ub", "quantized_relu", dict(bits=4, integer=1, is_quantized_clip=False, relu_upper_bound=1.5),
     _sur_relu, "two"),
    ("relu_4_1_plain", "quantized_relu", dict(bits=4, integer=1, is_quantized_clip=False), _sur_relu, "two"),
    ("po2_4", "quantized_po2", dict(bits=4), _sur_id, "two"),
    ("po2_4_max2", "quantized_po2", dict(bits=4, max_value=2), _sur_id, "two"),
    ("relu_po2_4", "quantized_relu_po2", dict(bits=4), _sur_relu_po2, "two"),
    ("relu_po2_4_max2_slope", "quantized_relu_po2", dict(bits=4, max_value=2, negative_slope=0.125),
     _sur_relu_po2, "two"),
    ("hswish_8_2", "quantized_hswish", dict(bits=8, integer=2), _sur_hswish, "two"),
    ("linear_4_1", "quantized_linear", dict(bits=4, integer=1), _sur_id, "linear"),
    ("linear_8_0_unsigned", "quantized_linear", dict(bits=8, integer=0, keep_negative=False), _sur_id, "linear"),
]
# one configuration per class for the storage stream
STORAGE_CFG = ["bits_4_0_sym", "relu_4_1", "po2_4", "relu_po2_4", "hswish_8_2", "linear_4_1"]


def _mk(Q, cname, kw, **extra):
  k = dict(kw)
  k.update(extra)
  ste = k.pop("use_ste", None) if cname == "quantized_hswish" else None   # no constructor argument there
  q = getattr(Q, cname)(**k)
  if ste is not None:
    q.use_ste = ste
  return q


def _forms(form):
  return [True, False] if form == "two" else [None]


def _form_name(form, use_ste):
  return "linear" if form == "linear" else ("ste" if use_ste else "noste")


def _call(q, x):
  # inputs are tensors, as in a layer's call (with a numpy input K.cast_to_floatx keeps a numpy array and
  # `(1 - np.float64 factor) * x` is then evaluated by numpy in float64)
  import tensorflow as tf
  return np.asarray(q(tf.constant(x, dtype=tf.float32)).numpy(), dtype=np.float32).reshape(-1)


def _xq_ref(Q, cname, kw, form, x):
  """the quantized value the class mixes with, obtained without going through a rounding mix:
  two-form classes: a fresh instance with use_ste=False, qnoise_factor=1.0 returns 0*s + xq = xq exactly;
  quantized_linear: its own _scale_clip_and_round * quantization_scale."""
  if form == "linear":
    q = _mk(Q, cname, kw)
    q._build()
    import tensorflow as tf
    xx = tf.constant(x, dtype=tf.float32)
    return np.asarray((q._scale_clip_and_round(xx, q.quantization_scale) * q.quantization_scale).numpy(),
                      dtype=np.float32).reshape(-1)
  return _call(_mk(Q, cname, kw, qnoise_factor=1.0, use_ste=False), x)


def _np_anchor(label, kw, x):
  """independent numpy float32 reference of xq for the plainest paths (anchors the reference instance)"""
  x = x.astype(np.float32)
  if label.startswith("bits_") and kw.get("alpha") is None and kw["bits"] - int(kw.get("keep_negative", True)) > 0:
    ub = kw["bits"] - int(kw.get("keep_negative", True))
    m, m_i = np.float32(2.0 ** ub), np.float32(2.0 ** kw["integer"])
    lo = np.float32(int(kw.get("keep_negative", True)) * (-m + kw.get("symmetric", 0)))
    p = (x * m / m_i).astype(np.float32)
    return (m_i * np.clip(np.rint(p), lo, m - 1) / m).astype(np.float32)
  if label == "relu_4_1":
    m, m_i = np.float32(16.0), np.float32(2.0)
    p = (x * m / m_i).astype(np.float32)
    return (m_i * np.clip((np.rint(p) / m).astype(np.float32), 0, 1 - 1 / m)).astype(np.float32)
  return None


def _obs(tf, q):
  f = q.qnoise_factor
  if isinstance(f, tf.Variable):
    st, v = "var", float(f.numpy())
  else:
    st = "py"
    v = float(f.numpy()) if hasattr(f, "numpy") else float(f)
  return {"store": st, "v": core.rj(v), "built": bool(q.built), "use_vars": bool(q.use_variables)}


def _fclass(f):
  fr = core.frac(f)
  if fr == 0:
    return "0"
  if fr == 1:
    return "1"
  return "dyadic" if (fr.denominator & (fr.denominator - 1)) == 0 and fr.denominator <= 16 else "other"


# --------------------------------------------------------------------------- stream A

def stream_mix(run, tier, Q, tf, rng):
  grid = (np.arange(-48, 49) / 16.0).astype(np.float32)
  special = np.array([5.5, -5.5, 100.25, -100.25, 0.3, -1.7, 1e-3, -3e-5, 2.0, -2.0, 0.99, 7.96875],
                     dtype=np.float32)
  rnd = rng.uniform(-4, 4, size=12 if tier == "quick" else 96).astype(np.float32)
  x = np.concatenate([grid, special, rnd]).astype(np.float32)
  fs_dy = [0.0, 0.25, 0.5, 0.75, 1.0]
  fs_other = [0.1, 0.3, 0.7, 1.0 / 3.0, 0.999] + [float(v) for v in rng.uniform(0, 1, size=3 if tier == "quick" else 12)]
  routes = ["ctor_py", "upd_py", "ctor_var", "upd_var", "upd_before_build_var", "upd_from_var_py"]
  lines, meta = [], []
  for label, cname, kw, sur, form in CONFIGS:
    s_np = sur(kw, x)
    xq = _xq_ref(Q, cname, kw, form, x)
    # reference surrogate from the real code too: use_ste=True (or linear), factor 0 -> s + 0*(...) = s
    s_ref = _call(_mk(Q, cname, kw, qnoise_factor=0.0), x)
    run.compared += 1
    if not np.array_equal(s_ref, s_np):
      i = int(np.flatnonzero(s_ref != s_np)[0])
      run.violate("f0_returns_surrogate", {"cls": cname, "cfg": label, "form": _form_name(form, True), "route": "ctor_py"},
                  {"x": float(x[i]), "observed": float(s_ref[i]), "expected_surrogate": float(s_np[i]),
                   "replay": "%s(**%r, qnoise_factor=0.0)(x)" % (cname, kw)}, mirrored=False)
    anchor = _np_anchor(label, kw, x)
    if anchor is not None:
      run.compared += 1
      run.count("xq_anchor")
      if not np.array_equal(anchor, xq):
        i = int(np.flatnonzero(anchor != xq)[0])
        run.violate("f1_returns_quantized", {"cls": cname, "cfg": label, "form": "noste", "route": "ctor_py"},
                    {"x": float(x[i]), "observed": float(xq[i]), "expected_quantized": float(anchor[i]),
                     "replay": "%s(**%r, qnoise_factor=1.0, use_ste=False)(x)" % (cname, kw)}, mirrored=False)
    for use_ste in _forms(form):
      fname = _form_name(form, use_ste)
      ste_kw = {} if use_ste is None else {"use_ste": use_ste}
      for f in fs_dy + fs_other:
        for route in routes:
          if route == "ctor_py":
            q = _mk(Q, cname, kw, qnoise_factor=f, **ste_kw)
          elif route == "upd_py":
            q = _mk(Q, cname, kw, **ste_kw)
            q.update_qnoise_factor(f)
          elif route == "ctor_var":
            q = _mk(Q, cname, kw, qnoise_factor=f, use_variables=True, **ste_kw)
          elif route == "upd_var":
            q = _mk(Q, cname, kw, use_variables=True, **ste_kw)
            _call(q, x[:1])
            q.update_qnoise_factor(np.float64(f))
          elif route == "upd_from_var_py":
            # update API handed a tf.Variable while the factor is still a python number
            q = _mk(Q, cname, kw, **ste_kw)
            try:
              q.update_qnoise_factor(tf.Variable(f, dtype=tf.float32, trainable=False))
            except Exception as e:  # pylint: disable=broad-except
              run.violate("update_api_raises", {"op": "update_from_var", "store": "py", "error": type(e).__name__},
                          {"cfg": label, "f": f, "error": repr(e)[:200],
                           "replay": "%s(**%r).update_qnoise_factor(tf.Variable(%r)) raises" % (cname, kw, f)},
                          mirrored=False)
              continue
          else:
            q = _mk(Q, cname, kw, use_variables=True, **ste_kw)
            q.update_qnoise_factor(f)
          y = _call(q, x)
          o = _obs(tf, q)
          want_store = "py" if route.endswith("_py") else "var"
          lines.append({"op": "mix", "form": fname, "s": core.enc_list(s_np), "q": core.enc_list(xq),
                        "store": o["store"], "v": o["v"]})
          meta.append((label, cname, kw, fname, f, route, want_store, o, y, s_np, xq))
  outs = core.run_driver("C07", lines)
  n_exact = n_elem = 0
  for (label, cname, kw, fname, f, route, want_store, o, y, s_np, xq), out in zip(meta, outs):
    fc = _fclass(f)
    key = (label, fname, route, fc if fc != "other" else repr(f))
    run.case(key, sample={"cfg": label, "form": fname, "route": route, "f": f, "x0": float(x[3]),
                          "y0": float(y[3])} if len(run.samples) < 3 else None)
    run.compared += 1
    run.count("mix_%s_%s_f%s" % (fname, o["store"], fc))
    mirrored = True
    if o["store"] != want_store:
      run.disagree("mix-storage", {"cfg": label, "route": route}, o["store"], want_store)
      mirrored = False
      if want_store == "var":
        # the property's "variable-backed mode": use_variables=True + a call => the factor is in a tf.Variable
        run.violate("factor_held_in_variable_in_use_variables_mode",
                    {"how": "first_eager_call", "factor_at_build": _fclass(f if route != "upd_var" else 1.0)},
                    {"cls": cname, "cfg": label, "form": fname, "route": route, "f": f,
                     "observed_attribute": "python number", "expected": "tf.Variable",
                     "replay": "%s(**%r) via route %s with factor %r, then one call: type(q.qnoise_factor)"
                               % (cname, kw, route, f)}, mirrored=False)
    ym = core.dec_list(out["y"])
    yi = [core.frac(v) for v in y]
    bad = [i for i in range(len(yi)) if yi[i] != ym[i]]
    if bad:
      i = bad[0]
      run.disagree("mix", {"cfg": label, "form": fname, "route": route, "f": f, "x": float(x[i]),
                           "s": float(s_np[i]), "xq": float(xq[i]), "n_bad": len(bad)},
                   float(y[i]), float(ym[i]))
      mirrored = False
    # clause oracle on the real outputs
    spec = core.dec_list(out["spec"])
    fr = core.frac(f) if o["store"] == "py" else core.unrj(o["v"])
    kbase = {"cls": cname, "cfg": label, "form": fname, "route": route, "store": o["store"], "f_class": fc}
    for i in range(len(yi)):
      n_elem += 1
      s_i, q_i = core.frac(s_np[i]), core.frac(xq[i])
      want = s_i + core.frac(f) * (q_i - s_i)   # the property's right-hand side with the requested factor
      if fc == "0":
        ok, clause = yi[i] == s_i, "f0_returns_surrogate"
      elif out["exact"][i] and fc in ("1", "dyadic"):
        n_exact += 1
        ok, clause = yi[i] == want, ("f1_returns_quantized" if fc == "1" else "interpolates_exact")
      else:
        ok = abs(yi[i] - want) <= TOL_REL * (abs(s_i) + abs(q_i))
        clause = "f1_returns_quantized" if fc == "1" else "interpolates_tol"
      if not ok:
        run.violate(clause, kbase, {"x": float(x[i]), "f": f, "surrogate": float(s_np[i]), "quantized": float(xq[i]),
                                    "observed": float(y[i]), "expected": float(want),
                                    "replay": "%s(**%r) via route %s, use_ste=%s" % (cname, kw, route, fname)},
                    mirrored=mirrored)
        break
  run.extra["mix_elements"] = n_elem
  run.extra["mix_exact_fraction_on_dyadic_f"] = round(n_exact / max(1, n_elem), 4)


# --------------------------------------------------------------------------- stream A2 (option lattice)

def _is_f32(fr):
  return core.frac(np.float32(float(fr))) == fr


def _chain_exact(s, q, f, fname):
  """independent of the model: every intermediate of the float32 evaluation of the mixing expression is a
  float32 value (f = the effective float32 factor, dyadic)"""
  if fname in ("ste", "linear"):
    d = q - s
    return _is_f32(d) and _is_f32(f * d) and _is_f32(s + f * d)
  om = 1 - f
  return _is_f32(om) and _is_f32(om * s) and _is_f32(f * q) and _is_f32(om * s + f * q)


def _lattice_configs():
  """(label, class, kwargs, surrogate, form, thresholds in x, step, relu model cfg or None).
  Option lattices of every knob-bearing class; thresholds = every x at which the unquantized activation or
  the quantized value changes regime (bounds, saturation edges), inputs straddle each of them."""
  out = []
  # ---- quantized_relu: (bits, integer) x leaky slope x is_quantized_clip x relu_upper_bound on / off the grid
  for bits, integer in ((2, 2), (4, 1), (3, 0), (6, 2), (2, 5)):
    for slope in (0.0, 0.25, 0.5):       # the constructor asserts a power-of-two slope
      nsb = bits - (1 if slope != 0.0 else 0)
      if nsb < 1:
        continue
      step = 2.0 ** (integer - nsb)
      hi = 2 ** nsb - 1
      k = max(1, hi // 2)
      ubs = [("none", None), ("ongrid", k * step), ("off_hi", (k + 0.6) * step), ("off_lo", (k + 0.3) * step),
             ("above", (hi + 2.5) * step), ("zero", 0.0), ("f32", np.float32((k + 0.85) * step)), ("int", 6)]
      for qclip in (True, False):
        for uname, ub in ubs:
          if qclip and uname not in ("none", "off_hi"):
            continue      # is_quantized_clip has precedence: the bound must be ignored
          if uname == "int" and not (bits, integer) in ((2, 5), (6, 2)):
            continue
          if (bits, integer) in ((3, 0), (6, 2), (2, 5)) and slope != 0.0 and uname not in ("off_hi", "int"):
            continue
          kw = dict(bits=bits, integer=integer, negative_slope=slope, is_quantized_clip=qclip)
          if ub is not None:
            kw["relu_upper_bound"] = ub
          thr = [hi * step, 0.0] + ([float(ub)] if ub is not None else [])
          rcfg = {"bits": bits, "integer": integer, "slope_log": {0.0: None, 0.25: 2, 0.5: 1}[slope],
                  "upper": None if ub is None else core.rj(np.float32(ub)), "qclip": qclip}
          out.append(("relu_%d_%d_s%s_%s_ub_%s" % (bits, integer, slope, "qclip" if qclip else "noclip", uname),
                      "quantized_relu", kw, _sur_relu, "two", thr, step, rcfg,
                      "%s_ub_%s%s" % ("qclip" if qclip else "noclip", uname, "_leaky" if slope else "")))
  # ---- non-default routes that must not change the mix: stochastic rounding outside training (deterministic),
  #      the sigmoid-shaped relu (x_u is still the plain activation)
  for kw, okey in ((dict(bits=4, integer=1, use_stochastic_rounding=True), "stochastic_inference"),
                   (dict(bits=4, integer=1, use_sigmoid=1), "use_sigmoid"),
                   (dict(bits=6, integer=2, use_sigmoid=1, negative_slope=0.25), "use_sigmoid_leaky"),
                   (dict(bits=4, integer=1, use_sigmoid=1, is_quantized_clip=False, relu_upper_bound=1.45),
                    "use_sigmoid_noclip_ub_off_hi")):
    nsb = kw["bits"] - (1 if kw.get("negative_slope") else 0)
    st = 2.0 ** (kw["integer"] - nsb)
    out.append(("relu_" + okey, "quantized_relu", kw, _sur_relu, "two",
                [(2 ** nsb - 1) * st, 0.0, float(kw.get("relu_upper_bound", 1.0))], st, None, okey))
  out.append(("bits_stochastic_inference", "quantized_bits", dict(bits=4, integer=0, symmetric=1, use_stochastic_rounding=True),
              _sur_id, "two", [1.0, -1.0, 0.0], 0.125, None, "stochastic_inference"))
  out.append(("po2_stochastic_inference", "quantized_po2", dict(bits=4, max_value=2, use_stochastic_rounding=True),
              _sur_id, "two", [0.0, 2.0, -2.0], 0.25, None, "stochastic_inference"))
  # ---- quantized_relu_po2 / quantized_po2: max_value (power of two or not) x slope x quadratic_approximation
  for bits in (4, 3):
    for mv in (None, 2, 3, 0.3, 1.5):
      for slope in (0.0, 0.125, 0.5):      # the constructor asserts a power-of-two slope
        for qa in (False, True):
          if (bits == 3 or qa) and slope == 0.5:
            continue
          kw = dict(bits=bits, negative_slope=slope, quadratic_approximation=qa)
          if mv is not None:
            kw["max_value"] = mv
          thr = [0.0] + ([float(mv)] if mv is not None else [2.0])
          out.append(("relu_po2_%d_mv%s_s%s_qa%d" % (bits, mv, slope, qa), "quantized_relu_po2", kw, _sur_relu_po2,
                      "two", thr, (mv or 2.0) / 8.0, None, "max_value_%s%s%s" % (mv, "_leaky" if slope else "",
                                                                                  "_quadratic" if qa else "")))
      for qa in (False, True):
        kw = dict(bits=bits, quadratic_approximation=qa)
        if mv is not None:
          kw["max_value"] = mv
        out.append(("po2_%d_mv%s_qa%d" % (bits, mv, qa), "quantized_po2", kw, _sur_id, "two",
                    [0.0, float(mv or 2.0), -float(mv or 2.0)], (mv or 2.0) / 8.0, None,
                    "max_value_%s%s" % (mv, "_quadratic" if qa else "")))
  # ---- quantized_hswish: relu_shift x relu_upper_bound
  for sh, ub in ((3, 6), (2, 4), (3, 5.5), (1, 8)):
    for bits, integer in ((8, 2), (4, 1)):
      kw = dict(bits=bits, integer=integer, relu_shift=sh, relu_upper_bound=ub)
      out.append(("hswish_%d_%d_sh%s_ub%s" % (bits, integer, sh, ub), "quantized_hswish", kw, _sur_hswish, "two",
                  [-float(sh), float(ub - sh), 0.0], 2.0 ** (integer - bits + 1), None, "shift_%s_ub_%s" % (sh, ub)))
  # ---- quantized_bits / quantized_linear: saturation edges
  for bits, integer, sym, kn in ((4, 0, 1, True), (4, 1, 0, True), (3, 1, 0, False), (2, 0, 1, True), (5, 2, 0, True)):
    step = 2.0 ** (integer - bits + int(kn))
    kw = dict(bits=bits, integer=integer, symmetric=sym, keep_negative=kn)
    out.append(("bits_%d_%d_sym%d_kn%d" % (bits, integer, sym, kn), "quantized_bits", kw, _sur_id, "two",
                [2.0 ** integer, -(2.0 ** integer), 0.0], step, None, "sym%d_kn%d" % (sym, kn)))
    out.append(("linear_%d_%d_sym%d_kn%d" % (bits, integer, sym, kn), "quantized_linear",
                dict(bits=bits, integer=integer, symmetric=sym, keep_negative=kn), _sur_id, "linear",
                [2.0 ** integer, -(2.0 ** integer), 0.0], step, None, "sym%d_kn%d" % (sym, kn)))
  return out


def _rat_f64(ps):
  """protocol rationals -> float64 array (exact for float32 values: python int / int is correctly rounded)"""
  return np.array([int(p[0]) / int(p[1]) for p in ps], dtype=np.float64)


def _is32(v):
  return v.astype(np.float32).astype(np.float64) == v


def _chain_exact_np(s, q, f, fname):
  """vectorised `_chain_exact` on float64 copies of float32 vectors (every float64 operation below is exact
  when the previous mask holds: products of two 24-bit significands, sums of float32 values of similar size)"""
  if fname in ("ste", "linear"):
    d = q - s
    m = _is32(d)
    fd = f * d
    m &= _is32(fd)
    return m & _is32(s + fd)
  om = 1.0 - f
  a, b = om * s, f * q
  return bool(_is32(np.array([om]))[0]) & _is32(a) & _is32(b) & _is32(a + b)


def stream_lattice(run, tier, Q, tf, rng):
  """every knob-bearing class over its option lattice, inputs straddling every bound: the output is affine
  in f between the unquantized activation and the quantized value."""
  cfgs = _lattice_configs()
  fs = [0.0, 0.25, 0.5, 0.75, 1.0, 0.3, 0.9]
  lines, rlines, groups = [], [], []
  for label, cname, kw, sur, form, thr, step, rcfg, okey in cfgs:
    pts = []
    for ti, b in enumerate(thr):
      fine = ti == len(thr) - 1 or cname != "quantized_relu"     # the last threshold of a relu config is its bound
      pts += [b + j * step / 32.0 for j in (range(-36, 37) if fine else range(-32, 33, 4))]
    pts += [j / 4.0 for j in range(-12, 13)] + [7.3, -7.3, 100.0, 1e-3]
    pts += [float(v) for v in rng.uniform(-1.5, 1.5, size=6) * (max(abs(t) for t in thr) + step)]
    x = np.unique(np.array(pts, dtype=np.float32))
    s_np = sur(kw, x)
    xq = _xq_ref(Q, cname, kw, form, x)
    for use_ste in _forms(form):
      fname = _form_name(form, use_ste)
      ste_kw = {} if use_ste is None else {"use_ste": use_ste}
      cases = []
      for f in fs:
        for route in ["ctor_py"] + (["upd_var"] if f in (0.5, 0.3) else []):
          if route == "ctor_py":
            q = _mk(Q, cname, kw, qnoise_factor=f, **ste_kw)
          else:
            q = _mk(Q, cname, kw, use_variables=True, **ste_kw)
            _call(q, x[:1])
            q.update_qnoise_factor(np.float32(f))
          y = _call(q, x)
          cases.append((f, route, _obs(tf, q), y))
      # model tie on three of the nine (factor, route) cases per group (the float32 evaluation of the mix for
      # arbitrary s, q is stream A's business); the clause oracle below judges all nine
      tied = [ci for ci, (f, route, _, _) in enumerate(cases)
              if (f, route) in ((0.5, "ctor_py"), (0.3, "upd_var"), (0.9, "ctor_py"))]
      stores = [{"store": cases[ci][2]["store"], "v": cases[ci][2]["v"]} for ci in tied]
      if rcfg is not None:
        rlines.append({"op": "relu_noise", "cfg": rcfg, "form": fname, "stores": stores, "x": core.enc_list(x)})
      else:
        lines.append({"op": "mix_many", "form": fname, "s": core.enc_list(s_np), "q": core.enc_list(xq),
                      "stores": stores})
      groups.append((label, cname, kw, fname, x, s_np, xq, cases, rcfg is not None, tied, okey))
    run.count("lattice_%s" % cname)
  outs = iter(core.run_driver("C07", lines))
  routs = iter(core.run_driver("C07", rlines))
  n_exact = n_elem = n_band = 0
  for (label, cname, kw, fname, x, s_np, xq, cases, has_relu, tied, okey) in groups:
    out = None if has_relu else next(outs)
    kwj = {k: (float(v) if isinstance(v, np.floating) else v) for k, v in kw.items()}
    s64, q64 = s_np.astype(np.float64), xq.astype(np.float64)
    ends = {f: y.astype(np.float64) for f, route, o, y in cases if route == "ctor_py" and f in (0.0, 1.0)}
    o0, o1 = ends[0.0], ends[1.0]
    rout = next(routs) if has_relu else None
    if rout is not None:
      # quantized_relu in full: x_u and xq from the INPUT through the Lean model of the whole call
      run.compared += 2
      n_band += sum(int(v) for v in rout["clamp_after_differs"])
      for name, real, mod in (("x_u", s64, _rat_f64(rout["s"])), ("xq", q64, _rat_f64(rout["q"]))):
        if not np.array_equal(real, mod):
          i = int(np.flatnonzero(real != mod)[0])
          run.disagree("lattice-relu-%s" % name, {"cfg": label, "kwargs": kwj, "x": float(x[i])},
                       float(real[i]), float(mod[i]))
    for ci, (f, route, o, y) in enumerate(cases):
      fc = _fclass(f)
      run.case(("lattice", label, fname, route, repr(f)),
               sample={"cfg": label, "kwargs": kwj, "form": fname, "f": f, "n_inputs": int(len(x))}
               if len(run.samples) < 8 and "off_hi" in label and f == 0.5 and route == "ctor_py" else None)
      run.compared += 1
      run.count("lattice_%s_f%s" % (fname, fc))
      y64 = y.astype(np.float64)
      mirrored = ci in tied      # the model was run on this case and agrees (set to False below if it does not)
      if ci in tied:
        ti = tied.index(ci)
        stream, ym = (("lattice-relu-out", _rat_f64(rout["ys"][ti])) if rout is not None
                      else ("lattice-mix", _rat_f64(out["ys"][ti])))
        if not np.array_equal(y64, ym):
          i = int(np.flatnonzero(y64 != ym)[0])
          run.disagree(stream, {"cfg": label, "kwargs": kwj, "form": fname, "route": route, "f": f, "x": float(x[i]),
                                "s": float(s_np[i]), "xq": float(xq[i]), "n_bad": int(np.sum(y64 != ym))},
                       float(y[i]), float(ym[i]))
          mirrored = False
      # ---- clause oracle: float64 screen (exact where it matters), every suspect re-judged in exact rationals
      f64 = float(np.float32(f))
      n_elem += len(x)
      want = s64 + f64 * (q64 - s64)
      want2 = o0 + f64 * (o1 - o0)
      tolf = float(TOL_REL) * (1.0 - 1e-9)
      if fc == "0":
        ok = y64 == s64
      else:
        ok = np.abs(y64 - want) <= tolf * (np.abs(s64) + np.abs(q64))
        if fc in ("1", "dyadic"):
          ex = _chain_exact_np(s64, q64, f64, fname)
          n_exact += int(np.sum(ex))
          ok = np.where(ex, y64 == want, ok)
      ok &= np.abs(y64 - want2) <= tolf * (np.abs(o0) + np.abs(o1))
      for i in np.flatnonzero(~ok)[:4]:
        i = int(i)
        f_eff = core.frac(np.float32(f))
        yi, s_i, q_i = core.frac(y[i]), core.frac(s_np[i]), core.frac(xq[i])
        a0, a1 = core.frac(o0[i]), core.frac(o1[i])
        w1, w2 = s_i + f_eff * (q_i - s_i), a0 + f_eff * (a1 - a0)
        if fc == "0":
          good, clause, exp = yi == s_i, "f0_returns_surrogate", s_i
        elif fc in ("1", "dyadic") and _chain_exact(s_i, q_i, f_eff, fname):
          good, clause, exp = yi == w1, ("f1_returns_quantized" if fc == "1" else "interpolates_exact"), w1
        else:
          good = abs(yi - w1) <= TOL_REL * (abs(s_i) + abs(q_i))
          clause, exp = ("f1_returns_quantized" if fc == "1" else "interpolates_tol"), w1
        if good and abs(yi - w2) > TOL_REL * (abs(a0) + abs(a1)):
          good, clause, exp = False, "affine_in_f_between_own_f0_and_f1", w2
        if not good:
          run.violate(clause, {"cls": cname, "options": okey, "form": fname},
                      {"cfg": label, "x": float(x[i]), "f": f, "route": route, "kwargs": kwj, "surrogate": float(s_np[i]),
                       "quantized": float(xq[i]), "out_f0": float(o0[i]), "out_f1": float(o1[i]),
                       "observed": float(y[i]), "expected": float(exp),
                       "replay": "%s(**%r, qnoise_factor=%r%s)(%r) = %r, expected %r"
                                 % (cname, kwj, f, "" if fname == "linear" else ", use_ste=%s" % (fname == "ste"),
                                    float(x[i]), float(y[i]), float(exp))},
                      mirrored=mirrored)
          break
  run.count("lattice_relu_inputs_where_clip_after_mix_would_differ", n_band)
  run.extra["lattice_configs"] = len(cfgs)
  run.extra["lattice_elements"] = n_elem
  run.extra["lattice_exact_fraction"] = round(n_exact / max(1, n_elem), 4)
  if n_band == 0:
    raise core.InfraError("lattice generator no longer reaches the band below an off-grid relu_upper_bound")


# --------------------------------------------------------------------------- stream B

def _op_line(op):
  k = op[0]
  if k == "build":
    return {"op": "build", "b": bool(op[1])}
  if k == "update":
    return {"op": "update", "v": core.rj(op[1])}
  if k == "update_from_var":
    return {"op": "update_from_var", "v": core.rj(np.float32(op[1]))}
  if k == "set_use_vars":
    return {"op": "set_use_vars", "b": bool(op[1])}
  return {"op": "call"}


def _apply(tf, q, op, x1, flip):
  k = op[0]
  try:
    if k == "build":
      q.build(var_name=None, use_variables=op[1])
    elif k == "update":
      q.update_qnoise_factor(np.float64(op[1]) if flip else float(op[1]))
    elif k == "update_from_var":
      q.update_qnoise_factor(tf.Variable(op[1], dtype=tf.float32, trainable=False))
    elif k == "set_use_vars":
      q.use_variables = op[1]
    else:
      _call(q, x1)
    return None
  except Exception as e:  # pylint: disable=broad-except
    return type(e).__name__


def stream_storage(run, tier, Q, tf, rng):
  cfg = {c[0]: c for c in CONFIGS}
  xb = np.array([0.3125, -1.75, 0.5, 2.6875, -0.0625, 0.7], dtype=np.float32)
  x1 = xb[:1]
  sym = [("build", True), ("build", False), ("update", 0.25), ("update", 0.75), ("set_use_vars", True),
         ("call",), ("update_from_var", 0.5)]
  extra_sym = [("update", 0.3), ("update", 0.1), ("update", 1.0), ("update", 0.0), ("set_use_vars", False),
               ("update_from_var", 0.625)]
  lines, meta = [], []
  mix_lines, mix_meta = [], []
  for label in STORAGE_CFG:
    _, cname, kw, sur, form = cfg[label]
    is_lin = form == "linear"
    alpha = [s for s in sym if not (is_lin and s[0] == "set_use_vars")]
    alpha_x = alpha + [s for s in extra_sym if not (is_lin and s[0] == "set_use_vars")]
    seqs = []
    max_ex = 3 if tier == "quick" else 4
    if label == "bits_4_0_sym":
      max_ex += 1
    for n in range(1, max_ex + 1):
      seqs += [list(p) for p in itertools.product(alpha, repeat=n)]
    n_rand = 250 if tier == "quick" else 2500
    for _ in range(n_rand):
      n = int(rng.integers(5, 7))
      seqs.append([alpha_x[int(i)] for i in rng.integers(0, len(alpha_x), size=n)])
    s_np = sur(kw, xb)
    xq = _xq_ref(Q, cname, kw, form, xb)
    n_sys = len(seqs) - n_rand
    for si, seq in enumerate(seqs):
      if tier == "quick" and si >= n_sys and (si - n_sys) % 5 == 4:
        continue   # quick budget: 200 of the 250 seeded sequences are executed (trimmed when stream H was added)
      use_vars0 = bool(si % 2)
      f0 = [1.0, 0.5][(si // 2) % 2]
      use_ste = None if is_lin else bool((si // 4) % 2)
      ste_kw = {} if use_ste is None else {"use_ste": use_ste}
      q = _mk(Q, cname, kw, qnoise_factor=f0, use_variables=use_vars0, **ste_kw)
      init = _obs(tf, q)
      steps = []
      book = _ModeBook(f0, use_vars0)
      book_bad = None
      for oi, op in enumerate(seq):
        err = _apply(tf, q, op, x1, flip=bool((si + oi) % 2))
        o = _obs(tf, q)
        o["raised"] = err is not None
        o["err"] = err
        steps.append(o)
        if err is None:
          book.op(op)
        if book.var_mode and o["store"] != "var" and book_bad is None:
          book_bad = oi
      y = _call(q, xb)
      book.op(("call",))
      fin = _obs(tf, q)
      if book.var_mode and fin["store"] != "var" and book_bad is None:
        book_bad = len(seq)
      if book_bad is not None:
        run.violate("factor_held_in_variable_in_use_variables_mode",
                    {"how": book.how, "factor_at_build": _fclass(book.f_at_build)},
                    {"cls": cname, "cfg": label, "init": init, "ops": [list(o_) for o_ in seq] + [["call"]],
                     "at": book_bad, "observed_attribute": "python number", "expected": "tf.Variable",
                     "factor_when_variable_should_have_been_made": book.f_at_build}, mirrored=False)
      lines.append({"op": "storage", "init": init, "ops": [_op_line(op) for op in seq] + [{"op": "call"}]})
      meta.append((label, cname, kw, seq, init, steps, fin, use_ste))
      mix_lines.append({"op": "mix", "form": _form_name(form, use_ste), "s": core.enc_list(s_np),
                        "q": core.enc_list(xq), "store": fin["store"], "v": fin["v"]})
      mix_meta.append((label, seq, init, y, fin))
  outs = core.run_driver("C07", lines)
  for (label, cname, kw, seq, init, steps, fin, use_ste), out in zip(meta, outs):
    skey = "|".join("%s%s" % (op[0][0] + op[0][-1], "" if len(op) == 1 else op[1]) for op in seq)
    run.case((label, init["store"], init["use_vars"], skey),
             sample={"cfg": label, "init": init, "ops": [list(o) for o in seq], "final": fin}
             if len(run.samples) < 5 else None)
    run.compared += 1
    run.count("storage_len_%d" % len(seq))
    msteps = out["steps"]
    mirrored = True
    bad_at = None
    for oi, (o, m) in enumerate(zip(steps + [dict(fin, raised=False)], msteps)):
      a = (o["store"], core.unrj(o["v"]), o["built"], o["use_vars"], o["raised"])
      b = (m["store"], core.unrj(m["v"]), m["built"], m["use_vars"], m["raised"])
      if a != b:
        run.disagree("storage", {"cfg": label, "init": init, "ops": [list(x) for x in seq], "at": oi},
                     {k: o[k] for k in ("store", "v", "built", "use_vars", "raised")} | {"err": o.get("err")}, m)
        mirrored = False
        bad_at = oi
        break
    for oi, o in enumerate(steps):
      run.count("storage_after_%s_%s" % (seq[oi][0], o["store"]))
    # clause oracle (real behaviour only): no operation of the update/build API raises, and the factor
    # the next call uses is float32(last value written), whatever the order and the storage
    raised = [(oi, o["err"]) for oi, o in enumerate(steps) if o["raised"]]
    for oi, err in raised:
      prev = init["store"] if oi == 0 else steps[oi - 1]["store"]
      run.violate("update_api_raises", {"op": seq[oi][0], "store": prev, "error": err},
                  {"cfg": label, "init": init, "ops": [list(x) for x in seq], "at": oi, "error": err,
                   "replay": "q=%s(**%r); %s -> raises %s" % (cname, kw, seq[oi], err)},
                  mirrored=(bad_at is None or oi < bad_at))
    last = None
    for oi, op in enumerate(seq):
      if op[0] in ("update", "update_from_var") and not steps[oi]["raised"]:
        last = op[1]
    want = core.frac(np.float32(last)) if last is not None else core.frac(np.float32(float(core.unrj(init["v"]))))
    got = core.frac(np.float32(float(core.unrj(fin["v"]))))
    if got != want:
      run.violate("next_call_reads_last_write", {"cls": cname, "final_store": fin["store"]},
                  {"cfg": label, "init": init, "ops": [list(x) for x in seq], "observed_factor": float(got),
                   "expected_factor": float(want)}, mirrored=mirrored)
  outs = core.run_driver("C07", mix_lines)
  for (label, seq, init, y, fin), out in zip(mix_meta, outs):
    run.compared += 1
    ym = core.dec_list(out["y"])
    yi = [core.frac(v) for v in y]
    if yi != ym:
      i = [k for k in range(len(yi)) if yi[k] != ym[k]][0]
      run.disagree("storage-final-call", {"cfg": label, "init": init, "ops": [list(x) for x in seq],
                                           "final": fin, "x": float(xb[i])}, float(y[i]), float(ym[i]))
  run.extra["storage_sequences"] = len(lines)


# --------------------------------------------------------------------------- stream C

class _Stub:
  pass


def _qkind(q):
  if q is None or not hasattr(q, "qnoise_factor"):
    return "noknob"
  return "linear" if q.__class__.__name__ == "quantized_linear" else "std"


def _qjson(tf, q, tag):
  k = _qkind(q)
  d = {"tag": tag, "kind": k}
  if k != "noknob":
    d.update(_obs(tf, q))
    d["use_ste"] = bool(getattr(q, "use_ste", False))
  return d


def _stub_models(Q, x1):
  """name -> builder returning the list of (stub) layers of a model"""
  def built(q):
    _call(q, x1)
    return q

  def m_std():
    a, b = Q.quantized_bits(4, 0, 1), Q.quantized_bits(4, 0, 1, qnoise_factor=0.5, use_ste=False)
    r = Q.quantized_relu(4, 1)
    l1, l2 = _Stub(), _Stub()
    l1.quantizers = [a, b]
    l2.quantizer = r
    return [l1, l2]

  def m_built_mixed():
    r = built(Q.quantized_relu(4, 1))
    p = Q.quantized_po2(4)
    bn = Q.binary()
    l1, l2, l3, l4 = _Stub(), _Stub(), _Stub(), _Stub()
    l1.quantizer = r
    l2.quantizers = [p, None]
    l4.quantizers = [bn]
    return [l1, l2, l3, l4]

  def m_noknob():
    l1, l2 = _Stub(), _Stub()
    l2.quantizers = [Q.binary(), Q.ternary()]
    l2.activation = Q.quantized_tanh(4)
    return [l1, l2]

  def m_linear_mid():
    r = Q.quantized_relu(4, 1)
    ln = Q.quantized_linear(4, 1)
    a = built(Q.quantized_bits(4, 0, 1))
    l1, l2, l3 = _Stub(), _Stub(), _Stub()
    l1.quantizer = r
    l2.quantizer = ln
    l3.quantizers = [a, None]
    return [l1, l2, l3]

  def m_linear_first():
    ln = built(Q.quantized_linear(4, 1, use_variables=True))
    p = Q.quantized_relu_po2(4)
    l1, l2 = _Stub(), _Stub()
    l1.quantizers = [ln]
    l2.quantizer = p
    return [l1, l2]

  def m_linear_built():
    # a quantized_linear already built with a python-float factor: set_quantizers rebuilds it
    ln = built(Q.quantized_linear(4, 1, qnoise_factor=0.5))
    l1 = _Stub()
    l1.quantizers = [None, ln]
    l1.activation = Q.quantized_linear(6, 2)
    return [l1]

  def m_both_attrs():
    p = Q.quantized_relu_po2(4)
    a = Q.quantized_bits(4, 0, 1)
    v = built(Q.quantized_bits(4, 0, 1, use_variables=True, qnoise_factor=0.25))
    h = Q.quantized_hswish(8, 2)
    l1, l2 = _Stub(), _Stub()
    l1.quantizers = [p]
    l1.quantizer = a
    l2.quantizers = [v, h]
    return [l1, l2]

  def m_hidden():
    # QDense-like: kernel / bias quantizers, the same list through get_quantizers(), quantizer activation
    a, b = Q.quantized_bits(4, 0, 1), Q.quantized_bits(4, 0, 1)
    act = Q.quantized_relu(4, 1)
    l1 = _Stub()
    l1.quantizers = [a, b]
    l1.get_quantizers = lambda: l1.quantizers
    l1.activation = act
    return [l1]

  def m_cell():
    # QLSTM-like: no `quantizers` on the layer, get_quantizers() = the cell's list, the cell holds the
    # activations; a built Variable-backed state quantizer
    k, r = Q.quantized_bits(4, 0, 1), Q.quantized_po2(4)
    st = built(Q.quantized_bits(6, 1, 1, use_variables=True, qnoise_factor=0.75))
    cell, l1, l2 = _Stub(), _Stub(), _Stub()
    cell.quantizers = [k, r, None, st]
    cell.activation = Q.quantized_relu(4, 1)
    cell.recurrent_activation = built(Q.quantized_bits(4, 0, 1))
    l1.cell = cell
    l1.get_quantizers = lambda: cell.quantizers
    l1.activation = cell.activation
    l1.recurrent_activation = cell.recurrent_activation
    l2.quantizer = Q.quantized_relu(6, 2)
    return [l1, l2]

  def m_nested():
    # nested model two levels deep, a bidirectional-like wrapper, an object shared between layers
    shared = Q.quantized_bits(4, 0, 1)
    inner2, inner1, a1, a2, d, fw, bw, w = (_Stub() for _ in range(8))
    a2.quantizer = Q.quantized_relu(4, 1)
    inner2.layers = [a2]
    d.quantizers = [shared, Q.quantized_linear(4, 1)]
    d.activation = Q.quantized_hswish(8, 2)
    inner1.layers = [d, inner2]
    fw.quantizers = [shared, Q.quantized_relu_po2(4)]
    bw.quantizers = [Q.quantized_bits(5, 1, 1, qnoise_factor=0.5)]
    w.forward_layer, w.backward_layer, w.layer = fw, bw, fw
    w.get_quantizers = lambda: fw.quantizers + bw.quantizers
    a1.quantizer = shared
    return [inner1, w, a1]

  return {"std": m_std, "built_mixed": m_built_mixed, "noknob": m_noknob, "linear_mid": m_linear_mid,
          "linear_first": m_linear_first, "linear_built": m_linear_built, "both_attrs": m_both_attrs,
          "hidden": m_hidden, "cell": m_cell, "nested": m_nested}


_HOLDERS = ("quantizers", "quantizer", "get_quantizers", "activation", "recurrent_activation")
_SUBLAYERS = ("layers", "cell", "forward_layer", "backward_layer", "layer")


def _layers_json(tf, layers):
  """Lean layer records (QKV.Sched.Layer: own holder attributes + held layers, recursively; tags = object
  identity in discovery order) + tag -> object list"""
  objs = []

  def tag_of(q):
    for t, o in enumerate(objs):
      if o is q:
        return t
    objs.append(q)
    return len(objs) - 1

  def record(l):
    d = {}
    if hasattr(l, "quantizers"):
      d["quantizers"] = [_qjson(tf, q, tag_of(q)) for q in l.quantizers]
    if hasattr(l, "quantizer"):
      d["quantizer"] = _qjson(tf, l.quantizer, tag_of(l.quantizer))
    if hasattr(l, "get_quantizers"):
      d["api"] = [_qjson(tf, q, tag_of(q)) for q in l.get_quantizers()]
    if hasattr(l, "activation"):
      d["activation"] = _qjson(tf, l.activation, tag_of(l.activation))
    if hasattr(l, "recurrent_activation"):
      d["recurrent_activation"] = _qjson(tf, l.recurrent_activation, tag_of(l.recurrent_activation))
    sub = []
    for name in _SUBLAYERS:
      if hasattr(l, name):
        v = getattr(l, name)
        sub += [record(x) for x in (v if name == "layers" else [v])]
    d["sub"] = sub
    return d

  return [record(l) for l in layers], objs


def _pw_table(start, finish, exponent, lo, hi):
  rows, seen = [], set()
  if finish == start:
    return rows
  for freq in range(lo, hi + 1):
    if freq < start or freq > finish:
      continue
    val = float(finish - freq) / float(finish - start)
    p = np.power(val, exponent)
    k = core.frac(val)
    if k not in seen:
      seen.add(k)
      rows.append([core.rj(val), core.rj(float(p))])
  return rows


def _cb_obs(tf, cb, objs):
  ids = {id(o): t for t, o in enumerate(objs)}
  f = cb.qnoise_factor
  qs = None
  if cb.quantizers is not None:
    qs = []
    for q in cb.quantizers:
      d = _obs(tf, q)
      d["tag"] = ids.get(id(q), -1)
      d["use_ste"] = bool(getattr(q, "use_ste", False))
      qs.append(d)
  return {"num_iters": int(cb.num_iters), "factor": None if f is None else core.rj(float(f)), "quantizers": qs}


_HOOK = {"T": "on_train_begin", "E": "on_epoch_begin", "e": "on_epoch_end", "B": "on_train_batch_begin"}


def _drive(tf, cb, objs, events, x1):
  steps = []
  for ev in events:
    err = None
    try:
      if ev == "T":
        cb.on_train_begin()
      elif ev == "E":
        cb.on_epoch_begin(0)
      elif ev == "e":
        cb.on_epoch_end(0)
      elif ev == "B":
        cb.on_train_batch_begin(0)
      else:
        for q in (cb.quantizers or []):
          _call(q, x1)
    except Exception as e:  # pylint: disable=broad-except
      err = type(e).__name__
    o = _cb_obs(tf, cb, objs)
    o["raised"] = err is not None
    o["err"] = err
    steps.append(o)
  return steps


def stream_sched(run, tier, Q, tf, rng):
  from qkeras.callbacks import QNoiseScheduler
  x1 = np.array([0.5], dtype=np.float32)
  models = _stub_models(Q, x1)
  mnames = list(models)
  cfgs = []
  for start in (0, 1, 2):
    for df in (0, 1, 3):
      for exponent in (1.0, 2.0, 3.0, 0.5, 2.5):
        for uf in (1, 2, 3):
          for ft in ("epoch", "step"):
            for initial in (0, 1, 5):
              cfgs.append((start, start + df, exponent, uf, ft, initial))
  if tier == "quick":
    keep = rng.choice(len(cfgs), size=270, replace=False)
    cfgs_hist = [cfgs[i] for i in sorted(keep.tolist())]
  else:
    cfgs_hist = cfgs
  jobs = []   # (cfg, model name, events, kind)
  for ci, c in enumerate(cfgs_hist):
    ft = c[4]
    # fit-shaped history long enough to pass `finish`
    ev = ["T"]
    if ft == "epoch":
      for _ in range(c[1] + 3):
        ev += ["E", "B", "F", "B", "e"]
    else:
      for _ in range((c[1] + 4) // 2 + 1):
        ev += ["E", "B", "F", "B", "F", "e"]
    jobs.append((c, mnames[ci % len(mnames)], ev, "fit"))
    n_r = 2 if tier == "quick" else 6
    for r in range(n_r):
      n = 12 if tier == "quick" else int(rng.integers(12, 41))
      ev = [["T", "E", "B", "F", "e"][int(i)] for i in rng.choice(5, size=n, p=[0.12, 0.3, 0.3, 0.2, 0.08])]
      if r % 2 == 0:
        ev[0] = "T"
      if tier == "quick" and r == 1 and ci % 3 == 2:
        continue   # quick budget: 720 of 810 seeded histories executed (drawn all the same; trimmed for stream H)
      jobs.append((c, mnames[(ci + r + 1) % len(mnames)], ev, "random"))
  # exhaustive short histories over the event alphabet for a few configurations
  ex_cfgs = [(0, 2, 3.0, 1, "epoch", 0), (1, 2, 2.0, 2, "step", 0), (1, 1, 3.0, 1, "step", 1),
             (0, 3, 0.5, 2, "epoch", 1)]
  max_len = 4 if tier == "quick" else 6
  for c in ex_cfgs:
    for mname in ("std", "linear_mid", "nested"):
      for n in range(1, max_len + 1):
        for ev in itertools.product("TEBF", repeat=n):
          jobs.append((c, mname, list(ev), "exhaustive"))
  lines, meta = [], []
  for c, mname, ev, kind in jobs:
    start, finish, exponent, uf, ft, initial = c
    use_ste = bool((len(lines) // 3) % 2)
    layers = models[mname]()
    # argument forms: the same configuration as python ints / floats, as numpy integer scalars, and with an
    # integral exponent given as a python int — same value, same schedule (the model sees the values only)
    aform = len(lines) % 3
    a_int = (lambda v: np.int64(v)) if aform == 1 else (lambda v: v)
    a_exp = int(exponent) if (aform == 2 and float(exponent).is_integer()) else (
        np.float64(exponent) if aform == 1 else exponent)
    run.count("sched_argument_form_%s" % ("python", "numpy_scalars", "int_exponent")[aform])
    cb = QNoiseScheduler(start=a_int(start), finish=a_int(finish), freq_type=ft, update_freq=a_int(uf),
                         initial_step_or_epoch=a_int(initial), exponent=a_exp, use_ste=use_ste)
    m = _Stub()
    m.layers = layers
    cb.model = m
    ljson, objs = _layers_json(tf, layers)
    steps = _drive(tf, cb, objs, ev, x1)
    # every knob-bearing quantizer object of the model (independent object-graph walk), read at the end
    from qkeras.base_quantizer import BaseQuantizer
    final_all = [(_holder(path), q.__class__.__name__, _obs(tf, q)["v"])
                 for path, q in _walk_model(tf, layers, BaseQuantizer)]
    n_ticks = sum(1 for e in ev if e == ("E" if ft == "epoch" else "B"))
    cfgj = {"start": start, "finish": finish, "step_mode": ft == "step", "update_freq": uf,
            "initial": initial, "use_ste": use_ste}
    lines.append({"op": "sched", "cfg": cfgj, "layers": ljson, "events": ev,
                  "table": _pw_table(start, finish, a_exp, initial, initial + n_ticks + 1)})
    meta.append((c, mname, ev, kind, steps, use_ste, final_all))
  outs = core.run_driver("C07", lines)
  n_updates = 0
  for (c, mname, ev, kind, steps, use_ste, final_all), out in zip(meta, outs):
    start, finish, exponent, uf, ft, initial = c
    run.case((c, mname, "".join(ev)),
             sample={"cfg": c, "model": mname, "events": "".join(ev),
                     "factors": [None if s["factor"] is None else float(core.unrj(s["factor"])) for s in steps]}
             if kind == "fit" and len(run.samples) < 8 else None)
    run.compared += 1
    run.count("sched_%s_%s" % (kind, mname))
    mirrored = True
    bad_at = None
    for i, (o, m) in enumerate(zip(steps, out["steps"])):
      def norm(d, is_model):
        qs = d["quantizers"]
        if qs is not None:
          qs = [(q["tag"], q["store"], core.unrj(q["v"]), q["built"], q["use_vars"], q["use_ste"]) for q in qs]
        fct = d["factor"]
        return (d["raised"], d["num_iters"], None if fct is None else core.unrj(fct), qs)
      a, b = norm(o, False), norm(m, True)
      if a != b:
        run.disagree("sched", {"cfg": c, "model": mname, "events": "".join(ev), "at": i, "use_ste": use_ste},
                     {"raised": o["raised"], "err": o["err"], "num_iters": o["num_iters"], "factor": o["factor"],
                      "quantizers": o["quantizers"]}, m)
        mirrored = False
        bad_at = i
        break
    # ---- clause oracle on the observed behaviour only
    keras_order = ev[0] == "T"   # Keras always calls on_train_begin first
    key = {"model": mname, "freq_type": ft}
    tick = "E" if ft == "epoch" else "B"
    k = 0
    prev = None
    seen_t = False
    for i, (e, o) in enumerate(zip(ev, steps)):
      if e == "T" and not o["raised"]:
        seen_t = True
      if e == "F" and seen_t and not o["raised"] and o["quantizers"]:
        pyq = [q for q in o["quantizers"] if q["store"] != "var"]
        if pyq:
          run.violate("factor_held_in_variable_in_use_variables_mode",
                      {"how": "scheduler_then_first_call", "factor_at_build": _fclass(float(core.unrj(pyq[0]["v"])))},
                      {"cfg": c, "model": mname, "events": "".join(ev), "at": i, "quantizer_tag": pyq[0]["tag"],
                       "observed_attribute": "python number %r" % float(core.unrj(pyq[0]["v"])),
                       "expected": "tf.Variable (set_quantizers switched use_variables on)"}, mirrored=mirrored)
          seen_t = False   # once per history
      if o["raised"]:
        if keras_order:
          run.violate("hook_raises", {"hook": _HOOK.get(e, "forward"), "model": mname, "error": o["err"]},
                      {"cfg": c, "model": mname, "events": "".join(ev), "at": i, "error": o["err"],
                       "replay": "QNoiseScheduler%r on stub model %s, events %s" % (c, mname, "".join(ev))},
                      mirrored=(bad_at is None or i < bad_at))
        continue
      fct = None if o["factor"] is None else core.unrj(o["factor"])
      if fct is not None:
        run.count("factor_zero" if fct == 0 else ("factor_one" if fct == 1 else "factor_ramp"))
        if not (0 <= fct <= 1):
          run.violate("factor_in_unit_interval", key, {"cfg": c, "events": "".join(ev), "at": i, "factor": float(fct)},
                      mirrored=mirrored)
        if prev is not None and fct < prev:
          run.violate("never_decreases", key, {"cfg": c, "model": mname, "events": "".join(ev), "at": i,
                                               "previous": float(prev), "factor": float(fct)}, mirrored=mirrored)
        prev = fct
      if e == tick:
        freq = initial + k
        k += 1
        is_update = (freq % uf == 0) and o["quantizers"]
        if is_update:
          n_updates += 1
          if freq < start and fct != 0:
            run.violate("zero_before_start", key, {"cfg": c, "events": "".join(ev), "at": i, "freq": freq,
                                                   "factor": None if fct is None else float(fct)}, mirrored=mirrored)
          if freq >= finish and fct != 1:
            run.violate("one_from_finish", key, {"cfg": c, "events": "".join(ev), "at": i, "freq": freq,
                                                 "factor": None if fct is None else float(fct)}, mirrored=mirrored)
          run.count("update_before_start" if freq < start else ("update_from_finish" if freq >= finish else "update_ramp"))
          want = core.frac(np.float32(float(fct))) if fct is not None else None
          for q in o["quantizers"]:
            if core.frac(np.float32(float(core.unrj(q["v"])))) != want:
              run.violate("applied_to_every_tracked_quantizer", key,
                          {"cfg": c, "model": mname, "events": "".join(ev), "at": i, "factor": float(fct),
                           "quantizer_tag": q["tag"], "holds": float(core.unrj(q["v"]))}, mirrored=mirrored)
              break
        elif freq % uf != 0:
          run.count("gate_closed")
    # the property's last clause, judged on the objects themselves: once the callback has applied a factor,
    # EVERY knob-bearing quantizer the model holds anywhere (found by the independent walk) holds it
    last = steps[-1] if steps else None
    if keras_order and last is not None and last["factor"] is not None and not any(o["raised"] for o in steps):
      want = core.frac(np.float32(float(core.unrj(last["factor"]))))
      for holder, cls, v in final_all:
        run.count("sched_holder_%s" % holder)
        if core.frac(np.float32(float(core.unrj(v)))) != want:
          run.violate("applied_to_every_knob_quantizer_of_model", {"holder": holder},
                      {"cfg": c, "model": mname, "events": "".join(ev), "factor": float(want),
                       "quantizer": cls, "holds": float(core.unrj(v)),
                       "replay": "QNoiseScheduler%r on stub model %s, events %s: the %s held in %s keeps %s"
                                 % (c, mname, "".join(ev), cls, holder, float(core.unrj(v)))},
                      mirrored=mirrored)
          break
  run.extra["sched_histories"] = len(lines)
  run.extra["sched_update_steps_judged"] = n_updates

  # ---- calculate_qnoise_factor alone: float value bit-for-bit, exact rational for natural exponents
  lines, meta = [], []
  for c in cfgs:
    start, finish, exponent, uf, ft, initial = c
    if (uf, ft, initial) != (1, "epoch", 0):
      continue
    for (s2, f2) in ((start, finish), (start + 3, finish + 10)):
      cb = QNoiseScheduler(start=s2, finish=f2, exponent=exponent)
      freqs = list(range(s2 - 2, f2 + 3))
      got = [float(cb.calculate_qnoise_factor(fr)) for fr in freqs]
      ln = {"op": "calc", "cfg": {"start": s2, "finish": f2, "step_mode": False, "update_freq": 1, "initial": 0,
                                   "use_ste": True},
            "freqs": freqs, "table": _pw_table(s2, f2, exponent, s2 - 2, f2 + 3)}
      if float(exponent).is_integer() and exponent >= 1:
        ln["nat_exponent"] = int(exponent)
      lines.append(ln)
      meta.append((s2, f2, exponent, freqs, got))
      # spot-check of the oracle hypotheses the theorems put on `pw` (monotone on [0,1], 0 -> 0, 1 -> 1)
      rows = sorted((core.unrj(a), core.unrj(b)) for a, b in ln["table"])
      ok = all(rows[i][1] <= rows[i + 1][1] for i in range(len(rows) - 1))
      ok = ok and all((a != 0 or b == 0) and (a != 1 or b == 1) and 0 <= b <= 1 for a, b in rows)
      run.count("pw_oracle_rows", len(rows))
      if not ok:
        run.disagree("pw-oracle-hypothesis", {"start": s2, "finish": f2, "exponent": exponent},
                     [(float(a), float(b)) for a, b in rows], "monotone, 0->0, 1->1")
  outs = core.run_driver("C07", lines)
  worst = F(0)
  for (s2, f2, exponent, freqs, got), out in zip(meta, outs):
    run.case(("calc", s2, f2, exponent))
    run.compared += 1
    fl = core.dec_list(out["float"])
    gi = [core.frac(g) for g in got]
    if gi != fl:
      i = [k for k in range(len(gi)) if gi[k] != fl[k]][0]
      run.disagree("calc", {"start": s2, "finish": f2, "exponent": exponent, "freq": freqs[i]}, got[i], float(fl[i]))
    # oracle hypotheses (trusted-base items, spot-checked): monotone, endpoints; clause: in [0,1], monotone
    for i in range(1, len(gi)):
      if gi[i] < gi[i - 1]:
        run.violate("never_decreases", {"site": "calculate_qnoise_factor"},
                    {"start": s2, "finish": f2, "exponent": exponent, "freq": freqs[i], "previous": got[i - 1],
                     "factor": got[i]}, mirrored=gi == fl)
    if out["exact"] is not None:
      ex = core.dec_list(out["exact"])
      for i in range(len(gi)):
        d = abs(gi[i] - ex[i])
        worst = max(worst, d)
        # stated tolerance (np.power is not an IEEE basic operation): 4 ulp of float64 at 1
        if d > F(4, 2 ** 52):
          run.violate("ramp_value", {"site": "calculate_qnoise_factor"},
                      {"start": s2, "finish": f2, "exponent": exponent, "freq": freqs[i], "observed": got[i],
                       "exact": float(ex[i])}, mirrored=gi == fl)
  run.extra["calc_worst_abs_dev_from_exact_rational"] = float(worst)
  run.assumptions.append("np.power(val, exponent) is monotone on [0,1] with 0 -> 0, 1 -> 1 (exponent > 0); enters "
                         "the model as an oracle table; for natural exponents checked against the exact rational "
                         "within 4 ulp(1.0) of float64 (observed worst %.3g)" % float(worst))


# --------------------------------------------------------------------------- stream D

_NAMED = ("quantizers", "quantizer", "activation", "recurrent_activation", "cell", "forward_layer",
          "backward_layer", "layer", "layers")


def _walk_quantizers(tf, layer, base_cls):
  """independent of the callback's lookup: all knob-bearing quantizer objects reachable from a layer object
  through its instance attributes (well-known names first, so that paths are readable, then everything in
  vars()), descending into layers, stubs, lists and tuples only; returns [(attribute path, object)]"""
  found, seen = [], set()

  def visit(o, path, depth):
    if o is None or depth > 8:
      return
    if isinstance(o, base_cls):
      if id(o) not in seen and hasattr(o, "qnoise_factor"):
        found.append((path, o))
      seen.add(id(o))
      return
    if isinstance(o, (list, tuple)):
      for v in o:
        visit(v, path, depth + 1)
      return
    if isinstance(o, (tf.keras.layers.Layer, _Stub)):
      if id(o) in seen:
        return
      seen.add(id(o))
      names = list(_NAMED) + sorted(k for k in vars(o) if k not in _NAMED)
      for name in names:
        try:
          v = getattr(o, name)
        except Exception:  # pylint: disable=broad-except
          continue
        if isinstance(v, (base_cls, tf.keras.layers.Layer, _Stub, list, tuple)):
          visit(v, path + [name], depth + 1)

  visit(layer, [], 0)
  return found


def _walk_model(tf, layers, base_cls):
  out, ids = [], set()
  for i, l in enumerate(layers):
    for path, q in _walk_quantizers(tf, l, base_cls):
      if id(q) not in ids:
        ids.add(id(q))
        out.append((path, q))
  return out


def _holder(path):
  """which kind of place holds the quantizer (key of a coverage violation)"""
  if any(p in ("layers", "_self_tracked_trackables", "_layers") for p in path[:-1]):
    return "submodel"
  if "cell" in path:
    return "cell"
  if any(p in ("forward_layer", "backward_layer", "layer") for p in path):
    return "wrapped"
  return path[-1] if path else "?"


def stream_layers(run, tier, Q, tf, rng):
  import qkeras
  from qkeras.callbacks import QNoiseScheduler
  from qkeras.base_quantizer import BaseQuantizer
  L = tf.keras.layers
  qb = lambda: Q.quantized_bits(4, 0, 1)   # noqa: E731

  def dense_act():
    return tf.keras.Sequential([L.Input((4,)), qkeras.QDense(3, kernel_quantizer=qb(), bias_quantizer=qb(),
                                                              activation=Q.quantized_relu(4, 1)),
                                qkeras.QActivation(Q.quantized_bits(4, 0, 1))])

  def dense_plain():
    return tf.keras.Sequential([L.Input((4,)), qkeras.QDense(3, kernel_quantizer=qb(), bias_quantizer=qb()),
                                L.Dense(2), qkeras.QActivation(Q.quantized_relu(4, 1)),
                                qkeras.QActivation("binary")])

  def conv_act():
    return tf.keras.Sequential([L.Input((6, 6, 2)),
                                qkeras.QConv2D(2, 3, kernel_quantizer=qb(), bias_quantizer=None,
                                               activation=Q.quantized_relu(4, 1)),
                                qkeras.QAveragePooling2D(2, average_quantizer=Q.quantized_bits(6, 0, 1),
                                                         activation=Q.quantized_bits(5, 1, 1)),
                                L.Flatten()])

  def rnn():
    return tf.keras.Sequential([L.Input((3, 4)), qkeras.QSimpleRNN(3, kernel_quantizer=qb(),
                                                                    recurrent_quantizer=qb(), bias_quantizer=qb())])

  def lstm_act():
    return tf.keras.Sequential([L.Input((3, 4)),
                                qkeras.QLSTM(3, activation=Q.quantized_relu(4, 1),
                                             recurrent_activation=Q.quantized_bits(4, 0, 1),
                                             kernel_quantizer=qb(), recurrent_quantizer=Q.quantized_po2(4),
                                             bias_quantizer=qb(), state_quantizer=Q.quantized_bits(6, 1, 1))])

  def bidir():
    return tf.keras.Sequential([L.Input((3, 4)),
                                qkeras.QBidirectional(qkeras.QGRU(2, activation=Q.quantized_relu(4, 1),
                                                                  kernel_quantizer=qb(), recurrent_quantizer=qb(),
                                                                  bias_quantizer=qb()))])

  def generic_rnn():
    return tf.keras.Sequential([L.Input((3, 4)),
                                L.RNN(qkeras.QSimpleRNNCell(3, kernel_quantizer=qb(),
                                                            state_quantizer=Q.quantized_bits(6, 1, 1)))])

  def timedist():
    return tf.keras.Sequential([L.Input((3, 4)),
                                L.TimeDistributed(qkeras.QDense(2, kernel_quantizer=qb(), bias_quantizer=qb(),
                                                                activation=Q.quantized_relu(4, 1)))])

  def nested():
    inner = tf.keras.Sequential([L.Input((4,)), qkeras.QActivation(Q.quantized_relu(4, 1))])
    return tf.keras.Sequential([L.Input((4,)), inner, qkeras.QActivation(Q.quantized_bits(4, 0, 1))])

  def nested_deep():
    x_in = L.Input((4,))
    inner2 = tf.keras.Model(x_in, qkeras.QDense(4, kernel_quantizer=Q.quantized_linear(4, 1), bias_quantizer=qb(),
                                                activation=Q.quantized_relu(4, 1))(x_in))
    inner1 = tf.keras.Sequential([L.Input((4,)), inner2, qkeras.QActivation(Q.quantized_relu_po2(4))])
    return tf.keras.Sequential([L.Input((4,)), qkeras.QActivation(Q.quantized_bits(6, 2, 1)), inner1,
                                qkeras.QDense(2, kernel_quantizer=qb(), bias_quantizer=qb())])

  def shared():
    sh = qb()
    return tf.keras.Sequential([L.Input((4,)), qkeras.QDense(3, kernel_quantizer=sh, bias_quantizer=sh),
                                qkeras.QActivation(sh), qkeras.QDense(2, kernel_quantizer=sh)])

  def po2_relu_po2():
    return tf.keras.Sequential([L.Input((4,)), qkeras.QDense(3, kernel_quantizer=Q.quantized_po2(4),
                                                              bias_quantizer=Q.quantized_po2(4)),
                                qkeras.QActivation(Q.quantized_relu_po2(4))])

  def holders_fit():
    # one model with a quantizer in every kind of place, small enough to train for a few steps
    inner = tf.keras.Sequential([L.Input((3,)), qkeras.QActivation(Q.quantized_relu(4, 1))])
    return tf.keras.Sequential([L.Input((3, 4)),
                                qkeras.QSimpleRNN(3, activation=Q.quantized_relu(6, 2), kernel_quantizer=qb(),
                                                  recurrent_quantizer=qb(), bias_quantizer=qb()),
                                inner,
                                qkeras.QDense(2, kernel_quantizer=Q.quantized_linear(4, 1), bias_quantizer=qb(),
                                              activation=Q.quantized_bits(6, 2, 1))])

  builders = [("dense_act", dense_act), ("dense_plain", dense_plain), ("conv_act", conv_act), ("rnn", rnn),
              ("lstm_act", lstm_act), ("bidir", bidir), ("generic_rnn", generic_rnn), ("timedist", timedist),
              ("nested", nested), ("nested_deep", nested_deep), ("shared", shared), ("po2", po2_relu_po2),
              ("holders_fit", holders_fit)]
  lines, meta = [], []
  for name, b in builders:
    try:
      model = b()
    except Exception as e:  # pylint: disable=broad-except
      raise core.InfraError("cannot build model %s: %r" % (name, e))
    cb = QNoiseScheduler(0, 4)
    got = cb.get_quantizers(model)
    ljson, objs = _layers_json(tf, model.layers)

    def tag_of(q, objs=objs):
      for t, o in enumerate(objs):
        if o is q:
          return t
      objs.append(q)
      return len(objs) - 1

    holders = {}
    for path, q in _walk_model(tf, model.layers, BaseQuantizer):
      holders.setdefault(tag_of(q), _holder(path))
    lines.append({"op": "getq", "layers": ljson})
    meta.append((name, [tag_of(q) for q in got], [q.__class__.__name__ for q in got],
                 [hasattr(q, "qnoise_factor") for q in got], objs, holders))
  outs = core.run_driver("C07", lines)
  for (name, got_tags, got_cls, got_knob, objs, holders), out in zip(meta, outs):
    run.case(("getq", name), sample={"model": name, "get_quantizers": got_tags, "classes": got_cls,
                                     "held_in": holders, "before_fix_round": out["old_tags"]})
    run.compared += 1
    if got_tags != out["tags"]:
      run.disagree("get_quantizers", {"model": name}, got_tags, out["tags"])
    mirrored = got_tags == out["tags"]
    # the layer records (named holders) reach the same objects as the name-independent walk
    if sorted(set(out["held_knob_tags"])) != sorted(holders):
      run.disagree("get_quantizers-reach", {"model": name}, holders, out["held_knob_tags"])
    # clauses (judged on the real result against the independent object-graph walk): every knob-bearing
    # quantizer of the model is returned, each object once, nothing without the knob
    for t in sorted(holders):
      run.count("held_in_%s" % holders[t])
      if t not in got_tags:
        run.violate("covers_every_knob_quantizer", {"holder": holders[t]},
                    {"model": name, "missed_quantizer": objs[t].__class__.__name__, "held_in": holders[t],
                     "replay": "QNoiseScheduler(0,4).get_quantizers(<%s model>) misses the %s held in layer.%s"
                               % (name, objs[t].__class__.__name__, holders[t])}, mirrored=mirrored)
    if len(set(got_tags)) != len(got_tags):
      run.violate("listed_once", {"model": name}, {"model": name, "get_quantizers": got_tags,
                                                   "classes": got_cls}, mirrored=mirrored)
    if not all(got_knob):
      run.violate("returns_only_knob_quantizers", {"model": name}, {"model": name, "classes": got_cls,
                                                                    "has_knob": got_knob}, mirrored=mirrored)

  # ---- tiny fits: Keras calls the hooks in the modelled order, the model run on that hook sequence
  #      reproduces the factors the real training saw, and after training EVERY knob-bearing quantizer
  #      of the model (independent walk) holds the last applied factor
  fits = [("holders_fit", holders_fit, 1, 3, "epoch", 1, 3.0)]
  if tier != "quick":
    fits += [("dense_plain", dense_plain, 2, 9, "step", 2, 2.0), ("lstm_act", lstm_act, 0, 4, "step", 1, 0.5),
             ("nested_deep", nested_deep, 1, 2, "epoch", 2, 2.5)]
  for (mname, builder, start, finish, ft, uf, exponent) in fits:
    model = builder()
    model.compile(loss="mse", optimizer="sgd")
    cb = QNoiseScheduler(start, finish, freq_type=ft, update_freq=uf, exponent=exponent)
    ljson, objs = _layers_json(tf, model.layers)     # pre-training state of every quantizer
    log = []

    class Rec(tf.keras.callbacks.Callback):
      def on_train_begin(self, logs=None):
        log.append(("T", cb.qnoise_factor))

      def on_epoch_begin(self, epoch, logs=None):
        log.append(("E", cb.qnoise_factor))

      def on_train_batch_begin(self, batch, logs=None):
        log.append(("B", cb.qnoise_factor))

      def on_epoch_end(self, epoch, logs=None):
        log.append(("e", cb.qnoise_factor))

    in_shape = tuple(model.input_shape[1:])
    out_dim = int(model.output_shape[-1])
    xs = rng.uniform(-1, 1, size=(12,) + in_shape).astype(np.float32)
    ys = rng.uniform(-1, 1, size=(12,) + tuple(model.output_shape[1:-1]) + (out_dim,)).astype(np.float32)
    try:
      model.fit(xs, ys, epochs=5, batch_size=4, verbose=0, callbacks=[cb, Rec()])
    except Exception as e:  # pylint: disable=broad-except
      run.case(("fit", mname, start, finish, ft, uf, exponent))
      run.violate("hook_raises", {"hook": "model.fit", "model": mname, "error": type(e).__name__},
                  {"fit": (mname, start, finish, ft, uf, exponent), "error": repr(e)[:300],
                   "replay": "model.fit(<%s model>, callbacks=[QNoiseScheduler(%d, %d, %r, %d, exponent=%r)]) raises"
                             % (mname, start, finish, ft, uf, exponent)}, mirrored=False)
      continue
    ev = [e for e, _ in log]
    facts = [None if f is None else core.frac(float(f)) for _, f in log]
    n_ticks = sum(1 for e in ev if e == ("E" if ft == "epoch" else "B"))
    line = {"op": "sched", "cfg": {"start": start, "finish": finish, "step_mode": ft == "step", "update_freq": uf,
                                    "initial": 0, "use_ste": True},
            "layers": ljson, "events": ev, "table": _pw_table(start, finish, exponent, 0, n_ticks + 1)}
    out = core.run_driver("C07", [line])[0]
    mf = [None if s_["factor"] is None else core.unrj(s_["factor"]) for s_ in out["steps"]]
    run.case(("fit", mname, start, finish, ft, uf, exponent),
             sample={"fit": (mname, start, finish, ft, uf, exponent), "hooks": "".join(ev),
                     "tracked": len(cb.quantizers or [])})
    run.compared += 1
    run.count("fit_runs")
    mirrored = True
    if ev[0] != "T":
      run.disagree("fit-hook-order", {"fit": (mname, start, finish, ft)}, "".join(ev), "T first")
      mirrored = False
    if mf != facts:
      i = [k for k in range(len(mf)) if mf[k] != facts[k]][0]
      run.disagree("fit", {"fit": (mname, start, finish, ft, uf, exponent), "hooks": "".join(ev), "at": i},
                   None if facts[i] is None else float(facts[i]), None if mf[i] is None else float(mf[i]))
      mirrored = False
    # tracked objects after training: identities and values against the model's final state
    ids = {id(o): t for t, o in enumerate(objs)}
    got_final = [(ids.get(id(q), -1), core.unrj(_obs(tf, q)["v"])) for q in (cb.quantizers or [])]
    mq = out["steps"][-1]["quantizers"] or []
    model_final = [(q["tag"], core.unrj(q["v"])) for q in mq]
    run.compared += 1
    if got_final != model_final:
      run.disagree("fit-final", {"fit": (mname, start, finish, ft, uf, exponent)},
                   [(t, float(v)) for t, v in got_final], [(t, float(v)) for t, v in model_final])
      mirrored = False
    if facts[-1] is not None:
      want = core.frac(np.float32(float(facts[-1])))
      for path, q in _walk_model(tf, model.layers, BaseQuantizer):
        run.count("fit_holder_%s" % _holder(path))
        v = core.unrj(_obs(tf, q)["v"])
        if core.frac(np.float32(float(v))) != want:
          run.violate("applied_to_every_knob_quantizer_of_model", {"holder": _holder(path)},
                      {"fit": (mname, start, finish, ft, uf, exponent), "final_factor": float(want),
                       "quantizer": q.__class__.__name__, "held_in": ".".join(path), "holds": float(v),
                       "replay": "model.fit(<%s model>, callbacks=[QNoiseScheduler(%d, %d, %r, %d, exponent=%r)]): the "
                                 "%s held in %s keeps qnoise_factor %s" % (mname, start, finish, ft, uf, exponent,
                                                                          q.__class__.__name__, ".".join(path), float(v))},
                      mirrored=mirrored)
          break


# --------------------------------------------------------------------------- stream E

_KINDS = ("py_unbuilt", "py_built", "var_built", "var_unbuilt")
_NUMV = ("float", "np.float64", "np.float32", "tf.constant")


def _num_arg(tf, v, variant):
  """(the object handed to update_qnoise_factor, the exact value it carries)"""
  if variant == 0:
    return float(v), core.frac(float(v))
  if variant == 1:
    return np.float64(v), core.frac(float(v))
  if variant == 2:
    return np.float32(v), core.frac(np.float32(v))
  return tf.constant(v, dtype=tf.float32), core.frac(np.float32(v))


def _mop_line(op, exact):
  k = op[0]
  if k == "upd_caller":
    return {"op": "upd_caller", "i": op[1], "k": op[2]}
  if k == "upd_quant":
    return {"op": "upd_quant", "i": op[1], "j": op[2]}
  if k == "assign":
    return {"op": "assign", "k": op[1], "v": core.rj(op[2])}
  o = op[2]
  if o[0] == "update":
    return {"op": "local", "i": op[1], "o": {"op": "update", "v": core.rj(exact)}}
  return {"op": "local", "i": op[1], "o": _op_line(o)}


def _mop_text(op):
  """the operation as python source (replay text of a violation)"""
  k = op[0]
  if k == "upd_caller":
    return "q%d.update_qnoise_factor(w%d)" % (op[1], op[2])
  if k == "upd_quant":
    return "q%d.update_qnoise_factor(q%d.qnoise_factor)" % (op[1], op[2])
  if k == "assign":
    return "w%d.assign(%r)" % (op[1], op[2])
  i, o = op[1], op[2]
  if o[0] == "update":
    return "q%d.update_qnoise_factor(%s(%r))" % (i, _NUMV[o[2]], o[1])
  if o[0] == "update_from_var":
    return "q%d.update_qnoise_factor(tf.Variable(%r))" % (i, o[1])
  if o[0] == "build":
    return "q%d.build(use_variables=%r)" % (i, o[1])
  if o[0] == "set_use_vars":
    return "q%d.use_variables = %r" % (i, o[1])
  return "q%d(x)" % i


def _op_kind(op):
  k = op[0]
  if k == "upd_caller":
    return "update_from_callers_variable"
  if k == "upd_quant":
    return "update_from_quantizer_attribute"
  if k == "assign":
    return "assign_to_callers_variable"
  return {"update": "number_update", "update_from_var": "update_from_fresh_variable", "build": "build",
          "set_use_vars": "set_use_variables", "call": "call"}[op[2][0]]


def _culprit(op, b):
  """the operation after which quantizer b reads a wrong factor, relative to b (key of a violation)"""
  if op[0] == "assign":
    return _op_kind(op)
  return ("own_" if op[1] == b else "other_quantizers_") + _op_kind(op)


def _alias_histories(tier, rng, is_lin):
  """(family, kinds of q0 q1 q2, history).  q0 = a, q1 = b, q2 = c; w0, w1 caller-owned variables.
  Systematic part: one source variable pushed to two quantizers (every pair of storage kinds), followed by
  each way the shared state could leak: a number update of a, an update of a from another variable, the
  caller assigning to the source, copying a's attribute, rebuilding; c is never updated (reads its
  constructor constant).  `C` = probe call."""
  U = lambda i, v, var=0: ("local", i, ("update", v, var))          # noqa: E731
  C = lambda i: ("local", i, ("call",))                             # noqa: E731
  B = lambda i, b: ("local", i, ("build", b))                       # noqa: E731
  A, Wq, As = (lambda i, k: ("upd_caller", i, k)), (lambda i, j: ("upd_quant", i, j)), (lambda k, v: ("assign", k, v))
  templates = [
      ("shared_then_number_update", [A(0, 0), A(1, 0), U(0, 1.0), C(1), C(0), U(0, 0.5, 2), C(1), C(2)]),
      ("shared_then_assign_source", [A(0, 0), A(1, 0), As(0, 0.75), C(1), C(0), As(0, 0.0), C(0), C(2)]),
      ("shared_then_other_variable", [A(0, 0), A(1, 0), A(0, 1), C(1), C(0), As(1, 0.125), C(0), C(1)]),
      ("update_then_share", [A(0, 0), U(0, 1.0, 1), A(1, 0), C(1), C(0), U(1, 0.0), C(0), C(1)]),
      ("copy_attribute_then_update_source", [A(0, 0), Wq(1, 0), U(0, 0.75), C(1), As(0, 1.0), C(1), C(0), Wq(2, 1),
                                             U(1, 0.5, 3), C(2)]),
      ("shared_then_rebuild", [A(0, 0), A(1, 0), B(0, True), U(0, 1.0), C(1), B(1, False), As(0, 0.5), C(1), C(0)]),
      ("shared_attribute_only", [A(0, 0), A(1, 0), A(2, 0), U(2, 0.0), As(0, 0.625), U(0, 1.0, 2), A(2, 1)]),
      ("probe_every_step", [A(0, 0), C(0), C(1), A(1, 0), C(0), C(1), U(0, 1.0), C(0), C(1), As(0, 0.75), C(0), C(1),
                            A(0, 1), C(0), C(1), U(1, 0.125, 1), C(0), C(1), C(2)]),
      ("variable_store_copy", [B(0, True), A(0, 0), Wq(1, 0), Wq(2, 0), U(0, 0.125), C(1), As(0, 1.0), U(1, 0.75, 1),
                               C(2), C(0)]),
  ]
  out = []
  for ka in _KINDS:
    for kb in _KINDS:
      for ti, (fam, h) in enumerate(templates):
        kc = _KINDS[(ti + _KINDS.index(ka) + 2 * _KINDS.index(kb)) % 4]
        out.append((fam, (ka, kb, kc), list(h)))
  # seeded interleavings over the whole alphabet
  vals = [0.0, 0.125, 0.25, 0.5, 0.625, 0.75, 1.0, 0.3, 0.1, 1.0 / 3.0, 0.999]
  n_rand = 40 if tier == "quick" else 400
  for _ in range(n_rand):
    n = int(rng.integers(6, 11))
    kinds = tuple(_KINDS[int(i)] for i in rng.integers(0, 4, size=3))
    h = []
    for _j in range(n):
      r = int(rng.integers(0, 20))
      i, j, k = int(rng.integers(0, 3)), int(rng.integers(0, 3)), int(rng.integers(0, 2))
      v = vals[int(rng.integers(0, len(vals)))]
      if r < 5:
        h.append(A(i, k))
      elif r < 7:
        h.append(Wq(i, j))
      elif r < 10:
        h.append(As(k, v))
      elif r < 13:
        h.append(U(i, v, int(rng.integers(0, 4))))
      elif r < 14:
        h.append(("local", i, ("update_from_var", v)))
      elif r < 16:
        h.append(B(i, bool(rng.integers(0, 2))))
      elif r < 17 and not is_lin:
        h.append(("local", i, ("set_use_vars", bool(rng.integers(0, 2)))))
      else:
        h.append(C(i))
    if tier == "quick" and _ % 4 == 3:
      continue   # quick budget: 30 of 40 executed (drawn all the same; trimmed when stream H was added)
    out.append(("random", kinds, h))
  return out


def stream_alias(run, tier, Q, tf, rng):
  """several quantizers + caller-owned tf.Variables, interleaved histories: the factor of a quantizer is
  private state (Sys.step / C07_multi_*)."""
  cfg = {c[0]: c for c in CONFIGS}
  xb = np.array([0.3125, -1.75, 0.5, 2.6875, -0.0625, 0.7], dtype=np.float32)
  x1 = xb[:1]
  f_init = (1.0, 0.5, 0.875)
  w_init = (0.25, 0.375)
  lines, meta = [], []
  mix_lines, mix_meta = [], []
  for label in STORAGE_CFG:
    _, cname, kw, sur, form = cfg[label]
    is_lin = form == "linear"
    s_np = sur(kw, xb)
    xq = _xq_ref(Q, cname, kw, form, xb)
    s_fr, q_fr = [core.frac(v) for v in s_np], [core.frac(v) for v in xq]
    if all(a == b for a, b in zip(s_fr, q_fr)):
      raise core.InfraError("probe input does not separate surrogate and quantized value for %s" % label)
    hists = _alias_histories(tier, rng, is_lin)
    for hi, (fam, kinds, hist) in enumerate(hists):
      use_ste = None if is_lin else bool(hi % 2)
      ste_kw = {} if use_ste is None else {"use_ste": use_ste}
      qs = []
      for i, kind in enumerate(kinds):
        q = _mk(Q, cname, kw, qnoise_factor=f_init[i], use_variables=kind.startswith("var"), **ste_kw)
        if kind.endswith("_built"):
          _call(q, x1)
        qs.append(q)
      ws = [tf.Variable(v, dtype=tf.float32, trainable=False) for v in w_init]
      init = [_obs(tf, q) for q in qs]
      # the oracle's own bookkeeping (independent of the Lean model): last value written to each quantizer,
      # value the caller gave each of its variables
      exp_q = [core.frac(v) for v in f_init]
      exp_w = [core.frac(np.float32(v)) for v in w_init]
      steps, mops, calls = [], [], []
      verdict = None       # first clause failure of this history
      for oi, op in enumerate(hist):
        k = op[0]
        exact = None
        err = None
        y = None
        try:
          if k == "upd_caller":
            qs[op[1]].update_qnoise_factor(ws[op[2]])
            exp_q[op[1]] = exp_w[op[2]]
          elif k == "upd_quant":
            qs[op[1]].update_qnoise_factor(qs[op[2]].qnoise_factor)
            exp_q[op[1]] = exp_q[op[2]]
          elif k == "assign":
            ws[op[1]].assign(op[2])
            exp_w[op[1]] = core.frac(np.float32(op[2]))
          else:
            i, o = op[1], op[2]
            if o[0] == "update":
              arg, exact = _num_arg(tf, o[1], o[2])
              qs[i].update_qnoise_factor(arg)
              exp_q[i] = exact
            elif o[0] == "update_from_var":
              qs[i].update_qnoise_factor(tf.Variable(o[1], dtype=tf.float32, trainable=False))
              exp_q[i] = core.frac(np.float32(o[1]))
            elif o[0] == "build":
              qs[i].build(var_name=None, use_variables=o[1])
            elif o[0] == "set_use_vars":
              qs[i].use_variables = o[1]
            else:
              y = _call(qs[i], xb)
        except Exception as e:  # pylint: disable=broad-except
          err = type(e).__name__
        mops.append(_mop_line(op, exact))
        ob = {"qs": [_obs(tf, q) for q in qs], "ws": [core.rj(float(w.numpy())) for w in ws], "err": err}
        steps.append(ob)
        if y is not None:
          calls.append((oi, op[1], y, ob["qs"][op[1]], exp_q[op[1]]))
        # ---- clause oracle on the real objects, after every step
        if verdict is None:
          hist_txt = "; ".join(_mop_text(o_) for o_ in hist[:oi + 1])
          setup = ("q0,q1,q2 = %s(**%r%s) in storage %s with qnoise_factor %s; w0,w1 = tf.Variable(%s), tf.Variable(%s)"
                   % (cname, kw, "" if use_ste is None else ", use_ste=%s" % use_ste, list(kinds), list(f_init),
                      w_init[0], w_init[1]))
          if err is not None:
            verdict = ("update_api_raises", {"op": k if k != "local" else op[2][0], "error": err},
                       {"cfg": label, "at": oi, "error": err, "replay": setup + "; " + hist_txt})
          for b in range(len(qs)):
            if verdict is not None:
              break
            got = core.frac(np.float32(float(core.unrj(ob["qs"][b]["v"]))))
            want = core.frac(np.float32(float(exp_q[b])))
            if got != want:
              aliased = [("w%d" % n) for n, w in enumerate(ws) if qs[b].qnoise_factor is w] + \
                        [("q%d.qnoise_factor" % n) for n, q2 in enumerate(qs)
                         if n != b and isinstance(q2.qnoise_factor, tf.Variable) and q2.qnoise_factor is qs[b].qnoise_factor]
              verdict = ("factor_is_last_value_written_to_that_quantizer",
                         {"victim_storage": init[b]["store"], "after": _culprit(op, b)},
                         {"cls": cname, "cfg": label, "family": fam, "at": oi, "quantizer": "q%d" % b,
                          "observed_qnoise_factor": float(got), "last_value_written_to_it": float(want),
                          "attribute_is_the_same_object_as": aliased,
                          "replay": "%s; %s  ->  q%d.qnoise_factor reads %s, the last value written to q%d is %s"
                                    % (setup, hist_txt, b, float(got), b, float(want))})
          for n in range(len(ws)):
            if verdict is not None:
              break
            got = core.unrj(ob["ws"][n])
            if got != exp_w[n]:
              verdict = ("callers_variable_not_modified_by_qkeras",
                         {"after": _op_kind(op)},
                         {"cls": cname, "cfg": label, "family": fam, "at": oi, "variable": "w%d" % n, "observed_value": float(got),
                          "value_the_caller_gave_it": float(exp_w[n]),
                          "replay": "%s; %s  ->  w%d holds %s, the caller last gave it %s"
                                    % (setup, hist_txt, n, float(got), float(exp_w[n]))})
          if verdict is None and y is not None:
            b = op[1]
            f = core.frac(np.float32(float(exp_q[b])))
            yi = [core.frac(v) for v in y]
            for e in range(len(yi)):
              want = s_fr[e] + f * (q_fr[e] - s_fr[e])
              if abs(yi[e] - want) > TOL_REL * (abs(s_fr[e]) + abs(q_fr[e])):
                verdict = ("call_uses_last_value_written_to_that_quantizer",
                           {"victim_storage": init[b]["store"], "form": _form_name(form, use_ste)},
                           {"cls": cname, "cfg": label, "family": fam, "at": oi, "quantizer": "q%d" % b, "x": float(xb[e]),
                            "surrogate": float(s_np[e]), "quantized": float(xq[e]), "factor_last_written": float(f),
                            "observed": float(y[e]), "expected": float(want),
                            "replay": "%s; %s  ->  q%d(%s) = %s, expected s + f*(q - s) = %s with f = %s"
                                      % (setup, hist_txt, b, float(xb[e]), float(y[e]), float(want), float(f))})
                break
      lines.append({"op": "multi", "qs": init, "ws": [core.rj(np.float32(v)) for v in w_init], "ops": mops})
      meta.append((label, cname, fam, kinds, hist, init, steps, use_ste, verdict, list(exp_q)))
      for (oi, b, y, o, f) in calls:
        mix_lines.append({"op": "mix", "form": _form_name(form, use_ste), "s": core.enc_list(s_np),
                          "q": core.enc_list(xq), "store": o["store"], "v": o["v"]})
        mix_meta.append((label, fam, kinds, hist, oi, b, y))
  outs = core.run_driver("C07", lines)
  bad_hist = set()
  for hidx, ((label, cname, fam, kinds, hist, init, steps, use_ste, verdict, exp_q), out) in enumerate(zip(meta, outs)):
    htxt = "; ".join(_mop_text(o_) for o_ in hist)
    run.case((label, kinds, use_ste, htxt),
             sample={"cfg": label, "family": fam, "storage": list(kinds), "history": htxt,
                     "final_factors": [float(core.unrj(o["v"])) for o in steps[-1]["qs"]],
                     "final_variables": [float(core.unrj(v)) for v in steps[-1]["ws"]]}
             if fam in ("shared_then_number_update", "random") and len(run.samples) < 8 and hidx % 97 == 0 else None)
    run.compared += 1
    run.count("alias_%s" % fam)
    for kind in kinds:
      run.count("alias_storage_%s" % kind)
    bad_at = None
    for oi, (o, m) in enumerate(zip(steps, out["steps"])):
      a = ([(q["store"], core.unrj(q["v"]), q["built"], q["use_vars"]) for q in o["qs"]],
           [core.unrj(v) for v in o["ws"]], o["err"] is not None)
      b = ([(q["store"], core.unrj(q["v"]), q["built"], q["use_vars"]) for q in m["qs"]],
           [core.unrj(v) for v in m["ws"]], False)
      if a != b:
        run.disagree("alias", {"cfg": label, "storage": list(kinds), "history": htxt, "at": oi,
                               "op": _mop_text(hist[oi])},
                     {"qs": o["qs"], "ws": o["ws"], "err": o["err"]}, m)
        bad_at = oi
        bad_hist.add(hidx)
        break
    # the oracle's bookkeeping and the model's projected history name the same "last value written"
    run.compared += 1
    lw = [None if v is None else core.unrj(v) for v in out["last_write"]]
    for b in range(len(lw)):
      if lw[b] is not None and core.frac(np.float32(float(lw[b]))) != core.frac(np.float32(float(exp_q[b]))):
        run.disagree("alias-last-write", {"cfg": label, "history": htxt, "quantizer": b},
                     float(exp_q[b]), float(lw[b]))
    if verdict is not None:
      clause, key, detail = verdict
      run.violate(clause, key, detail, mirrored=(bad_at is None or detail["at"] < bad_at))
  outs = core.run_driver("C07", mix_lines)
  for (label, fam, kinds, hist, oi, b, y), out in zip(mix_meta, outs):
    run.compared += 1
    run.count("alias_probe_calls")
    ym = core.dec_list(out["y"])
    yi = [core.frac(v) for v in y]
    if yi != ym:
      e = [k for k in range(len(yi)) if yi[k] != ym[k]][0]
      run.disagree("alias-call", {"cfg": label, "storage": list(kinds),
                                  "history": "; ".join(_mop_text(o_) for o_ in hist[:oi + 1]), "x": float(xb[e])},
                   float(y[e]), float(ym[e]))
  run.extra["alias_histories"] = len(lines)


# --------------------------------------------------------------------------- stream F (reuse / forms / state)

_REUSE_EXTRA = [
    ("relu_4_1_ub_offgrid", "quantized_relu", dict(bits=4, integer=1, is_quantized_clip=False, relu_upper_bound=1.45),
     _sur_relu, "two"),
    ("relu_4_1_sig", "quantized_relu", dict(bits=4, integer=1, use_sigmoid=1), _sur_relu, "two"),
]
_ARG_FORMS = {
    "int": lambda tf, v: int(v), "np.int64": lambda tf, v: np.int64(v), "np.float32": lambda tf, v: np.float32(v),
    "np.float64": lambda tf, v: np.float64(v), "ndarray0d": lambda tf, v: np.array(v),
    "ndarray0d_f32": lambda tf, v: np.array(v, dtype=np.float32),
    "tf.constant": lambda tf, v: tf.constant(v, dtype=tf.float32),
}


def _carried(name, v):
  """the exact value an argument form carries"""
  return core.frac(np.float32(v)) if name in ("np.float32", "ndarray0d_f32", "tf.constant") else core.frac(float(v))


def _call_shaped(q, x, shape):
  import tensorflow as tf
  return np.asarray(q(tf.constant(x.reshape(shape), dtype=tf.float32)).numpy(), dtype=np.float32).reshape(-1)


def stream_reuse(run, tier, Q, tf, rng):
  """cross-cutting blind spots: (1) ONE quantizer object used many times — tensors of different shape / rank,
  factor updates in every argument form, use_ste / use_variables / relu option attributes changed between
  calls, handed to a QActivation layer after stand-alone use — must behave at its k-th use exactly like a
  fresh object in the same configuration; (2) every argument form of the factor, constructor and update API;
  (3) the module-level sigmoid switch in every order around construction and use."""
  import qkeras
  cfg = {c[0]: c for c in CONFIGS}
  members = [cfg[l] for l in STORAGE_CFG + ["relu_4_1_ub", "bits_4_0_auto", "bits_5_1_alpha2"]] + _REUSE_EXTRA
  xb = np.array([0.3125, -1.75, 0.5, 2.6875, -0.0625, 0.7, 1.4453125, 0.9375], dtype=np.float32)
  shapes = [(8,), (2, 4), (1, 2, 4), (2, 1, 4, 1), (4, 2), (8, 1), (1, 1, 2, 2, 2)]
  vals = [0.25, 0.75, 0.5, 0.0, 1.0, 0.3, 0.625]

  def twin_out(cname, kw, form, ste, store_var, fval, shape):
    ste_kw = {} if ste is None else {"use_ste": ste}
    t = _mk(Q, cname, kw, qnoise_factor=fval, use_variables=store_var, **ste_kw)
    return _call_shaped(t, xb, shape)

  def xq_ref(cname, kw, form, shape):
    if form == "linear":
      q = _mk(Q, cname, kw)
      q._build()
      xx = tf.constant(xb.reshape(shape), dtype=tf.float32)
      return np.asarray((q._scale_clip_and_round(xx, q.quantization_scale) * q.quantization_scale).numpy(),
                        dtype=np.float32).reshape(-1)
    return _call_shaped(_mk(Q, cname, kw, qnoise_factor=1.0, use_ste=False), xb, shape)

  # ---- (1) histories on one object
  lines, meta = [], []
  n_hist = 2 if tier == "quick" else 8
  for label, cname, kw0, sur, form in members:
    is_lin = form == "linear"
    for hi in range(n_hist):
      for ste0 in _forms(form):
        kw = dict(kw0)
        ste = ste0
        ste_kw = {} if ste is None else {"use_ste": ste}
        f0 = [1.0, 0.5][hi % 2]
        q = _mk(Q, cname, kw, qnoise_factor=f0, use_variables=bool(hi % 2 and hi % 3), **ste_kw)
        init = _obs(tf, q)
        cur = core.frac(f0)
        # history: a probe after every reconfiguration
        ops = []
        n = 9 if tier == "quick" else 14
        for j in range(n):
          r = int(rng.integers(0, 12))
          if r < 3:
            ops.append(("update", vals[int(rng.integers(0, len(vals)))], int(rng.integers(0, 4))))
          elif r < 4:
            ops.append(("update_from_var", vals[int(rng.integers(0, len(vals)))]))
          elif r < 6 and not is_lin:
            ops.append(("flip_ste",))
          elif r < 7:
            ops.append(("build", bool(rng.integers(0, 2))))
          elif r < 8 and not is_lin:
            ops.append(("set_use_vars", bool(rng.integers(0, 2))))
          elif r < 10 and cname == "quantized_relu" and not kw.get("use_sigmoid"):
            ops.append(("set_attr",) + [("relu_upper_bound", 1.45), ("relu_upper_bound", None), ("is_quantized_clip", False),
                                        ("is_quantized_clip", True), ("negative_slope", 0.25),
                                        ("relu_upper_bound", 0.95)][int(rng.integers(0, 6))])
          elif r < 11:
            ops.append(("layer", int(rng.integers(0, len(shapes)))))
          ops.append(("call", int(rng.integers(0, len(shapes)))))
        steps, sops = [], []
        verdict = None
        prev = "construction"
        for oi, op in enumerate(ops):
          k = op[0]
          err = None
          y = None
          try:
            if k == "update":
              arg, exact = _num_arg(tf, op[1], op[2])
              q.update_qnoise_factor(arg)
              cur = exact
              sops.append({"op": "update", "v": core.rj(exact)})
            elif k == "update_from_var":
              q.update_qnoise_factor(tf.Variable(op[1], dtype=tf.float32, trainable=False))
              cur = core.frac(np.float32(op[1]))
              sops.append(_op_line(op))
            elif k == "flip_ste":
              ste = not ste
              q.use_ste = ste
            elif k == "build":
              q.build(var_name=None, use_variables=op[1])
              sops.append(_op_line(op))
            elif k == "set_use_vars":
              q.use_variables = op[1]
              sops.append(_op_line(op))
            elif k == "set_attr":
              setattr(q, op[1], op[2])
              if op[2] is None:
                kw.pop(op[1], None)
              else:
                kw[op[1]] = op[2]
            elif k == "layer":
              lay = qkeras.QActivation(q)
              y = np.asarray(lay(tf.constant(xb.reshape(shapes[op[1]]), dtype=tf.float32)).numpy(),
                             dtype=np.float32).reshape(-1)
              sops.append({"op": "call"})
            else:
              y = _call_shaped(q, xb, shapes[op[1]])
              sops.append({"op": "call"})
          except Exception as e:  # pylint: disable=broad-except
            err = type(e).__name__ + ": " + str(e)[:120]
          if k not in ("flip_ste", "set_attr"):
            o = _obs(tf, q)
            o["raised"] = err is not None
            steps.append(o)
          if verdict is None and err is not None:
            verdict = ("reused_object_raises", {"cls": cname, "op": k, "after": prev},
                       {"cfg": label, "ops": [list(o_) for o_ in ops[:oi + 1]], "error": err,
                        "replay": "q = %s(**%r, qnoise_factor=%r%s); %s -> raises %s (call / layer operands: x=%r "
                                  "reshaped to shapes[i], shapes=%r)"
                                  % (cname, kw0, f0, "" if ste0 is None else ", use_ste=%s" % ste0,
                                     "; ".join(str(o_) for o_ in ops[:oi + 1]), err, xb.tolist(), shapes)})
          if verdict is None and y is not None:
            shape = shapes[op[1]]
            store_var = isinstance(q.qnoise_factor, tf.Variable)
            fval = float(np.float32(float(cur))) if store_var else float(cur)
            yt = twin_out(cname, kw, form, ste, store_var, fval, shape)
            replay = ("q = %s(**%r, qnoise_factor=%r%s); %s -> element-wise on x=%r reshaped to %r"
                      % (cname, kw0, f0, "" if ste0 is None else ", use_ste=%s" % ste0,
                         "; ".join(str(o_) for o_ in ops[:oi + 1]), xb.tolist(), shape))
            if y.shape != yt.shape:
              verdict = ("kth_use_equals_fresh_object", {"cls": cname, "route": k, "after": prev},
                         {"cfg": label, "observed_number_of_elements": int(y.size), "fresh_object": int(yt.size),
                          "input_shape": list(shape), "factor_now": float(cur), "use_ste_now": ste, "replay": replay})
            elif not np.array_equal(y, yt):
              e = int(np.flatnonzero(y != yt)[0])
              verdict = ("kth_use_equals_fresh_object", {"cls": cname, "route": k, "after": prev},
                         {"cfg": label, "x": float(xb[e]), "observed": float(y[e]), "fresh_object": float(yt[e]),
                          "configuration_now": {kk: (float(v) if isinstance(v, np.floating) else v) for kk, v in kw.items()},
                          "factor_now": float(cur), "use_ste_now": ste, "replay": replay})
            else:
              s_np = sur(kw, xb)
              xq = xq_ref(cname, kw, form, shape)
              f = core.frac(np.float32(float(cur)))
              for e in range(len(xb)):
                s_i, q_i, y_i = core.frac(s_np[e]), core.frac(xq[e]), core.frac(y[e])
                if abs(y_i - (s_i + f * (q_i - s_i))) > TOL_REL * (abs(s_i) + abs(q_i)):
                  verdict = ("kth_use_interpolates", {"cls": cname, "route": k, "after": prev},
                             {"cfg": label, "x": float(xb[e]), "observed": float(y[e]), "surrogate": float(s_np[e]),
                              "quantized": float(xq[e]), "factor_now": float(f),
                              "expected": float(s_i + f * (q_i - s_i)), "replay": replay})
                  break
          if k != "call":
            prev = k if k != "set_attr" else "set_" + op[1]
          elif k == "call":
            prev = "call_rank%d" % len(shapes[op[1]])
        lines.append({"op": "storage", "init": init, "ops": sops})
        meta.append((label, cname, ops, init, steps, verdict))
  outs = core.run_driver("C07", lines)
  for (label, cname, ops, init, steps, verdict), out in zip(meta, outs):
    run.case(("reuse", label, init["store"], init["use_vars"], repr(ops)),
             sample={"cfg": label, "history_on_one_object": [list(o_) for o_ in ops]} if len(run.samples) < 8 and
             label == "relu_4_1_ub_offgrid" else None)
    run.compared += 1
    run.count("reuse_histories")
    for op in ops:
      run.count("reuse_op_%s" % (op[0] if op[0] != "call" else "call_rank%d" % len(shapes[op[1]])))
    mirrored = True
    for oi, (o, m) in enumerate(zip(steps, out["steps"])):
      a = (o["store"], core.unrj(o["v"]), o["built"], o["use_vars"], o["raised"])
      b = (m["store"], core.unrj(m["v"]), m["built"], m["use_vars"], m["raised"])
      if a != b:
        run.disagree("reuse-storage", {"cfg": label, "init": init, "ops": [list(o_) for o_ in ops], "at": oi}, o, m)
        mirrored = False
        break
    if verdict is not None:
      run.violate(verdict[0], verdict[1], verdict[2], mirrored=mirrored)

  # ---- (2) argument forms of the factor: same value => same output as the python-float twin
  n_forms = 0
  for label in STORAGE_CFG:
    _, cname, kw, sur, form = cfg[label]
    for ste in _forms(form):
      ste_kw = {} if ste is None else {"use_ste": ste}
      for v in (1.0, 0.0, 0.25, 0.3):
        for name, fn in _ARG_FORMS.items():
          if name in ("int", "np.int64") and v not in (0.0, 1.0):
            continue
          if v == 0.0 and name not in ("int", "np.int64", "ndarray0d"):
            continue
          car = _carried(name, v)
          for route in ("ctor", "upd_py", "upd_var"):
            n_forms += 1
            run.case(("form", label, ste, v, name, route))
            run.compared += 1
            run.count("form_%s_%s" % (name, route))
            key = {"form": name, "route": route}
            try:
              if route == "ctor":
                q = _mk(Q, cname, kw, qnoise_factor=fn(tf, v), **ste_kw)
              elif route == "upd_py":
                q = _mk(Q, cname, kw, **ste_kw)
                q.update_qnoise_factor(fn(tf, v))
              else:
                q = _mk(Q, cname, kw, use_variables=True, **ste_kw)
                _call(q, xb[:1])
                q.update_qnoise_factor(fn(tf, v))
              y = _call(q, xb)
              got = core.unrj(_obs(tf, q)["v"])
            except Exception as e:  # pylint: disable=broad-except
              run.violate("argument_form_raises", dict(key, error=type(e).__name__),
                          {"cfg": label, "value": v, "error": repr(e)[:200],
                           "replay": "%s(**%r) with qnoise_factor %s(%r) through %s" % (cname, kw, name, v, route)},
                          mirrored=False)
              continue
            store_var = route == "upd_var"
            yt = _call(_mk(Q, cname, kw, qnoise_factor=float(car), use_variables=store_var, **ste_kw), xb)
            want = core.frac(np.float32(float(car))) if store_var else car
            if not np.array_equal(y, yt) or core.frac(np.float32(float(got))) != core.frac(np.float32(float(want))):
              e = int(np.flatnonzero(y != yt)[0]) if not np.array_equal(y, yt) else 0
              run.violate("argument_form_same_value_same_behaviour", key,
                          {"cfg": label, "value": v, "x": float(xb[e]), "observed": float(y[e]),
                           "python_float_twin": float(yt[e]), "factor_read_back": float(got),
                           "replay": "%s(**%r) with qnoise_factor %s(%r) through %s, use_ste=%s"
                                     % (cname, kw, name, v, route, ste)}, mirrored=False)
  run.extra["argument_form_cases"] = n_forms

  # ---- (3) module-level sigmoid switch around a sigmoid-shaped relu, every order; default restored
  sig_cfgs = [dict(bits=4, integer=1, use_sigmoid=1), dict(bits=6, integer=2, use_sigmoid=1, negative_slope=0.25)]
  xs = np.array([j / 8.0 for j in range(-20, 21)], dtype=np.float32)
  try:
    for kw in sig_cfgs:
      for ste in (True, False):
        for first, second in (("hard", "smooth"), ("smooth", "real"), ("real", "hard"), ("hard", "hard")):
          for order in ("switch_construct_use", "construct_switch_use", "use_switch_use"):
            run.case(("sigmoid", repr(kw), ste, first, second, order))
            run.compared += 1
            run.count("sigmoid_state_%s" % order)
            Q.set_internal_sigmoid(first)
            objs = {f: Q.quantized_relu(qnoise_factor=f, use_ste=ste, **kw) for f in (0.0, 0.5, 0.3, 1.0)}
            if order == "switch_construct_use":
              Q.set_internal_sigmoid(second)
              objs = {f: Q.quantized_relu(qnoise_factor=f, use_ste=ste, **kw) for f in (0.0, 0.5, 0.3, 1.0)}
            elif order == "construct_switch_use":
              Q.set_internal_sigmoid(second)
            else:
              for o_ in objs.values():
                _call(o_, xs)
              Q.set_internal_sigmoid(second)
            ys = {f: _call(o_, xs) for f, o_ in objs.items()}
            # fresh objects under the CURRENT setting give the two ends
            o0 = _call(Q.quantized_relu(qnoise_factor=0.0, use_ste=ste, **kw), xs)
            o1 = _call(Q.quantized_relu(qnoise_factor=1.0, use_ste=False, **kw), xs)
            s_np = _sur_relu(kw, xs)
            key = {"state": "internal_sigmoid", "order": order}
            det = {"kwargs": kw, "use_ste": ste, "mode_at_construction": first, "mode_at_use": second}
            if not np.array_equal(o0, s_np):
              e = int(np.flatnonzero(o0 != s_np)[0])
              run.violate("f0_returns_surrogate", key, dict(det, x=float(xs[e]), observed=float(o0[e]),
                                                           expected=float(s_np[e])), mirrored=False)
              continue
            for f, y in ys.items():
              fe = core.frac(np.float32(f))
              bad = None
              for e in range(len(xs)):
                a0, a1, y_i = core.frac(o0[e]), core.frac(o1[e]), core.frac(y[e])
                if abs(y_i - (a0 + fe * (a1 - a0))) > TOL_REL * (abs(a0) + abs(a1)):
                  bad = (e, a0 + fe * (a1 - a0))
                  break
              if bad is not None:
                e, want = bad
                run.violate("interpolates_under_current_process_state", key,
                            dict(det, f=f, x=float(xs[e]), observed=float(y[e]), expected=float(want),
                                 out_f0_now=float(o0[e]), out_f1_now=float(o1[e])), mirrored=False)
                break
  finally:
    Q.set_internal_sigmoid("hard")


# --------------------------------------------------------------------------- stream G (compiled calls)

class _ModeBook:
  """the clause oracle's own bookkeeping of one quantizer (no model involved): which value was written last,
  and whether the quantizer is in variable-backed mode — entered by `build(use_variables=True)` or by the first
  call of a quantizer whose `use_variables` is on, never left again"""

  def __init__(self, f0, use_vars):
    self.f = f0
    self.use_vars = bool(use_vars)
    self.built = False
    self.var_mode = False
    self.how = None          # how the Variable came to be: explicit_build / first_eager_call / first_compiled_call
    self.f_at_build = None

  def _enter(self, how):
    self.var_mode = True
    self.how = how
    self.f_at_build = self.f

  def op(self, op):
    k = op[0]
    if k == "build":
      if op[1]:
        self._enter("explicit_build")
      self.built = True
    elif k in ("update", "update_from_var"):
      self.f = op[1]
    elif k == "set_use_vars":
      self.use_vars = bool(op[1])
    elif k in ("call", "ccall"):
      if not self.built:
        if self.use_vars:
          self._enter("first_eager_call" if k == "call" else "first_compiled_call")
        self.built = True


def _gop_line(op):
  return {"op": "ccall"} if op[0] == "ccall" else _op_line(op)


def _gop_text(op):
  k = op[0]
  if k == "build":
    return "q.build(use_variables=%r)" % op[1]
  if k == "update":
    return "q.update_qnoise_factor(%r)" % op[1]
  if k == "update_from_var":
    return "q.update_qnoise_factor(tf.Variable(%r))" % op[1]
  if k == "set_use_vars":
    return "q.use_variables = %r" % op[1]
  if k == "ccall":
    return "y = fn(x)"
  return "q(x)"


G_X = np.array([0.3125, -1.75, 0.5, 2.6875, -0.0625, 0.7, 0.13, -0.61, 0.93, 1.7, 0.0, -1.3], dtype=np.float32)


def _judge_mix(y, s_np, xq, f, fname):
  """out = s + f*(q - s) on the real output, exact rationals: exactly where every float32 step of the chain is
  exact (decided here, not by the model), within the stated tolerance elsewhere.  Returns None or (i, want, kind)"""
  fe = core.frac(np.float32(f))
  for i in range(len(y)):
    s_i, q_i, y_i = core.frac(s_np[i]), core.frac(xq[i]), core.frac(y[i])
    want = s_i + fe * (q_i - s_i)
    if _chain_exact(s_i, q_i, fe, fname):
      if y_i != want:
        return i, want, "exact"
    elif abs(y_i - want) > TOL_REL * (abs(s_i) + abs(q_i)):
      return i, want, "tol"
  return None


def _compiled_refs(run, tf, Q, label, cname, kw, sur, form, x, xt):
  """surrogate and quantized value as a GRAPH computes them (python-number factors 0 / 1 baked in: `s + 0*(..)` and
  `0*s + xq` are exact).  They equal the eager / analytic references bit for bit except where graph optimisation
  rewrites the surrogate itself (quantized_hswish: `x * relu / 6` becomes a multiplication by the reciprocal, one
  ulp) — stated tolerance 2^-22 relative for that reference only; the mix is judged against these values."""
  s_np = sur(kw, x)
  q0 = _mk(Q, cname, kw, qnoise_factor=0.0)
  s_c = np.asarray(tf.function(lambda t: q0(t))(xt).numpy(), dtype=np.float32).reshape(-1)
  if form == "linear":
    xq_c = _xq_ref(Q, cname, kw, form, x)
  else:
    q1 = _mk(Q, cname, kw, qnoise_factor=1.0, use_ste=False)
    xq_c = np.asarray(tf.function(lambda t: q1(t))(xt).numpy(), dtype=np.float32).reshape(-1)
  xq = _xq_ref(Q, cname, kw, form, x)
  run.compared += 2
  for name, a, b in (("surrogate", s_c, s_np), ("quantized", xq_c, xq)):
    for i in range(len(x)):
      fa, fb = core.frac(a[i]), core.frac(b[i])
      ok = fa == fb if cname != "quantized_hswish" else abs(fa - fb) <= TOL_REL * abs(fb)
      if not ok:
        run.violate("f0_returns_surrogate" if name == "surrogate" else "f1_returns_quantized",
                    {"cls": cname, "cfg": label, "form": "ste" if name == "surrogate" else "noste", "route": "compiled_ctor_py"},
                    {"x": float(x[i]), "observed_compiled": float(a[i]), "expected": float(b[i]),
                     "replay": "tf.function(%s(**%r, qnoise_factor=%s))(x)" % (cname, kw, "0.0" if name == "surrogate" else "1.0, use_ste=False")},
                    mirrored=False)
        break
  return s_c, xq_c


def stream_compiled(run, tier, Q, tf, rng):
  """the quantizer called from a tf.function (traced once), as the Keras train step does"""
  cfg = {c[0]: c for c in CONFIGS}
  x = G_X
  xt = tf.constant(x, dtype=tf.float32)
  logger = tf.get_logger()
  old_level = logger.level
  logger.setLevel("ERROR")      # tf.function's "retracing" advice: every history makes its own function
  f0s = [(0.0, "0.0"), (0.25, "0.25"), (1.0, "1.0")]
  f0_forms = {0.0: [0.0, 0, np.float32(0.0), np.float64(0.0)]}   # the falsy value in several argument forms
  routes = ["ctor", "update_before_call", "set_use_variables", "explicit_build", "update_then_explicit_build"]
  tail_fixed = [("ccall",), ("update", 0.5), ("ccall",), ("update", 0.3), ("ccall",), ("call",), ("update", 1.0),
                ("ccall",), ("update", 0.0), ("ccall",), ("update_from_var", 0.75), ("ccall",)]
  rand_alpha = [("update", 0.25), ("update", 0.7), ("update", 1.0), ("update", 0.0), ("update_from_var", 0.625),
                ("call",), ("ccall",), ("ccall",), ("build", False), ("set_use_vars", False), ("set_use_vars", True),
                ("build", True)]
  n_rand = 4 if tier == "quick" else 40
  lines, meta = [], []
  n_hist = 0
  refs = {}
  for label in STORAGE_CFG:
    _, cname, kw, sur, form = cfg[label]
    s_np, xq = _compiled_refs(run, tf, Q, label, cname, kw, sur, form, x, xt)
    refs[label] = (s_np, xq)
    hists = []
    for ri, route in enumerate(routes):
      for fi, (f0, _) in enumerate(f0s):
        for ti, timing in enumerate(("trace_first", "eager_first")):
          if timing == "eager_first" and (ri + fi) % 3:
            continue
          hists.append((route, f0, timing, list(tail_fixed), True))
    for k in range(n_rand):
      route = routes[int(rng.integers(0, len(routes)))]
      f0 = [0.0, 0.25, 1.0, 0.0][int(rng.integers(0, 4))]
      n = int(rng.integers(6, 11))
      tail = [rand_alpha[int(i)] for i in rng.integers(0, len(rand_alpha), size=n)] + [("ccall",)]
      hists.append((route, f0, "trace_first", tail, bool(k % 2)))
    # python mode at trace time (use_variables off): the graph legitimately bakes the number in — model tie only
    hists.append(("python_mode", 0.25, "trace_first", list(tail_fixed), False))
    hists.append(("python_mode", 0.0, "trace_first", [("ccall",), ("update", 0.5), ("ccall",), ("build", True),
                                                       ("update", 1.0), ("ccall",), ("call",)], False))
    for hi, (route, f0, timing, tail, var_ctor) in enumerate(hists):
      use_ste = None if form == "linear" else bool(hi % 2)
      fname = _form_name(form, use_ste)
      ste_kw = {} if use_ste is None else {"use_ste": use_ste}
      f0_arg = f0
      if f0 in f0_forms:
        f0_arg = f0_forms[f0][hi % len(f0_forms[f0])]
      pre = []
      if route == "ctor":
        q = _mk(Q, cname, kw, qnoise_factor=f0_arg, use_variables=True, **ste_kw)
        ctor_txt = "qnoise_factor=%r, use_variables=True" % (f0_arg,)
        book = _ModeBook(f0, True)
      elif route == "update_before_call":
        q = _mk(Q, cname, kw, use_variables=True, **ste_kw)
        ctor_txt = "use_variables=True"
        book = _ModeBook(1.0, True)
        pre = [("update", f0)]
      elif route == "set_use_variables":
        q = _mk(Q, cname, kw, qnoise_factor=f0_arg, **ste_kw)
        ctor_txt = "qnoise_factor=%r" % (f0_arg,)
        book = _ModeBook(f0, False)
        pre = [("set_use_vars", True)]
      elif route == "explicit_build":
        q = _mk(Q, cname, kw, qnoise_factor=f0_arg, **ste_kw)
        ctor_txt = "qnoise_factor=%r" % (f0_arg,)
        book = _ModeBook(f0, False)
        pre = [("build", True)]
      elif route == "update_then_explicit_build":
        q = _mk(Q, cname, kw, **ste_kw)
        ctor_txt = ""
        book = _ModeBook(1.0, False)
        pre = [("update", f0), ("build", True)]
      else:
        q = _mk(Q, cname, kw, qnoise_factor=f0_arg, **ste_kw)
        ctor_txt = "qnoise_factor=%r" % (f0_arg,)
        book = _ModeBook(f0, False)
      if timing == "eager_first":
        pre = pre + [("call",)]
      ops = pre + tail
      init = _obs(tf, q)
      fn = tf.function(lambda t, q=q: q(t))
      steps, outs_c = [], []
      traced_var_mode = None      # was the quantizer in variable mode when the function was traced
      rebuilt_after_trace = False
      text = ["q = %s(**%r%s%s)" % (cname, kw, ", " if ctor_txt else "", ctor_txt) +
              ("" if use_ste is None else "; q.use_ste = %r" % use_ste),
              "fn = tf.function(lambda x: q(x))"]
      failed = failed_storage = False
      for oi, op in enumerate(ops):
        text.append(_gop_text(op))
        err, y = None, None
        try:
          if op[0] == "ccall":
            y = np.asarray(fn(xt).numpy(), dtype=np.float32).reshape(-1)
          else:
            err = _apply(tf, q, op, x[:1], flip=bool((hi + oi) % 2))
        except Exception as e:  # pylint: disable=broad-except
          err = type(e).__name__ + ": " + repr(e)[:160]
        book.op(op)
        o = _obs(tf, q)
        o["raised"] = err is not None
        steps.append(o)
        outs_c.append(y)
        if op[0] == "build" and op[1] and traced_var_mode is not None:
          rebuilt_after_trace = True
        if op[0] == "ccall" and traced_var_mode is None and err is None:
          traced_var_mode = book.var_mode
        if failed:
          continue
        kbase = {"cls": cname, "route": route}
        hist_txt = "; ".join(text)
        if err is not None:
          run.violate("compiled_or_update_api_raises", dict(kbase, op=op[0]),
                      {"cfg": label, "form": fname, "history": hist_txt, "error": err}, mirrored=False)
          failed = True
          continue
        # (1) storage kind: in variable-backed mode the factor is held in a tf.Variable, whatever its value
        if book.var_mode and o["store"] != "var" and not failed_storage:
          failed_storage = True
          run.violate("factor_held_in_variable_in_use_variables_mode",
                      {"how": book.how, "factor_at_build": _fclass(book.f_at_build)},
                      {"cls": cname, "cfg": label, "form": fname, "history": hist_txt,
                       "observed_attribute": "python number %r" % float(core.unrj(o["v"])),
                       "expected": "tf.Variable holding %r" % float(np.float32(book.f)),
                       "factor_when_variable_should_have_been_made": book.f_at_build}, mirrored=False)
          # not the end of the history: the behavioural clause below is judged on its own
        # (2) the attribute reads the last value written
        if core.frac(np.float32(float(core.unrj(o["v"])))) != core.frac(np.float32(book.f)):
          run.violate("next_call_reads_last_write", {"cls": cname, "final_store": o["store"]},
                      {"cfg": label, "history": hist_txt, "observed_factor": float(core.unrj(o["v"])),
                       "expected_factor": float(np.float32(book.f))}, mirrored=False)
          failed = True
          continue
        # (3) the compiled function follows the update API (variable mode at trace time, no explicit re-build since)
        if op[0] == "ccall" and traced_var_mode and not rebuilt_after_trace:
          run.count("compiled_judged_f%s" % _fclass(book.f))
          bad = _judge_mix(y, s_np, xq, book.f, fname)
          if bad is not None:
            i, want, kind = bad
            run.violate("compiled_call_follows_update_api",
                        {"cls": cname, "route": route},
                        {"cfg": label, "form": fname, "history": hist_txt, "f_class": _fclass(book.f), "x": float(x[i]), "factor_last_written": book.f,
                         "attribute_reads": float(core.unrj(o["v"])), "attribute_kind": o["store"],
                         "surrogate": float(s_np[i]), "quantized": float(xq[i]), "observed": float(y[i]),
                         "expected": float(want), "regime": kind}, mirrored=False)
            failed = True
      n_hist += 1
      lines.append({"op": "compiled", "init": init, "ops": [_gop_line(op) for op in ops]})
      meta.append((label, cname, fname, route, f0, ops, init, steps, outs_c, s_np, xq, "; ".join(text)))
  outs = core.run_driver("C07", lines)
  mix_lines, mix_meta = [], []
  for (label, cname, fname, route, f0, ops, init, steps, outs_c, s_np, xq, text), out in zip(meta, outs):
    skey = "|".join("%s%s" % (op[0][0] + op[0][-1], "" if len(op) == 1 else op[1]) for op in ops)
    run.case(("compiled", label, fname, route, repr(f0), skey),
             sample={"stream": "compiled", "history": text} if n_hist and len(run.samples) < 7 else None)
    run.compared += 1
    stores = []
    ok = True
    for oi, (o, m) in enumerate(zip(steps, out["steps"])):
      run.count("compiled_cap_%s" % m["cap"])
      a = (o["store"], core.unrj(o["v"]), o["built"], o["use_vars"])
      b = (m["store"], core.unrj(m["v"]), m["built"], m["use_vars"])
      if a != b or o["raised"]:
        run.disagree("compiled-state", {"cfg": label, "route": route, "history": text, "at": oi},
                     {k: o[k] for k in ("store", "v", "built", "use_vars", "raised")},
                     {k: m[k] for k in ("store", "v", "built", "use_vars", "cap")})
        ok = False
        break
      if ops[oi][0] == "ccall" and outs_c[oi] is not None:
        stores.append((oi, {"store": m["cstore"], "v": m["cstore_v"]}, m["cap"]))
    if ok and stores:
      mix_lines.append({"op": "mix_many", "form": fname, "s": core.enc_list(s_np), "q": core.enc_list(xq),
                        "stores": [st for _, st, _ in stores]})
      mix_meta.append((label, route, text, stores, outs_c))
  outs = core.run_driver("C07", mix_lines)
  for (label, route, text, stores, outs_c), out in zip(mix_meta, outs):
    for (oi, st, cap), ym in zip(stores, out["ys"]):
      run.compared += 1
      ym = core.dec_list(ym)
      yi = [core.frac(v) for v in outs_c[oi]]
      if yi != ym:
        i = [k for k in range(len(yi)) if yi[k] != ym[k]][0]
        run.disagree("compiled-output", {"cfg": label, "route": route, "history": text, "at": oi, "capture": cap,
                                         "graph_factor_storage": st, "x": float(G_X[i])},
                     float(outs_c[oi][i]), float(ym[i]))
        break
  run.extra["compiled_histories"] = n_hist

  # ---- the Keras route: QActivation in a model, QNoiseScheduler hooks, a compiled train step
  from qkeras import QActivation
  from qkeras.callbacks import QNoiseScheduler
  n_steps = 0
  for li, label in enumerate(STORAGE_CFG):
    _, cname, kw, sur, form = cfg[label]
    s_np, xq = refs[label]
    for shape_known in (False, True):
      for use_ste in ([None] if form == "linear" else [bool((li + int(shape_known)) % 2)]):
        # the scheduler sets use_ste itself
        fname = _form_name(form, use_ste)
        q = _mk(Q, cname, kw)
        layers = [QActivation(q)]
        if shape_known:
          layers = [tf.keras.layers.InputLayer(input_shape=(len(x),))] + layers
        model = tf.keras.Sequential(layers)
        start, finish, exponent = 1, 3 + li % 2, [2.0, 1.0, 3.0][li % 3]
        cb = QNoiseScheduler(start=start, finish=finish, freq_type="step", exponent=exponent,
                             **({} if use_ste is None else {"use_ste": use_ste}))
        cb.set_model(model)
        txt = ("Sequential([%sQActivation(%s(**%r))]); QNoiseScheduler(start=%d, finish=%d, freq_type='step', "
               "exponent=%r%s); on_train_begin(); train_step = tf.function(lambda x: model(x, training=True)); per "
               "step: on_train_batch_begin(step); train_step(x)"
               % ("InputLayer, " if shape_known else "", cname, kw, start, finish, exponent,
                  "" if use_ste is None else ", use_ste=%r" % use_ste))
        key = {"cls": cname, "model_built_before_training": shape_known}
        try:
          cb.on_train_begin()
          step_fn = tf.function(lambda t, model=model: model(t, training=True))
          prev = None
          storage_reported = False
          for step in range(finish + 2):
            cb.on_train_batch_begin(step)
            y = np.asarray(step_fn(xt[None, :]).numpy(), dtype=np.float32).reshape(-1)
            n_steps += 1
            run.case(("compiled-keras", label, shape_known, step))
            fcb = float(cb.qnoise_factor)
            o = _obs(tf, q)
            if o["store"] != "var" and not storage_reported:
              storage_reported = True
              run.violate("factor_held_in_variable_in_use_variables_mode",
                          {"how": "scheduler_then_first_compiled_call" if not shape_known else "scheduler_rebuild",
                           "factor_at_build": "0" if not shape_known else "1"},
                          {"history": txt, "step": step, "observed_attribute": "python number %r" % float(core.unrj(o["v"]))},
                          mirrored=False)
            if step < start and fcb != 0.0 or step >= finish and fcb != 1.0 or (prev is not None and fcb < prev):
              run.violate("scheduled_factor_shape", key, {"history": txt, "step": step, "factor": fcb,
                                                          "previous": prev}, mirrored=False)
              break
            prev = fcb
            bad = _judge_mix(y, s_np, xq, fcb, fname)
            if bad is not None:
              i, want, kind = bad
              run.violate("compiled_train_step_follows_scheduled_factor", key,
                          {"history": txt, "step": step, "scheduled_factor": fcb,
                           "attribute_reads": float(core.unrj(o["v"])), "x": float(x[i]), "surrogate": float(s_np[i]),
                           "quantized": float(xq[i]), "observed": float(y[i]), "expected": float(want),
                           "regime": kind}, mirrored=False)
              break
        except Exception as e:  # pylint: disable=broad-except
          run.violate("hook_raises", {"hook": "compiled_train_step", "model": "QActivation_%s" % cname,
                                      "error": type(e).__name__}, {"history": txt, "error": repr(e)[:200]},
                      mirrored=False)
  run.extra["compiled_keras_steps"] = n_steps
  logger.setLevel(old_level)


# --------------------------------------------------------------------------- stream H (calls along a history)

_H_EXTRA = [
    # data-dependent scale (the paths an "identity fast path" would skip): judged against the fresh twin only
    ("linear_4_0_auto_po2", "quantized_linear", dict(bits=4, integer=0, symmetric=1, alpha="auto_po2"), _sur_id, "linear"),
]
_H_SEQS = [(0.0, 0.25), (1.0, 0.3), (0.25, 0.0), (0.3, 1.0), (0.0, 1.0), (1.0, 0.0), (0.25, 0.3), (0.5,)]
_H_FIRST = ("call", "build_F", "build_T", "layer", "none")
_H_ZERO = (lambda: 0.0, lambda: 0, lambda: np.float32(0), lambda: np.float64(0))


def _h_text(cname, kw, ctor, ops, shapes):
  out = ["q = %s(**%r, %s)" % (cname, kw, ", ".join("%s=%r" % kv for kv in ctor.items()))]
  for op in ops:
    k = op[0]
    if k == "call":
      out.append("y = q(x.reshape%r)" % (shapes[op[1]],))
    elif k == "layer":
      out.append("y = QActivation(q)(x.reshape%r)" % (shapes[op[1]],))
    elif k == "bystander":
      out.append("%s(**%r, qnoise_factor=%r)(x)  # another object of the class" % (cname, kw, op[1]))
    else:
      out.append(_gop_text(op))
  return "; ".join(out)


def stream_history(run, tier, Q, tf, rng):
  """the values returned by ALL calls of a history on one object: the factor in force at a call is the last value
  written before it, whatever the factor was when the object was constructed / built / first called / last updated.
  Boundary factors 0 and 1 (where an implementation is tempted to skip the mix or the quantization) at every such
  moment, then updates away from and back to them; both storages; all six classes, every return form."""
  import qkeras
  cfg = {c[0]: c for c in CONFIGS}
  members = [cfg[l] for l in STORAGE_CFG] + _H_EXTRA
  xb = np.array([0.3125, -1.75, 0.5, 2.6875, -0.0625, 0.7, 1.4453125, 0.9375], dtype=np.float32)
  shapes = [(8,), (2, 4)]
  rot = int(rng.integers(0, len(_H_SEQS)))
  n_seq = 3 if tier == "quick" else len(_H_SEQS)
  twins, refs = {}, {}

  def ref(label, cname, kw, form, si):
    if (label, si) not in refs:
      xq = None
      if kw.get("alpha") is None:
        if form == "linear":
          t = _mk(Q, cname, kw)
          t._build()
          xx = tf.constant(xb.reshape(shapes[si]), dtype=tf.float32)
          xq = np.asarray((t._scale_clip_and_round(xx, t.quantization_scale) * t.quantization_scale).numpy(),
                          dtype=np.float32).reshape(-1)
        else:
          xq = _call_shaped(_mk(Q, cname, kw, qnoise_factor=1.0, use_ste=False), xb, shapes[si])
      refs[(label, si)] = xq
    return refs[(label, si)]

  def twin(label, cname, kw, ste, store_var, fval, si):
    key = (label, ste, store_var, repr(fval), si)
    if key not in twins:
      ste_kw = {} if ste is None else {"use_ste": ste}
      twins[key] = _call_shaped(_mk(Q, cname, kw, qnoise_factor=fval, use_variables=store_var, **ste_kw), xb, shapes[si])
    return twins[key]

  lines, meta = [], []
  n_hist = n_calls = 0
  for label, cname, kw, sur, form in members:
    s_np = sur(kw, xb)
    tie = kw.get("alpha") is None
    for ste in _forms(form):
      fname = _form_name(form, ste)
      ste_kw = {} if ste is None else {"use_ste": ste}
      ci = 0
      for f_init in (0.0, 1.0, 0.5):
        for use_vars in (False, True):
          if tier == "quick" and use_vars and f_init == 0.5:
            continue      # quick: Variable storage only with the boundary constructor factors
          for first in _H_FIRST:
            ci += 1
            for k in range(n_seq):
              seq = _H_SEQS[(rot + ci + k * 2 + (k // 4)) % len(_H_SEQS)]
              hi = n_hist
              n_hist += 1
              f_arg = _H_ZERO[hi % 4]() if f_init == 0.0 else f_init
              ctor = dict(qnoise_factor=f_arg, use_variables=use_vars, **ste_kw)
              ops = []
              if first == "call":
                ops.append(("call", hi % 2))
              elif first == "build_F":
                ops += [("build", False), ("call", 0)]
              elif first == "build_T":
                ops += [("build", True), ("call", 0)]
              elif first == "layer":
                ops.append(("layer", hi % 2))
              for ui, v in enumerate(seq):
                ops.append(("update_from_var", v) if (hi + ui) % 3 == 2 else ("update", v))
                if hi % 5 == 4 and ui == len(seq) - 1:
                  ops.append(("bystander", 0.0 if v != 0.0 else 1.0))
                ops.append(("call", (hi + ui + 1) % 2) if (hi + ui) % 7 else ("layer", (hi + ui + 1) % 2))
              # ---- run the history on ONE real object; the oracle keeps its own books
              q = _mk(Q, cname, kw, **ctor)
              init = _obs(tf, q)
              cur = core.frac(f_init)
              built_at, built_by = None, None   # factor (class) and operation at the moment the object was built
              sops, ys, verdict = [], [], None
              for oi, op in enumerate(ops):
                k0 = op[0]
                y = None
                try:
                  if k0 == "update":
                    q.update_qnoise_factor(float(op[1]) if (hi + oi) % 2 else np.float64(op[1]))
                    cur = core.frac(float(op[1]))
                    sops.append(_op_line(op))
                  elif k0 == "update_from_var":
                    q.update_qnoise_factor(tf.Variable(op[1], dtype=tf.float32, trainable=False))
                    cur = core.frac(np.float32(op[1]))
                    sops.append(_op_line(op))
                  elif k0 == "build":
                    if built_by is None:
                      built_at, built_by = _fclass(float(cur)), "explicit_build"
                    q.build(var_name=None, use_variables=op[1])
                    sops.append(_op_line(op))
                  elif k0 == "bystander":
                    _call_shaped(_mk(Q, cname, kw, qnoise_factor=op[1], **ste_kw), xb, shapes[0])
                  else:
                    if built_by is None:
                      built_at, built_by = _fclass(float(cur)), "first_call" if k0 == "call" else "first_call_in_layer"
                    si = op[1]
                    if k0 == "layer":
                      y = np.asarray(qkeras.QActivation(q)(tf.constant(xb.reshape(shapes[si]), dtype=tf.float32)).numpy(),
                                     dtype=np.float32).reshape(-1)
                    else:
                      y = _call_shaped(q, xb, shapes[si])
                    sops.append({"op": "call"})
                except Exception as e:  # pylint: disable=broad-except
                  if verdict is None:
                    verdict = ("reused_object_raises", {"cls": cname, "op": k0, "built_by": built_by},
                               {"cfg": label, "error": type(e).__name__ + ": " + str(e)[:160],
                                "replay": _h_text(cname, kw, ctor, ops[:oi + 1], shapes)})
                  break
                if y is None:
                  continue
                n_calls += 1
                ys.append(y)
                if verdict is not None:
                  continue
                store_var = isinstance(q.qnoise_factor, tf.Variable)
                fval = float(np.float32(float(cur))) if store_var else float(cur)
                key = {"cls": cname, "form": fname, "built_by": built_by, "factor_when_built": built_at,
                       "store": "var" if store_var else "py"}
                replay = _h_text(cname, kw, ctor, ops[:oi + 1], shapes) + "  with x = %r" % (xb.tolist(),)
                if y.shape != xb.shape:
                  verdict = ("every_call_interpolates_with_the_factor_in_force", key,
                             {"cfg": label, "observed_number_of_elements": int(y.size), "expected": int(xb.size),
                              "replay": replay})
                  continue
                xq = ref(label, cname, kw, form, op[1])
                bad = _judge_mix(y, s_np, xq, fval, fname) if xq is not None else None
                if bad is not None:
                  i, want, kind = bad
                  verdict = ("every_call_interpolates_with_the_factor_in_force", key,
                             {"cfg": label, "call_number": len(ys), "factor_in_force": fval, "x": float(xb[i]),
                              "observed": float(y[i]), "surrogate": float(s_np[i]), "quantized": float(xq[i]),
                              "expected": float(want), "judged": kind, "factor_attribute_reads": _obs(tf, q)["v"],
                              "replay": replay})
                  continue
                yt = twin(label, cname, kw, ste, store_var, fval, op[1])
                if not np.array_equal(y, yt):
                  i = int(np.flatnonzero(y != yt)[0])
                  verdict = ("kth_call_equals_fresh_object_with_that_constant_factor", key,
                             {"cfg": label, "call_number": len(ys), "factor_in_force": fval, "x": float(xb[i]),
                              "observed": float(y[i]), "fresh_object": float(yt[i]),
                              "factor_attribute_reads": _obs(tf, q)["v"], "replay": replay})
              if tie:
                # probe element order is the same for both shapes (row-major reshape), so one (s, q) vector serves
                xq0 = ref(label, cname, kw, form, 0)
                lines.append({"op": "outs", "form": fname, "init": init, "ops": sops,
                              "s": core.enc_list(s_np), "q": core.enc_list(xq0)})
                meta.append((label, cname, kw, ctor, ops, ys, verdict, True))
              else:
                meta.append((label, cname, kw, ctor, ops, ys, verdict, False))
  outs = iter(core.run_driver("C07", lines))
  n_snap = 0
  for label, cname, kw, ctor, ops, ys, verdict, tied in meta:
    run.case(("history", label, repr(sorted((k, repr(v)) for k, v in ctor.items())), repr(ops)),
             sample={"cfg": label, "ctor": {k: repr(v) for k, v in ctor.items()}, "history": [list(o) for o in ops]}
             if len(run.samples) < 8 and label == "linear_4_1" else None)
    run.compared += 1
    run.count("history_first_%s" % (ops[0][0] if ops[0][0] != "update_from_var" else "update"))
    mirrored = True
    if tied:
      out = next(outs)
      n_snap += int(out["snap0_differs"] > 0) + int(out["snap1_differs"] > 0)
      rows = out["ys"]
      for ci_, y in enumerate(ys):
        if ci_ >= len(rows):
          break
        ym = core.dec_list(rows[ci_])
        yi = [core.frac(v) for v in y]
        if len(yi) != len(ym) or yi != ym:
          i = [k for k in range(min(len(yi), len(ym))) if yi[k] != ym[k]][:1]
          run.disagree("history-call", {"cfg": label, "ctor": {k: repr(v) for k, v in ctor.items()},
                                        "ops": [list(o) for o in ops], "call": ci_, "x": float(xb[i[0]]) if i else None},
                       float(y[i[0]]) if i else int(y.size), float(ym[i[0]]) if i else len(ym))
          mirrored = False
          break
    if verdict is not None:
      run.violate(verdict[0], verdict[1], verdict[2], mirrored=mirrored and verdict[0] != "reused_object_raises")
  run.extra["history_objects"] = n_hist
  run.extra["history_calls_judged"] = n_calls
  run.extra["history_objects_where_a_build_time_flag_would_differ"] = n_snap
  if n_snap < 20:
    raise core.InfraError("stream H no longer reaches histories that distinguish a build-time decision from the code")


# --------------------------------------------------------------------------- entry

def run(run: core.Run, tier: str):
  core.assert_repo_import()
  import tensorflow as tf
  from qkeras import quantizers as Q
  rng = np.random.default_rng(run.seed)
  run.extra["rule"] = (
      "A: 18 class configurations (all six knob-bearing classes, both return sites of quantized_bits) x "
      "use_ste x 6 storage routes x factors {0,1/4,1/2,3/4,1} + non-dyadic and seeded random factors, on a "
      "vector of every multiple of 1/16 in [-3,3] + saturating / tiny / seeded random inputs; non-trivial = "
      "distinct (configuration, form, route, factor). B: every operation sequence over {build(T), build(F), "
      "update(a), update(b), use_variables=True, call, update(<tf.Variable>)} up to length 3 (4 for "
      "quantized_bits; +1 in thorough) x 2 constructor storages x 2 initial factors + seeded sequences of "
      "length 5-6 with non-dyadic values; non-trivial = distinct (class, initial state, sequence). C: seeded "
      "subset (all in thorough) of 810 (start, finish, exponent, update_freq, freq_type, initial) x one "
      "fit-shaped + random 12-event histories over {train_begin, epoch_begin, batch_begin, epoch_end, forward} "
      "on 10 stub models (quantizers in quantizers / quantizer / get_quantizers() / activation / "
      "recurrent_activation, cells, wrappers, nested models, shared objects, quantized_linear), plus every "
      "history up to length 4 (6 in thorough) over {T,E,B,F} for 4 configurations x 3 models; non-trivial = "
      "distinct (configuration, model, history). D: get_quantizers on 13 real models + real model.fit runs "
      "(1 quick, 4 thorough) on models holding quantizers in every kind of place. E: per knob-bearing class "
      "(6) x use_ste: 9 history templates (one caller-owned tf.Variable pushed to two or three quantizers, then a "
      "number update of one of them / an update from a second variable / the caller assigning to the source / "
      "copying another quantizer's attribute / build(use_variables) / probe calls after every step) x every pair "
      "of storages of the first two quantizers out of {python number, tf.Variable} x {built, unbuilt}, plus 40 "
      "(400 thorough) seeded interleavings of length 6-10 over {update from caller variable, update from another "
      "quantizer's attribute, variable.assign, number update as float / np.float64 / np.float32 / tf.constant, "
      "update from a fresh variable, build(T/F), use_variables flip, call} on 3 quantizers and 2 variables; "
      "non-trivial = distinct (class, storages, use_ste, history). A2: the option lattice of every knob-bearing "
      "class (about 190 configurations: quantized_relu bits/integer x slope in {0, 1/4, 1/2} x is_quantized_clip x "
      "relu_upper_bound in {none, on-grid, off-grid +0.6 step, off-grid +0.3 step, above the largest code, 0.0, "
      "np.float32, int 6}; relu_po2 / po2 max_value in {none, 2, 3, 0.3, 1.5} x slope x quadratic_approximation; "
      "hswish shift x bound; bits / linear symmetric x keep_negative; stochastic rounding outside training; "
      "use_sigmoid) x use_ste x f in {0, 1/4, 1/2, 3/4, 1, 0.3, 0.9} (+ Variable route for 1/2 and 0.3) on inputs "
      "b + j*step/32, |j| <= 36, around every bound b + a coarse grid + seeded values; non-trivial = distinct "
      "(configuration, form, route, factor). F: 11 configurations x use_ste x 2 (thorough 8) seeded histories of 9 "
      "(14) reconfigurations of ONE object, each followed by a probe call on a tensor of rank 1-5 or through a "
      "QActivation layer, compared with a fresh twin; 6 classes x use_ste x {0, 1, 1/4, 0.3} x 7 argument forms x "
      "{constructor, update on python storage, update on Variable storage}; internal sigmoid modes x 3 orders. "
      "G: 6 classes x use_ste (alternating) x initial factor {0 as 0.0 / 0 / np.float32 / np.float64, 1/4, 1} x 5 routes "
      "into variable mode (constructor, update before first call, use_variables set afterwards, explicit build, update "
      "then build) x {compiled call first, eager call first (a third)} followed by update(1/2), update(0.3), eager call, "
      "update(1), update(0), update(<tf.Variable 3/4>), each followed by a call through ONE tf.function; 4 (40 "
      "thorough) seeded histories per class over updates / calls / compiled calls / build(T/F) / use_variables flips; 2 "
      "python-mode histories per class; 12 Keras models (QActivation, input shape known or not) x QNoiseScheduler step "
      "schedules with a compiled training step; non-trivial = distinct (class, form, route, factor, history). "
      "H: 6 classes x return form (+ auto-scaled quantized_linear) x constructor factor {0, 1, 1/2} x storage x 5 ways of "
      "being built x 3 (thorough 8) of 8 update sequences over {0, 1, 1/4, 0.3, 1/2} (rotated by the seed), a call after "
      "every step; non-trivial = distinct (class, constructor arguments, history). Quick budgets trimmed when H was added "
      "(all draws still made, so the other streams see the same random state): B executes 200 of its 250 seeded sequences "
      "per class, C 720 of 810 seeded histories, E 30 of 40 seeded interleavings per class.")
  stream_mix(run, tier, Q, tf, rng)
  stream_storage(run, tier, Q, tf, rng)
  stream_sched(run, tier, Q, tf, rng)
  stream_layers(run, tier, Q, tf, rng)
  stream_alias(run, tier, Q, tf, rng)
  stream_lattice(run, tier, Q, tf, rng)
  stream_reuse(run, tier, Q, tf, rng)
  stream_compiled(run, tier, Q, tf, rng)
  stream_history(run, tier, Q, tf, rng)
  run.assumptions += [
      "TF eager elementwise float32 kernels (neg, add, sub, mul) are correctly rounded IEEE operations applied "
      "one at a time (device 1); python float arithmetic is IEEE float64",
      "the executable rnd32/rnd64 are IEEE-754 round-to-nearest-even without overflow handling (proved: monotone on "
      "the non-negatives, fix 0 and 1 — Lemmas/Rnd.lean; that they ARE the hardware rounding is validated by the "
      "bit-for-bit tie only)",
      "quantizer objects are modelled by value with an identity tag; an object shared between layers is tracked once",
      "tf.stop_gradient is the identity on values (gradients are property C06)",
      "a float64 tf.Tensor as qnoise_factor is rejected by TensorFlow's own dtype rule (float32 * float64) and is "
      "not generated; QNoiseScheduler(log_dir=...) is not exercised",
      "stream G: a tf.function executes the graph it traced; graph-mode float32 kernels equal the eager ones (checked: "
      "compiled python-constant references equal the eager references bit for bit, quantized_hswish's surrogate within "
      "2^-22 relative because graph optimisation rewrites its division by a constant)",
      "stream E: a tf.Variable handed to the CONSTRUCTOR (explicit sharing requested by the caller) and mutable "
      "0-d numpy arrays handed to the update API and later mutated in place by the caller are outside the "
      "generated histories (see notes/C07.md)",
  ]
