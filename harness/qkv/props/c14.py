"""C14 — exported quantized weights equal inference weights and rebuild from the HW form
(DESIGN.md §4 C14).

Per generated model (tiny; exact-regime weights) the REAL `model_save_quantized_weights` is run up
to three times in a row on the ONE model object (the third time through `get_model_sparsity`), with
`model.predict` and `get_weights()` snapshots in between; in two of the three history variants the
user assigns new weights to every layer between two exports.  All models live in one process and
carry identical model / layer names (clear_session), so process-level state shows.  The same model description (layer classes, graph, the
quantizer kinds the export dispatches on, weights) goes to the Lean driver, which runs
QKV.Export.exportQ — the definition the theorems of QKV.Props.C14 are about.  Quantizer *numerics*
enter the model as oracle tables (rows obtained by calling the real quantizer object standalone;
numerics are C01–C05's business), except quantized_bits with a constant scale which the driver
computes with the C01 model.  `rsqrt` is an oracle table; every other float32 step of
add_bn_fusing_weights is simulated (`rnd32`) and compared bit for bit.

The (quantizer, weight) pairing of the export is the MODEL's (`layerQs`: QBatchNormalization by
scale / center, QBidirectional per direction — each direction its OWN quantizers and number of
weights, nothing symmetric — recurrent layers without the state quantizer); the harness
only lists the pairing each layer's own call() uses (`fwd_pairing`) for the clause oracle.

Clause oracle (judges the real outputs directly, independent of model agreement):
  quantized_once   layer weights after export == the layer's OWN quantizer (the one its call() uses
                   for that weight) applied once to the previous weights, bit for bit
  po2_rebuild      sign * 2^exponent == stored weight (Lean `judge_po2`)
  autopo2_rebuild  scale * hw == stored, hw integer, hw inside the DECLARED range of the quantizer:
                   signed [-(2^(bits-1)-1), 2^(bits-1)-1], unsigned (keep_negative=False) [0, 2^bits-1]
                   (Lean `judge_autopo2`, the model's `inCodeRange`)
  bn_terms         bn_inv / fused_bias == float32-simulated BN algebra on the parameters the layers
                   hold after the export (Lean `judge_bn`)
  pool             q_mult_factor == average quantizer of 1/pool_area (the plain factor without quantizer)
  export_raises    the export must not raise on any generated model
  weights_file     filename=: the written file, read back, holds the weights the model holds afterwards
  predict_same / second_noop  for models whose quantizer scales are all data independent
  freeze           clone_model_and_freeze_auto_po2_scale: same HW weights, then repeatable
  sparsity         get_model_sparsity == fraction of zeros of the exported weights
"""
import contextlib
import io
import itertools
import os
import shutil
import tempfile
from fractions import Fraction as F

import numpy as np

from .. import core

POISON = F(987654321, 7)


# --------------------------------------------------------------------------- small helpers

def f32a(a):
  return np.asarray(a, dtype=np.float32)


def _fv(v):
  v = float(v)
  if v != v:
    return F(10) ** 41            # nan / inf never occur on the unchanged tree: sentinels that
  if v in (float("inf"), float("-inf")):
    return F(10) ** 40 * (1 if v > 0 else -1)   # make a comparison fail instead of crashing
  return F(v)


def fr(a):
  """flattened exact rationals of an array (float32/float64 values are exact)"""
  return [_fv(v) for v in np.asarray(a, dtype=np.float64).ravel()]


def enc(a):
  return [[f.numerator, f.denominator] for f in fr(a)]


def key_of(a):
  a = np.ascontiguousarray(np.asarray(a, dtype=np.float32))
  return (a.shape, a.tobytes())


def quiet(fn, *args, **kw):
  buf = io.StringIO()
  with contextlib.redirect_stdout(buf):
    return fn(*args, **kw)


def dyadic(rng, shape, den=64, span=80, zero_p=0.12):
  """exact-regime weights: k/den, |k| <= span, a share of exact zeros"""
  k = rng.integers(-span, span + 1, size=shape)
  z = rng.random(size=shape) < zero_p
  k = np.where(z, 0, k)
  return (k / float(den)).astype(np.float32)


# --------------------------------------------------------------------------- quantizer description

def q_kind(q):
  """how a hardware consumer classifies the quantizer (by class / documented attributes)"""
  if q is None:
    return None
  name = getattr(q, "__name__", None) or q.__class__.__name__
  if name == "quantized_po2":
    return "po2"
  if "_po2" in name:
    return "relu_po2"
  if name == "quantized_bits" and getattr(q, "alpha", None) == "auto_po2":
    return "autopo2"
  return "other"


def q_label(q):
  if q is None:
    return "None"
  if hasattr(q, "__name__"):
    return "fn:" + q.__name__
  try:
    s = str(q)
  except Exception:  # pylint: disable=broad-except
    s = q.__class__.__name__
  if getattr(q, "post_training_scale", None) is not None:
    s += "[frozen]"
  return s


def data_dependent(q):
  """scale computed from the tensor being quantized"""
  if q is None or hasattr(q, "__name__"):
    return False
  a = getattr(q, "alpha", None)
  if isinstance(a, str):
    return getattr(q, "post_training_scale", None) is None
  return False


def native_cfg(q):
  """quantized_bits with constant / no scale: computed by the C01 Lean model"""
  if q is None or q.__class__.__name__ != "quantized_bits":
    return None
  a = q.alpha
  if isinstance(a, str) or q.use_stochastic_rounding or q.qnoise_factor != 1.0:
    return None
  if a is not None and not isinstance(a, (int, float)):
    return None
  return {"bits": int(q.bits), "integer": int(q.integer), "symmetric": bool(q.symmetric),
          "keep_negative": bool(q.keep_negative), "alpha": None if a is None else core.rj(a)}


class QTable:
  """oracle rows of one quantizer object: x -> (q(x), quantizer.scale after the call)"""

  def __init__(self, q):
    self.q = q
    self.rows = {}

  def call(self, x):
    import tensorflow as tf
    x = f32a(x)
    k = key_of(x)
    if k in self.rows:
      return self.rows[k][1]
    y = tf.keras.backend.eval(self.q(tf.constant(x)))
    y = f32a(y)
    s = getattr(self.q, "scale", None)
    if s is None or q_kind(self.q) != "autopo2":
      sb = None
    else:
      s = s.numpy() if hasattr(s, "numpy") else np.asarray(s)
      sb = np.broadcast_to(f32a(s), x.shape).copy()
    self.rows[k] = (x, y, sb)
    return y

  def call_scalar(self, v):
    """the pooling path: quantizer(python float).numpy()"""
    y = self.q(v)
    y = float(y.numpy() if hasattr(y, "numpy") else y)
    self.rows[("scalar", repr(float(v)))] = (np.array([v], dtype=np.float64), np.array([y]), None)
    return y

  def json(self, native_ok=True):
    q = self.q
    kind = q_kind(q)
    d = {"kind": kind}
    if kind == "autopo2":
      d.update(bits=int(q.bits), integer=int(q.integer), keep_negative=bool(q.keep_negative))
    nc = native_cfg(q) if native_ok else None
    if nc is not None:
      d["fixed"] = nc
    else:
      d["table"] = [[enc(x), enc(y), enc(s) if s is not None else []] for (x, y, s) in self.rows.values()]
    return d


# --------------------------------------------------------------------------- model description

def layer_kind(l):
  from qkeras import QConv2DBatchnorm, QDepthwiseConv2DBatchnorm, QSimpleRNN, QLSTM, QGRU
  if not hasattr(l, "get_quantizers"):
    return "noq"
  if isinstance(l, (QConv2DBatchnorm, QDepthwiseConv2DBatchnorm)):
    return "folded"
  if isinstance(l, (QSimpleRNN, QLSTM, QGRU)):
    return "rnn"
  if is_a(l, "QBidirectional"):
    return "bidir"
  return "plain"


def is_a(l, base):
  """`l` is an instance of the library class `base` or of a user subclass of it"""
  return any(c.__name__ == base and c.__module__.startswith("qkeras") for c in type(l).__mro__)


def bn_subclass(l):
  """a user subclass of QBatchNormalization (fix round 2: the export selects the batch-norm pairing by
  isinstance, so it is exported like the library class; only used to label violation keys)"""
  return is_a(l, "QBatchNormalization") and l.__class__.__name__ != "QBatchNormalization"


ALLOW = ["QDense", "Dense", "QConv1D", "Conv1D", "QConv2D", "Conv2D", "QDepthwiseConv2D",
         "DepthwiseConv2D", "QSeparableConv1D", "SeparableConv1D", "QSeparableConv2D",
         "SeparableConv2D", "QOctaveConv2D", "QSimpleRNN", "RNN", "QLSTM", "QGRU",
         "QConv2DTranspose", "Conv2DTranspose", "QConv2DBatchnorm", "QDepthwiseConv2DBatchnorm"]


def fwd_pairing(l, kind, nq):
  """indices into get_quantizers() that the layer's own call() applies to get_weights()[k]
  (written from the layers' call() code, independently of the export)"""
  if is_a(l, "QBatchNormalization"):
    out = []
    if l.scale:
      out.append(0)
    if l.center:
      out.append(1)
    return out + [2, 3]
  if is_a(l, "QBidirectional"):
    # each direction's cell quantizes ITS [kernel, recurrent_kernel(, bias)] with ITS first quantizers;
    # the directions may be different layers (backward_layer=): other class, quantizers, bias, units
    h = len(l.forward_layer.get_quantizers())
    nf = len(l.forward_layer.get_weights())
    nb = len(l.backward_layer.get_weights())
    return list(range(0, nf)) + list(range(h, h + nb))
  if kind == "rnn":
    return list(range(nq - 1))
  if is_a(l, "QAveragePooling2D") or is_a(l, "QGlobalAveragePooling2D"):
    return []
  return list(range(nq))


def successors(model):
  """consumer layers of every layer's outputs (distinct, sorted); [sink] when there are none"""
  layers = model.layers
  idx = {id(l): i for i, l in enumerate(layers)}
  n = len(layers)
  out = []
  for l in layers:
    s = set()
    for node in l._outbound_nodes:  # pylint: disable=protected-access
      ol = getattr(node, "outbound_layer", None)
      if ol is None:
        ol = node.layer
      if id(ol) in idx:
        s.add(idx[id(ol)])
    out.append(sorted(s) if s else [n])
  return out


class Case:
  def __init__(self, label, build, feats, reweigh=None, rew=None, export_kw=None, sparsity_kw=None,
               no_sparsity=False):
    self.label = label
    self.build = build      # () -> (model, input array)
    self.feats = feats
    self.reweigh = reweigh  # model -> None: the user assigns new weights to every layer (set_weights)
    self.rew = rew          # round before which `reweigh` happens (None: the plain export history)
    self.export_kw = export_kw or {}      # filename= / custom_objects= route of the export
    self.sparsity_kw = sparsity_kw or {}  # allow_list= route of get_model_sparsity
    self.no_sparsity = no_sparsity        # last round is a plain export (get_model_sparsity has no custom_objects)


# --------------------------------------------------------------------------- the real run

def snapshot(model):
  return [[f32a(w) for w in l.get_weights()] for l in model.layers]


def canon_dict(d, model, w_before):
  """real returned dict -> canonical comparable form (exact rationals), keyed by layer index"""
  names = {l.name: i for i, l in enumerate(model.layers)}
  out = []
  for name, e in d.items():
    i = names[name]
    l = model.layers[i]
    ws = e["weights"]
    hw = []
    neg_inf = []
    for t in ws:
      a = np.asarray(t, dtype=np.float64).ravel()
      neg_inf.append([bool(v) for v in np.isneginf(a)])
      if np.any(np.isinf(a)):
        a = np.where(np.isinf(a), 0.0, a)      # log2(0) = -inf: canonicalised to 0, mask kept
      hw.append([_fv(v) for v in a])
    ent = {"i": i, "hw": hw, "neg_inf": neg_inf, "enable": bool(e["enable_bn_fusing"]),
           "signs": None, "scales": None, "pool": None, "fused_bn": None, "bn_inv": None,
           "fused_bias": None,
           "keys": sorted(e.keys())}
    if "signs" in e:
      ent["signs"] = [fr(np.asarray(s)) if len(np.shape(s)) and np.size(s) else [] for s in e["signs"]]
    if "scales" in e:
      sc = []
      for k, s in enumerate(e["scales"]):
        s = np.asarray(s)
        if s.size == 0:
          sc.append([])
        else:
          shp = np.shape(np.asarray(ws[k]))
          try:
            sc.append(fr(np.broadcast_to(s, shp)))
          except ValueError:
            sc.append(fr(s))
      ent["scales"] = sc
    if "q_mult_factor" in e:
      ent["pool"] = [_fv(e["q_mult_factor"]), _fv(e["mult_factor"]), _fv(e["pool_area"])]
    if "fused_bn_layer_name" in e:
      ent["fused_bn"] = names[e["fused_bn_layer_name"]]
      ent["bn_inv"] = fr(e["bn_inv"])
      ent["fused_bias"] = fr(e["fused_bias"])
    out.append(ent)
  return out


def model_entry(o):
  def ts(x):
    return None if x is None else [[core.unrj(p) for p in t] for t in x]
  return {"i": o["i"], "hw": ts(o["hw"]), "enable": o["enable"], "signs": ts(o["signs"]),
          "scales": ts(o["scales"]),
          "pool": None if o["pool"] is None else [core.unrj(p) for p in o["pool"]],
          "fused_bn": o["fused_bn"],
          "bn_inv": None if o["bn_inv"] is None else [core.unrj(p) for p in o["bn_inv"]],
          "fused_bias": None if o["fused_bias"] is None else [core.unrj(p) for p in o["fused_bias"]]}


def err_kind(e):
  if isinstance(e, AssertionError):
    return "assert"
  if isinstance(e, TypeError):
    return "type-error"
  s = type(e).__name__
  if "InvalidArgument" in s:
    return "int-pow"
  return "other:" + s


class RealRun:
  """one model: description, oracle tables, real exports (a HISTORY on one model object: export,
  export again, optionally new weights assigned in between, last round via get_model_sparsity),
  protocol line"""

  def __init__(self, case, n_exports=3):
    import tensorflow as tf
    from tensorflow.python.ops import math_ops
    from qkeras import utils as qutils
    self.case = case
    model, xin = case.build()
    self.model = model
    self.xin = xin
    layers = model.layers
    n = len(layers)
    self.n = n
    self.kinds = [layer_kind(l) for l in layers]
    self.succ = successors(model)
    self.tables = {}     # id(q) -> QTable
    self.qs = []
    self.fwd = []
    for l, kind in zip(layers, self.kinds):
      qs = list(l.get_quantizers()) if kind != "noq" else []
      self.qs.append(qs)
      self.fwd.append(fwd_pairing(l, kind, len(qs)) if kind != "noq" else [])
      for q in qs:
        if q is not None and id(q) not in self.tables:
          self.tables[id(q)] = QTable(q)
    self.data_dep = any(data_dependent(q) for qs in self.qs for q in qs)
    self.rsq_rows = {}
    W0 = snapshot(model)

    def folded_now():
      return {i: [f32a(t) for t in l.get_folded_weights()]
              for i, (l, kind) in enumerate(zip(layers, self.kinds)) if kind == "folded"}
    # folded weights (never written back): one oracle row per folded layer and weight assignment
    bases = [(W0, folded_now())]
    self.rew = case.rew if (case.rew is not None and case.reweigh is not None) else None
    self.W_alt = None
    if self.rew is not None:
      # the weights the user assigns later in the history (generated now, assigned at round `rew`)
      case.reweigh(model)
      self.W_alt = snapshot(model)
      bases.append((self.W_alt, folded_now()))
      self._assign(W0)
    self.bases = bases
    # ---- oracle closure: every tensor a position can hold within the exports under the layer's own
    # (quantizer, weight) pairing — the pairing the export has to use; if the export ever pairs
    # differently the driver finds no table row (poison) and the weights disagree.
    # (Fix round 2: no exception for user subclasses of QBatchNormalization any more — the rows of the
    # positional zip are gone, so that defect coming back is a disagreement + un-mirrored VIOLATION.)
    for Wbase, fold in bases:
      for i, (l, kind) in enumerate(zip(layers, self.kinds)):
        if kind == "noq":
          continue
        base = fold[i] if kind == "folded" else Wbase[i]
        for k, w in enumerate(base):
          cand = set()
          if k < len(self.fwd[i]):
            cand.add(self.fwd[i][k])
          cand = [self.qs[i][c] for c in sorted(cand) if c < len(self.qs[i]) and self.qs[i][c] is not None]
          seen = {key_of(w): w}
          frontier = [w]
          for _ in range(n_exports + 1):
            nxt = []
            for x in frontier:
              for q in cand:
                y = self.tables[id(q)].call(x)
                if key_of(y) not in seen:
                  seen[key_of(y)] = y
                  nxt.append(y)
            frontier = nxt
            if not frontier:
              break
          if l.__class__.__name__ == "QBatchNormalization":
            # variance position: rsqrt oracle rows for every tensor the variance can be
            vpos = int(bool(l.scale)) + int(bool(l.center)) + 1
            if k == vpos:
              eps = np.float32(l.epsilon)
              for x in list(seen.values()):
                arg = f32a(x) + eps
                val = f32a(math_ops.rsqrt(arg).numpy())
                for a, v in zip(arg.ravel(), val.ravel()):
                  self.rsq_rows[float(a)] = float(v)
    # pooling rows
    self.pool = {}
    for i, l in enumerate(layers):
      avg, gap = is_a(l, "QAveragePooling2D"), is_a(l, "QGlobalAveragePooling2D")
      if avg or gap:
        if avg:
          ps = l.pool_size
          area = ps * ps if isinstance(ps, int) else int(np.prod(ps))
        else:
          area = int(l.compute_pooling_area(input_shape=l.input_shape))
        mf = 1.0 / area
        q = self.qs[i][0]
        # without average quantizer the layer averages with the plain factor
        qm = float(np.float32(self.tables[id(q)].call_scalar(mf))) if q is not None else mf
        self.pool[i] = (area, mf, qm)
    # ---- the real exports
    self.Wb, self.Wa, self.pb, self.pa, self.fresh, self.base_of = [], [], [], [], [], []
    self.dicts = []
    self.errs = []
    self.sparsity = None
    self.file_w = {}
    cur_base = 0
    for r in range(n_exports):
      fresh = r == 0
      if self.rew is not None and r == self.rew:
        self._assign(self.W_alt)
        fresh = True
        cur_base = 1
      self.fresh.append(fresh)
      self.base_of.append(cur_base)
      self.Wb.append(snapshot(model))
      self.pb.append(self._predict() if (fresh or not self.pa) else self.pa[-1])   # nothing happened in between
      self._bn_rows(self.Wb[-1])
      try:
        if r == n_exports - 1 and not case.no_sparsity:
          sp = quiet(qutils.get_model_sparsity, model, per_layer=True, **case.sparsity_kw)
          self.sparsity = sp
          d = None
        else:
          d = quiet(qutils.model_save_quantized_weights, model, **case.export_kw)
          if case.export_kw.get("filename"):
            self.file_w[r] = self._read_file(case.export_kw["filename"])
        self.errs.append(None)
      except Exception as e:  # pylint: disable=broad-except
        d = None
        self.errs.append(err_kind(e))
      self.dicts.append(d)
      self.Wa.append(snapshot(model))
      self.pa.append(self._predict())
      if self.errs[-1] is not None:
        break
    if not any("Conv" in c.__name__ for l in layers for c in type(l).__mro__):
      # no convolution anywhere: the stand-alone call is skipped (one model clone less; what the
      # export itself found still shows in the dictionaries)
      self.pairs = None
      return
    try:
      self.pairs = quiet(qutils.find_bn_fusing_layer_pair, model,
                         **({"custom_objects": case.export_kw["custom_objects"]}
                            if "custom_objects" in case.export_kw else {}))
    except Exception as e:  # pylint: disable=broad-except
      self.pairs = ("err", err_kind(e))

  def _assign(self, W):
    for l, ws in zip(self.model.layers, W):
      if ws:
        l.set_weights(ws)

  def _read_file(self, filename):
    """the weights file the export wrote (filename=), read back into a structural clone"""
    from qkeras import utils as qutils
    try:
      m2 = quiet(qutils.clone_model, self.model)
      for l in m2.layers:          # poison, so that weights missing from the file show
        ws = l.get_weights()
        if ws:
          l.set_weights([np.full_like(w, 977.0) for w in ws])
      m2.load_weights(filename)
      return snapshot(m2)
    except Exception as e:  # pylint: disable=broad-except
      return ("err", repr(e)[:200])

  def folded_at(self, rd):
    return self.bases[self.base_of[rd]][1]

  def _predict(self):
    try:
      return f32a(self.model(self.xin, training=False).numpy())
    except Exception as e:  # pylint: disable=broad-except
      return ("err", repr(e)[:200])

  def _bn_rows(self, W):
    """oracle rows of the inverse quantizer on the inv tensor of this round (harness-side mirror of
    the float32 steps, used only to know WHICH tensor to present to the real inverse quantizer)"""
    layers = self.model.layers
    for i, l in enumerate(layers):
      if l.__class__.__name__ not in ("QConv2D", "QDepthwiseConv2D"):
        continue
      if len(self.succ[i]) != 1 or self.succ[i][0] >= self.n:
        continue
      b = self.succ[i][0]
      bn = layers[b]
      if bn.__class__.__name__ != "QBatchNormalization":
        continue
      iq = self.qs[b][4]
      if iq is None:
        continue
      bw = W[b]
      idx = 0
      gamma = np.float32(1.0)
      if bn.scale:
        gq = self.qs[b][0]
        gamma = self.tables[id(gq)].call(bw[idx]) if gq is not None else bw[idx]
        idx += 1
      if bn.center:
        idx += 1
      idx += 1
      vq = self.qs[b][3]
      var = self.tables[id(vq)].call(bw[idx]) if vq is not None else bw[idx]
      arg = f32a(var) + np.float32(bn.epsilon)
      # (a variance tensor outside the closure — only possible if an earlier export went wrong —
      # gets its oracle row here instead of crashing the harness)
      miss = [a for a in arg.ravel() if float(a) not in self.rsq_rows]
      if miss:
        from tensorflow.python.ops import math_ops
        val = f32a(math_ops.rsqrt(f32a(miss)).numpy())
        for a, v in zip(miss, val.ravel()):
          self.rsq_rows[float(a)] = float(v)
      rs = np.array([self.rsq_rows[float(a)] for a in arg.ravel()], dtype=np.float32).reshape(arg.shape)
      inv0 = f32a(f32a(gamma) * rs)
      self.tables[id(iq)].call(inv0)

  # -- protocol
  def line(self, n_exports):
    layers = self.model.layers
    L = []
    for i, l in enumerate(layers):
      cls = l.__class__.__name__
      kind = self.kinds[i]
      d = {"cls": cls, "kind": kind,
           "qs": [None if q is None else self.tables[id(q)].json() for q in self.qs[i]],
           "fwd": self.fwd[i], "use_bias": bool(getattr(l, "use_bias", False)),
           "succ": self.succ[i],
           "allow": cls in (self.case.sparsity_kw.get("allow_list") or ALLOW) and hasattr(l, "quantizers"),
           "bn": None, "pool": None}
      if is_a(l, "QBatchNormalization"):
        # every instance of QBatchNormalization, user subclasses included: the model's `Layer.bn`
        # is its "isinstance(layer, QBatchNormalization)" flag (the export's pairing test)
        d["bn"] = {"scale": bool(l.scale), "center": bool(l.center), "eps": core.rj(float(l.epsilon))}
      if i in self.pool:
        area, mf, _ = self.pool[i]
        d["pool"] = {"area": core.rj(area), "mf": core.rj(mf)}
      if kind == "folded":
        d["fold"] = [[[enc(t) for t in Wbase[i]], [enc(t) for t in fold[i]]] for Wbase, fold in self.bases]
      if kind == "bidir":
        # nothing symmetric is assumed: each direction's own number of weights, and where the
        # backward layer's quantizers start in get_quantizers()
        d["dir_w"] = len(l.forward_layer.get_weights())
        d["dir_wb"] = len(l.backward_layer.get_weights())
        d["dir_q"] = len(l.forward_layer.get_quantizers())
      L.append(d)
    return {"op": "export", "n": n_exports, "rnd": "f32",
            "rsq": [[core.rj(a), core.rj(v)] for a, v in sorted(self.rsq_rows.items())],
            "layers": L, "ws": [[enc(t) for t in ws] for ws in self.bases[0][0]],
            "rew": None if self.rew is None else
            {"round": self.rew, "ws": [[enc(t) for t in ws] for ws in self.W_alt]}}


# --------------------------------------------------------------------------- generators

def build_cases(rng, tier, rot0=0):
  """tiny models aimed at every branch of the export (see `feats`); every case is a HISTORY on one
  model object (see RealRun): by default the three variants rotate over the case list"""
  import tensorflow as tf
  from qkeras import (QDense, QConv1D, QConv2D, QDepthwiseConv2D, QSeparableConv2D, QSimpleRNN,
                      QLSTM, QGRU, QBidirectional, QBatchNormalization, QAveragePooling2D,
                      QGlobalAveragePooling2D, QActivation, QConv2DBatchnorm,
                      quantized_bits, quantized_po2, quantized_relu_po2, binary, ternary)
  K = tf.keras

  def fx(b=None, i=None, sym=None, alpha=1.0):
    b = int(rng.integers(2, 7)) if b is None else b
    i = int(rng.integers(0, 3)) if i is None else i
    sym = int(rng.integers(0, 2)) if sym is None else sym
    return quantized_bits(b, i, sym, alpha=alpha)

  def pruned_po2():
    base_cls = quantized_po2

    class quantized_po2_z(base_cls):  # a user subclass that keeps pruned (zero) weights at zero
      def __call__(self, x):
        x = tf.convert_to_tensor(x, dtype=tf.float32)
        return tf.where(tf.equal(x, 0.0), tf.zeros_like(x), base_cls.__call__(self, x))
    quantized_po2_z.__name__ = "quantized_po2"
    return quantized_po2_z(4)

  WQ = {   # weight-quantizer menu: name -> constructor
      "fx": lambda: fx(),
      "fx1": lambda: quantized_bits(1, 0, alpha=1.0),
      "fx_none": lambda: quantized_bits(int(rng.integers(3, 7)), int(rng.integers(0, 2)), 1),  # kernels: becomes auto_po2
      "fxa2": lambda: quantized_bits(4, 0, 1, alpha=2.0),
      "po2": lambda: quantized_po2(int(rng.integers(3, 6))),
      "po2m": lambda: quantized_po2(4, max_value=1),
      "apo2": lambda: quantized_bits(int(rng.integers(3, 7)), int(rng.integers(0, 3)), 1, alpha="auto_po2"),
      "apo2neg": lambda: quantized_bits(4, -1, 1, alpha="auto_po2"),
      # UNSIGNED auto_po2 (keep_negative falsy): all `bits` are magnitude bits (seed C14-9 family)
      "apo2u": lambda: quantized_bits(int(rng.integers(3, 7)), int(rng.integers(0, 3)), 1, keep_negative=False,
                                      alpha="auto_po2"),
      "apo2u40": lambda: quantized_bits(4, 0, 1, keep_negative=False, alpha="auto_po2"),
      "apo2u30": lambda: quantized_bits(3, 0, 1, keep_negative=False, alpha="auto_po2"),
      "apo2u4n": lambda: quantized_bits(4, -1, 1, keep_negative=False, alpha="auto_po2"),
      "apo2u40_0": lambda: quantized_bits(4, 0, 1, keep_negative=0, alpha="auto_po2"),        # falsy int
      "apo2u40_np": lambda: quantized_bits(np.int64(4), np.int32(0), np.int64(1), keep_negative=np.bool_(False),
                                           alpha="auto_po2"),
      "s_apo2u40": lambda: "quantized_bits(4,0,1,keep_negative=False,alpha='auto_po2')",
      # a post-training scale (what clone_model_and_freeze_auto_po2_scale leaves behind): data independent
      "apo2fz40": lambda: quantized_bits(4, 0, 1, alpha="auto_po2", post_training_scale=1.0),
      "apo2ufz40": lambda: quantized_bits(4, 0, 1, keep_negative=False, alpha="auto_po2",
                                          post_training_scale=np.array([[1.0, 1.0, 1.0]], dtype=np.float32)),
      "apo2s51_1": lambda: quantized_bits(5, 1, 1, keep_negative=1, alpha="auto_po2"),        # truthy int
      "bin1": lambda: binary(alpha=1.0),
      "bin": lambda: binary(),
      "ter1": lambda: ternary(alpha=1.0),
      "ter": lambda: ternary(),
      "none": lambda: None,
      "fx6": lambda: quantized_bits(6, 1, 1, alpha=1.0),
      "fx3": lambda: quantized_bits(3, 0, 1, alpha=1.0),
      # argument forms: the same kinds written as strings / with numpy-typed or float arguments
      "s_apo2": lambda: "quantized_bits(4, 0, 1, alpha='auto_po2')",
      "s_po2": lambda: "quantized_po2(4)",
      "s_fx": lambda: "quantized_bits(4,0,1,alpha=1.0)",
      "np_apo2": lambda: quantized_bits(np.int64(5), np.int32(1), np.int64(1), alpha="auto_po2"),
      "fl_apo2": lambda: quantized_bits(5.0, 1.0, True, alpha="auto_po2"),
      "np_fx": lambda: quantized_bits(np.float32(4), np.float64(1), 1, alpha=np.float32(1.0)),
  }
  BQ = {   # bias-quantizer menu
      "fx": lambda: fx(),
      "fxn": lambda: quantized_bits(int(rng.integers(3, 7)), int(rng.integers(0, 2)), 0),
      "po2": lambda: quantized_po2(4),
      "apo2": lambda: quantized_bits(5, 1, 1, alpha="auto_po2"),
      "apo2u": lambda: quantized_bits(int(rng.integers(3, 7)), int(rng.integers(0, 2)), 1, keep_negative=False,
                                      alpha="auto_po2"),
      "apo2u40": lambda: quantized_bits(4, 0, 1, keep_negative=False, alpha="auto_po2"),
      "none": lambda: None,
      "fx6": lambda: quantized_bits(6, 1, 1, alpha=1.0),
      "fx3": lambda: quantized_bits(3, 0, 1, alpha=1.0),
      "ter1": lambda: ternary(alpha=1.0),
      "s_po2": lambda: "quantized_po2(4)",
      "np_fx": lambda: quantized_bits(np.int64(4), np.float64(1), 1, alpha=np.float32(1.0)),
  }

  def code_w(shape, ub, i, neg):
    """weights that ARE codes of the format (ub magnitude bits, integer i): z * 2^i / 2^ub with
    |z| <= zmax = 2^ub/2 - 1 (what the auto_po2 path of quantized_bits can emit) and the maximum
    present in every scale group, so the data-dependent scale comes out as exactly 1 and the
    property's clause (integer codes inside the declared range) applies in full"""
    zmax = 2 ** (ub - 1) - 1 if ub > 1 else 1
    z = rng.integers(-zmax if neg else 0, zmax + 1, size=shape)
    zf = z.reshape(-1, shape[-1]) if len(shape) > 1 else z.reshape(-1, 1)
    for c in range(zf.shape[1]):
      zf[int(rng.integers(0, zf.shape[0])), c] = zmax
    return (zf.reshape(shape) * (2.0 ** i) / (2.0 ** ub)).astype(np.float32)

  def set_w(model, span=80, codes=None):
    """codes=(magnitude bits, integer, negative codes too?): the non-batch-norm weights are codes of
    that format (see `code_w`); otherwise dyadic k/64"""
    for l in model.layers:
      ws = l.get_weights()
      if not ws:
        continue
      new = []
      cls = l.__class__.__name__
      for k, w in enumerate(ws):
        if cls == "BatchNormalization" or is_a(l, "QBatchNormalization") or (
            is_a(l, "QConv2DBatchnorm") and k >= (2 if l.use_bias else 1)):
          names = [v.name for v in l.weights]
          nm = names[k]
          if "variance" in nm:
            new.append((rng.integers(2, 48, size=w.shape) / 16.0).astype(np.float32))
          elif "gamma" in nm:
            new.append((rng.integers(1, 40, size=w.shape) / 16.0).astype(np.float32))
          elif "iteration" in nm:
            new.append(w)
          else:
            new.append((rng.integers(-32, 33, size=w.shape) / 16.0).astype(np.float32))
        elif codes is not None and (not isinstance(codes, dict) or l.name in codes):
          new.append(code_w(w.shape, *(codes[l.name] if isinstance(codes, dict) else codes)))
        else:
          new.append(dyadic(rng, w.shape, span=span))
      l.set_weights(new)

  def set_w_codes(ub, i, neg):
    return lambda model: set_w(model, codes=(ub, i, neg))

  def mk_dense_chain(spec):
    """several QDense layers in a row, one auto_po2 quantizer form each; every layer's weights are
    codes of ITS quantizer's format: spec = [(kq, bq, magnitude bits, integer, negative codes)]"""
    codes = {"d%d" % (n + 1): (ub, i, neg) for n, (_, _, ub, i, neg) in enumerate(spec)}
    sw = lambda model: set_w(model, codes=codes)   # noqa: E731

    def f():
      x = inp = K.Input((4,))
      for n, (kq, bq, _, _, _) in enumerate(spec):
        x = QDense(3, kernel_quantizer=WQ[kq](), bias_quantizer=BQ[bq](), name="d%d" % (n + 1))(x)
      m = K.Model(inp, x)
      sw(m)
      return m, xin((4,))
    return f, sw

  def xin(shape):
    return (rng.integers(-4, 5, size=(2,) + tuple(shape)) / 4.0).astype(np.float32)

  def bn(kind, name="bn"):
    if kind == "default":
      return QBatchNormalization(name=name)
    if kind == "fx":
      return QBatchNormalization(gamma_quantizer=fx(6, 2, 0), beta_quantizer=fx(6, 2, 0),
                                 mean_quantizer=fx(6, 2, 0),
                                 variance_quantizer=quantized_bits(6, 2, 0, keep_negative=False, alpha=1.0),
                                 name=name)
    if kind == "inv":
      return QBatchNormalization(gamma_quantizer=None, variance_quantizer=None,
                                 beta_quantizer=fx(6, 2, 0), mean_quantizer=fx(6, 2, 0),
                                 inverse_quantizer=quantized_bits(8, 0, 1, alpha=1.0), name=name)
    if kind == "inv_apo2":
      return QBatchNormalization(gamma_quantizer=None, variance_quantizer=None,
                                 beta_quantizer=fx(6, 2, 0), mean_quantizer=fx(6, 2, 0),
                                 inverse_quantizer=quantized_bits(8, 0, 1, alpha="auto_po2"), name=name)
    if kind == "noscale":
      return QBatchNormalization(scale=False, beta_quantizer=fx(6, 2, 0), mean_quantizer=fx(6, 2, 0),
                                 variance_quantizer=quantized_bits(6, 2, 0, keep_negative=False, alpha=1.0),
                                 name=name)
    if kind == "nocenter":
      return QBatchNormalization(center=False, gamma_quantizer=fx(6, 2, 0), mean_quantizer=fx(6, 2, 0),
                                 variance_quantizer=quantized_bits(6, 2, 0, keep_negative=False, alpha=1.0),
                                 name=name)
    if kind == "noscale_nocenter":
      # two weights [mean, variance] against five quantizers; gamma / beta quantizers stay the defaults
      return QBatchNormalization(scale=False, center=False, mean_quantizer=fx(5, 1, 0),
                                 variance_quantizer=quantized_bits(6, 2, 0, keep_negative=False, alpha=1.0),
                                 name=name)
    if kind == "noscale_po2":
      # every slot a different quantizer family, so any other pairing shows in the weights
      return QBatchNormalization(scale=False, gamma_quantizer=fx(3, 0, 0), beta_quantizer=quantized_po2(5),
                                 mean_quantizer=fx(6, 2, 0),
                                 variance_quantizer=quantized_relu_po2(5, 4), name=name)
    if kind == "noq":
      return QBatchNormalization(gamma_quantizer=None, variance_quantizer=None, beta_quantizer=None,
                                 mean_quantizer=None, name=name)
    if kind == "var_apo2u":
      # the natural home of an unsigned quantizer: the (non-negative) moving variance and gamma
      return QBatchNormalization(gamma_quantizer=quantized_bits(6, 2, 1, keep_negative=False, alpha="auto_po2"),
                                 beta_quantizer=fx(6, 2, 0), mean_quantizer=fx(6, 2, 0),
                                 variance_quantizer=quantized_bits(7, 2, 1, keep_negative=False,
                                                                   alpha="auto_po2"), name=name)
    raise ValueError(kind)

  cases = []

  def add(label, feats, fn, rew="rot", reweigh=None, **kw):
    # history variant: None = export, export, sparsity; 1 = export, NEW WEIGHTS, export, sparsity;
    # 2 = export, export, NEW WEIGHTS, sparsity (rotating with the case index and the run seed)
    if rew == "rot":
      rew = [None, 1, 2][(len(cases) + rot0) % 3]
    feats = dict(feats)
    feats["rew"] = rew
    cases.append(Case(label + ("" if rew is None else " {new weights before export %d}" % rew),
                      fn, feats, reweigh=reweigh or set_w, rew=rew, **kw))

  # -- single weight-bearing layers x quantizer menu
  def mk_dense(kq, bq, use_bias=True, mname=None, sw=None):
    def f():
      x = inp = K.Input((4,))
      y = QDense(3, kernel_quantizer=WQ[kq](), bias_quantizer=BQ[bq](), use_bias=use_bias, name="d")(x)
      m = K.Model(inp, y, **({"name": mname} if mname else {}))
      (sw or set_w)(m)
      return m, xin((4,))
    return f

  def mk_conv1d(kq, bq, sw=None):
    def f():
      x = inp = K.Input((5, 2))
      y = QConv1D(2, 2, kernel_quantizer=WQ[kq](), bias_quantizer=BQ[bq](), name="c1")(x)
      m = K.Model(inp, y)
      (sw or set_w)(m)
      return m, xin((5, 2))
    return f

  def mk_conv2d(kq, bq, bnk=None, use_bias=True, dw=False, branch=False, pool=None, mname=None,
                act_between=False, conv_cls=None, sw=None):
    def f():
      x = inp = K.Input((4, 4, 2))
      if dw:
        y = QDepthwiseConv2D(2, depthwise_quantizer=WQ[kq](), bias_quantizer=BQ[bq](),
                             use_bias=use_bias, name="dw")(x)
      else:
        y = (conv_cls() if conv_cls else QConv2D)(2, 2, kernel_quantizer=WQ[kq](), bias_quantizer=BQ[bq](),
                                                  use_bias=use_bias, name="c2")(x)
      c = y
      if act_between:      # conv -> activation -> bn: the batch-norm does NOT directly follow the conv
        y = QActivation("quantized_relu(4,2)", name="act")(y)
      if bnk:
        y = bn(bnk)(y)
      if branch:
        y = K.layers.Add(name="add")([y, c])
      if pool == "avg":
        y = QAveragePooling2D(pool_size=(3, 3), strides=1,
                              average_quantizer=quantized_bits(6, 0, 1, alpha=1.0), name="pool")(y)
      elif pool == "avg2":
        y = QAveragePooling2D(pool_size=2, average_quantizer=quantized_bits(4, 0, 1), name="pool")(y)
      elif pool == "gap":
        y = QGlobalAveragePooling2D(average_quantizer=quantized_bits(8, 0, 1, alpha=1.0), name="gap")(y)
      elif pool == "avg_none":
        y = QAveragePooling2D(pool_size=2, name="pool")(y)
      elif pool == "avg3_none":
        y = QAveragePooling2D(pool_size=(3, 3), strides=1, name="pool")(y)     # 1/9: not a dyadic factor
      elif pool == "gap_none":
        y = QGlobalAveragePooling2D(name="gap")(y)
      elif pool == "avg12":          # non-square window: pool_area = np.prod((1, 2))
        y = QAveragePooling2D(pool_size=(1, 2), average_quantizer=quantized_bits(6, 0, 1, alpha=1.0),
                              name="pool")(y)
      elif pool == "avg_list":       # pool_size given as a list
        y = QAveragePooling2D(pool_size=[2, 2], average_quantizer=quantized_bits(6, 0, 1, alpha=1.0),
                              name="pool")(y)
      elif pool == "avg_sub":        # a user subclass of the pooling layer
        y = _user_subclasses(K)["MyPool"](pool_size=2, average_quantizer=quantized_bits(6, 0, 1, alpha=1.0),
                                          name="pool")(y)
      m = K.Model(inp, y, **({"name": mname} if mname else {}))
      (sw or set_w)(m)
      return m, xin((4, 4, 2))
    return f

  def mk_seq(bnk):
    """the Sequential route of find_bn_fusing_layer_pair (model.layers has no InputLayer)"""
    def f():
      m = K.Sequential([K.Input((4, 4, 2)),
                        QConv2D(2, 2, kernel_quantizer=WQ["fx"](), bias_quantizer=BQ["fx"](), name="c2"),
                        bn(bnk),
                        QActivation("quantized_relu(4,2)", name="act"),
                        QDepthwiseConv2D(2, depthwise_quantizer=WQ["po2"](), use_bias=False, name="dw"),
                        bn("fx", "bn1")], name="seq")
      set_w(m)
      return m, xin((4, 4, 2))
    return f

  def mk_pool_cf(pool):
    """channels_first pooling (pooling area read from the other axes)"""
    def f():
      x = inp = K.Input((2, 4, 6))
      if pool == "gap":
        y = QGlobalAveragePooling2D(data_format="channels_first",
                                    average_quantizer=quantized_bits(8, 0, 1, alpha=1.0), name="gap")(x)
      else:
        y = QAveragePooling2D(pool_size=(1, 2), data_format="channels_first",
                              average_quantizer=quantized_bits(8, 0, 1, alpha=1.0), name="pool")(x)
      m = K.Model(inp, y)
      return m, xin((2, 4, 6))
    return f

  def mk_shared(kq):
    """ONE quantizer object used by two layers of different shapes (its .scale attribute is state)"""
    def f():
      q = WQ[kq]()
      b = BQ["fx"]()
      x = inp = K.Input((4,))
      y = QDense(3, kernel_quantizer=q, bias_quantizer=b, name="d1")(x)
      y = QDense(2, kernel_quantizer=q, bias_quantizer=b, name="d2")(y)
      m = K.Model(inp, y)
      set_w(m)
      return m, xin((4,))
    return f

  def mk_sep(dq, pq, bq, sw=None):
    def f():
      x = inp = K.Input((4, 4, 2))
      y = QSeparableConv2D(2, 2, depthwise_quantizer=WQ[dq](), pointwise_quantizer=WQ[pq](),
                           bias_quantizer=BQ[bq](), name="sep")(x)
      m = K.Model(inp, y)
      (sw or set_w)(m)
      return m, xin((4, 4, 2))
    return f

  def mk_rnn(cls, kq, rq, bq, bidir=False, use_bias=True, sw=None):
    def f():
      x = inp = K.Input((3, 2))
      cell = {"rnn": QSimpleRNN, "lstm": QLSTM, "gru": QGRU}[cls]
      lay = cell(2, kernel_quantizer=WQ[kq](), recurrent_quantizer=WQ[rq](), bias_quantizer=BQ[bq](),
                 state_quantizer=quantized_bits(2, 0, 1, alpha=1.0), use_bias=use_bias,
                 name=None if bidir else "r")
      y = QBidirectional(lay, name="bi")(x) if bidir else lay(x)
      m = K.Model(inp, y)
      (sw or set_w)(m)
      return m, xin((3, 2))
    return f

  CELL = {"rnn": QSimpleRNN, "lstm": QLSTM, "gru": QGRU}

  def mk_bidir2(fc, bc, fqn, bqn, fub=True, bub=True, funits=2, bunits=2, share=False, sub=False):
    """QBidirectional(layer, backward_layer=<another recurrent layer>): the two directions are
    independent layers — other quantizers (kinds, widths, None), other class, bias, units"""
    def f():
      x = inp = K.Input((3, 2))
      cf, cb, wrap = CELL[fc], CELL[bc], QBidirectional
      if sub:
        U = _user_subclasses(K)
        cf, cb, wrap = U["My" + fc], U["My" + bc], U["MyBidir"]
      fk, fr, fb = WQ[fqn[0]](), WQ[fqn[1]](), BQ[fqn[2]]()
      if share:       # the very same quantizer OBJECTS in both directions
        bk, br, bb = fk, fr, fb
      else:
        bk, br, bb = WQ[bqn[0]](), WQ[bqn[1]](), BQ[bqn[2]]()
      fwd = cf(funits, kernel_quantizer=fk, recurrent_quantizer=fr, bias_quantizer=fb,
               state_quantizer=quantized_bits(2, 0, 1, alpha=1.0), use_bias=fub)
      bwd = cb(bunits, kernel_quantizer=bk, recurrent_quantizer=br, bias_quantizer=bb,
               state_quantizer=quantized_bits(3, 0, 1, alpha=1.0), use_bias=bub, go_backwards=True)
      y = wrap(fwd, backward_layer=bwd, name="bi")(x)
      m = K.Model(inp, y)
      set_w(m)
      return m, xin((3, 2))
    return f

  def mk_rnn_sub(cls, kq, rq, bq):
    def f():
      x = inp = K.Input((3, 2))
      y = _user_subclasses(K)["My" + cls](2, kernel_quantizer=WQ[kq](), recurrent_quantizer=WQ[rq](),
                                          bias_quantizer=BQ[bq](),
                                          state_quantizer=quantized_bits(2, 0, 1, alpha=1.0), name="r")(x)
      m = K.Model(inp, y)
      set_w(m)
      return m, xin((3, 2))
    return f

  def mk_bn_sub(scale, center, fused):
    """a user subclass of QBatchNormalization, stand-alone or right after a QConv2D"""
    def f():
      MyBN = _user_subclasses(K)["MyBN"]
      kw = dict(scale=scale, center=center, mean_quantizer=fx(6, 2, 0),
                variance_quantizer=quantized_bits(6, 2, 0, keep_negative=False, alpha=1.0), name="bn")
      if scale:
        kw["gamma_quantizer"] = fx(6, 2, 0)
      if center:
        kw["beta_quantizer"] = fx(5, 2, 0)
      if fused:
        x = inp = K.Input((4, 4, 2))
        y = QConv2D(2, 2, kernel_quantizer=WQ["fx"](), bias_quantizer=BQ["fx"](), name="c2")(x)
        shape = (4, 4, 2)
      else:
        x = inp = K.Input((4,))
        y = K.layers.Dense(3, name="pd")(x)
        shape = (4,)
      y = MyBN(**kw)(y)
      m = K.Model(inp, y)
      set_w(m)
      return m, xin(shape)
    return f

  def mk_bn_alone(bnk):
    """a batch-norm that is NOT fused (it follows a plain Dense): only the main loop touches it"""
    def f():
      x = inp = K.Input((4,))
      y = K.layers.Dense(3, name="pd")(x)
      y = bn(bnk)(y)
      m = K.Model(inp, y)
      set_w(m)
      return m, xin((4,))
    return f

  def mk_folded(kq, bq, sub=False):
    def f():
      x = inp = K.Input((4, 4, 2))
      cls = _user_subclasses(K)["MyFold"] if sub else QConv2DBatchnorm
      y = cls(2, 2, kernel_quantizer=WQ[kq](), bias_quantizer=BQ[bq](), name="fold")(x)
      m = K.Model(inp, y)
      set_w(m)
      return m, xin((4, 4, 2))
    return f

  def mk_chain():
    """conv+bn (fused), dw conv+bn (fused), plain Dense (not quantized), QDense"""
    def f():
      x = inp = K.Input((5, 5, 1), name="input")
      x = QConv2D(2, 2, kernel_quantizer=WQ["apo2"](), bias_quantizer=BQ["fx"](), name="conv")(x)
      x = bn("fx", "bn0")(x)
      x = QDepthwiseConv2D(2, depthwise_quantizer=WQ["apo2"](), use_bias=False, name="dw")(x)
      x = bn("inv_apo2", "bn1")(x)
      x = QActivation("quantized_relu(4,2)", name="act")(x)
      x = K.layers.Flatten(name="flat")(x)
      x = QDense(2, kernel_quantizer=WQ["apo2"](), bias_quantizer=BQ["fx"](), name="dense")(x)
      m = K.Model(inp, x)
      set_w(m, span=200)
      return m, xin((5, 5, 1))
    return f

  def mk_plain_dense():
    def f():
      x = inp = K.Input((4,))
      y = K.layers.Dense(3, name="pd")(x)
      y = QDense(2, kernel_quantizer=WQ["fx"](), bias_quantizer=BQ["fx"](), name="d")(y)
      m = K.Model(inp, y)
      set_w(m)
      return m, xin((4,))
    return f

  kqs = ["fx", "fx1", "fx_none", "po2", "po2m", "apo2", "bin1", "bin", "ter1", "ter", "none", "fxa2"]
  bqs = ["fx", "fxn", "po2", "none", "apo2"]
  # every kernel quantizer on QDense, with a rotating bias quantizer
  for n, kq in enumerate(kqs):
    bq = bqs[n % len(bqs)]
    if kq == "apo2" and bq == "apo2":
      bq = "fx"
    add("QDense[%s,%s]" % (kq, bq), {"cls": "QDense", "kq": kq, "bq": bq}, mk_dense(kq, bq))
  add("QDense[apo2,po2]", {"cls": "QDense", "kq": "apo2", "bq": "po2"}, mk_dense("apo2", "po2"))
  add("QDense[po2,po2]", {"cls": "QDense", "kq": "po2", "bq": "po2"}, mk_dense("po2", "po2"))
  add("QDense[po2,apo2]", {"cls": "QDense", "kq": "po2", "bq": "apo2"}, mk_dense("po2", "apo2"))
  add("QDense[apo2neg,fx]", {"cls": "QDense", "kq": "apo2neg", "bq": "fx"}, mk_dense("apo2neg", "fx"))
  add("QDense[fx,nobias]", {"cls": "QDense", "kq": "fx", "bq": "fx", "nobias": True},
      mk_dense("fx", "fx", use_bias=False))
  add("QDense[pruned_po2]", {"cls": "QDense", "kq": "pruned_po2", "bq": "fx"},
      _pruned_case(K, QDense, pruned_po2, fx, set_w, xin))
  add("Dense+QDense", {"cls": "Dense+QDense"}, mk_plain_dense())

  # quantizer-owning layers outside the library's own class lists: the export keys on the layer
  # HAVING get_quantizers(), not on its class name — QScaleShift (qmac.py) and user subclasses
  def mk_scaleshift(kq, bq):
    def f():
      from qkeras.qmac import QScaleShift
      x = inp = K.Input((4,))
      y = QDense(3, kernel_quantizer=WQ["fx"](), bias_quantizer=BQ["fx"](), name="d")(x)
      y = QScaleShift(weight_quantizer=WQ[kq](), bias_quantizer=BQ[bq](), name="ss")(y)
      m = K.Model(inp, y)
      set_w(m)
      return m, xin((4,))
    return f

  def mk_subclass(kq, bq):
    def f():
      U = _user_subclasses(K)
      MyDense, MyConv = U["MyDense"], U["MyConv"]
      x = inp = K.Input((4, 4, 1))
      y = MyConv(2, 2, kernel_quantizer=WQ[kq](), bias_quantizer=BQ[bq](), name="myc")(x)
      y = K.layers.Flatten(name="fl")(y)
      y = MyDense(2, kernel_quantizer=WQ[kq](), bias_quantizer=BQ[bq](), name="myd")(y)
      m = K.Model(inp, y)
      set_w(m)
      return m, xin((4, 4, 1))
    return f
  for kq, bq in [("fx", "fx"), ("po2", "fxn")]:
    add("QScaleShift[%s,%s]" % (kq, bq), {"cls": "QScaleShift", "kq": kq, "bq": bq}, mk_scaleshift(kq, bq))
    add("subclass[%s,%s]" % (kq, bq), {"cls": "user-subclass", "kq": kq, "bq": bq}, mk_subclass(kq, bq))
  for kq, bq in [("fx", "fx"), ("po2", "po2"), ("apo2", "fx"), ("ter1", "fxn")]:
    add("QConv1D[%s,%s]" % (kq, bq), {"cls": "QConv1D", "kq": kq, "bq": bq}, mk_conv1d(kq, bq))
  for kq, bq, bnk in [("fx", "fx", None), ("apo2", "fx", None), ("po2", "po2", None), ("bin", "fx", None),
                      ("fx", "fx", "default"), ("fx", "fxn", "fx"), ("apo2", "fx", "fx"),
                      ("po2", "po2", "inv"), ("apo2", "fx", "inv_apo2"), ("fx", "fx", "noq"),
                      ("fx", "fx", "noscale"), ("fx", "fx", "nocenter"), ("fx", "fxn", "noscale_nocenter"),
                      ("apo2", "fx", "noscale_po2")]:
    add("QConv2D[%s,%s]+bn[%s]" % (kq, bq, bnk), {"cls": "QConv2D", "kq": kq, "bq": bq, "bn": bnk},
        mk_conv2d(kq, bq, bnk))
  add("QConv2D[fx,nobias]+bn[fx]", {"cls": "QConv2D", "bn": "fx", "nobias": True},
      mk_conv2d("fx", "fx", "fx", use_bias=False))
  add("QConv2D+bn+branch", {"cls": "QConv2D", "bn": "fx", "branch": True},
      mk_conv2d("fx", "fx", "fx", branch=True))
  for kq, bq, bnk in [("fx", "fx", None), ("apo2", "fx", "fx"), ("po2", "fx", "default"),
                      ("fx", "none", "inv")]:
    add("QDepthwiseConv2D[%s,%s]+bn[%s]" % (kq, bq, bnk), {"cls": "QDepthwiseConv2D", "kq": kq, "bn": bnk},
        mk_conv2d(kq, bq, bnk, dw=True))
  for bnk in ["noscale", "nocenter", "noscale_nocenter", "noscale_po2", "fx"]:
    add("Dense+bn[%s]" % bnk, {"cls": "QBatchNormalization", "bn": bnk}, mk_bn_alone(bnk))
  for p in ["avg", "avg2", "gap", "avg_none", "avg3_none", "gap_none"]:
    add("QConv2D+pool[%s]" % p, {"cls": "pool", "pool": p}, mk_conv2d("fx", "fx", pool=p))
  for dq, pq, bq in [("fx", "fx", "fx"), ("apo2", "po2", "fx"), ("po2", "apo2", "po2"), ("ter1", "bin1", "none")]:
    add("QSeparableConv2D[%s,%s,%s]" % (dq, pq, bq), {"cls": "QSeparableConv2D", "dq": dq, "pq": pq},
        mk_sep(dq, pq, bq))
  for cls, kq, rq, bq in [("rnn", "fx", "fx", "fx"), ("rnn", "po2", "fx", "po2"), ("rnn", "apo2", "fx", "fx"),
                          ("lstm", "fx", "fx", "fx"), ("gru", "fx", "po2", "fx")]:
    add("Q%s[%s,%s,%s]" % (cls, kq, rq, bq), {"cls": cls, "kq": kq, "rq": rq}, mk_rnn(cls, kq, rq, bq))
  add("Qrnn[nobias]", {"cls": "rnn", "nobias": True}, mk_rnn("rnn", "fx", "fx", "fx", use_bias=False))
  # every slot a different quantizer family (a shifted pairing shows in the weights), the three cell
  # classes, and use_bias=False (two weights per direction against four quantizers)
  # (the backward layer here is the clone Keras makes; explicit backward layers follow below)
  for cls, kq, rq, bq, ub in [("rnn", "fx", "po2", "fxn", True), ("gru", "po2", "bin1", "fx", True),
                              ("lstm", "po2", "fx", "fx", False), ("rnn", "apo2", "fx", "po2", True)]:
    add("QBidirectional[%s,%s,%s,%s,bias=%s]" % (cls, kq, rq, bq, ub),
        {"cls": "bidir", "cell": cls, "kq": kq, "rq": rq, "nobias": not ub},
        mk_rnn(cls, kq, rq, bq, bidir=True, use_bias=ub))
  # -- strengthening round: QBidirectional with an EXPLICIT backward layer (seed C14-5 family).  The
  # directions differ in quantizer kinds / widths / None, in bias, in cell class and in units; all
  # three cell classes, with and without bias.
  B2 = [
      # fc,    bc,     forward [k, r, b],        backward [k, r, b],        fub,   bub,  fu bu
      ("lstm", "lstm", ("fx6", "fx6", "fx6"), ("po2m", "fx3", "ter1"), True, True, 2, 2),     # the seed's demo
      ("gru", "gru", ("fx6", "po2", "fx3"), ("ter1", "fx3", "po2"), True, True, 2, 2),
      ("rnn", "rnn", ("po2", "fx3", "fxn"), ("none", "none", "none"), True, True, 2, 2),      # quantized vs None
      ("lstm", "lstm", ("fx6", "fx3", "fx"), ("fx3", "po2", "fx"), False, False, 2, 2),        # no bias at all
      ("gru", "gru", ("none", "none", "fx"), ("fx3", "ter1", "fx"), False, False, 2, 2),      # None vs quantized
      ("rnn", "rnn", ("fx6", "fx6", "fx"), ("po2", "fx3", "fx"), False, False, 2, 2),
      ("rnn", "rnn", ("fx6", "fx6", "fx6"), ("fx3", "fx3", "fx3"), True, True, 2, 2),          # same kind, other widths
      ("rnn", "gru", ("fx6", "fx6", "fx6"), ("apo2", "fx3", "po2"), True, True, 2, 2),         # auto_po2 + po2 backward
      ("gru", "rnn", ("fx6", "fx3", "fx6"), ("po2", "fx6", "fx3"), True, False, 2, 2),         # bias only forward, other class
      ("rnn", "lstm", ("po2", "fx6", "fx"), ("fx3", "fx6", "po2"), False, True, 2, 3),         # bias only backward, other units
  ]
  for fc, bc, fqn, bqn, fub, bub, fu, bu in B2:
    add("QBidirectional[%s(%s,bias=%s,%d) <-> backward_layer=%s(%s,bias=%s,%d)]"
        % (fc, ",".join(fqn), fub, fu, bc, ",".join(bqn), bub, bu),
        {"cls": "bidir", "cell": fc, "bcell": bc, "explicit_backward": True, "nobias": not fub,
         "bnobias": not bub}, mk_bidir2(fc, bc, fqn, bqn, fub, bub, fu, bu))
  add("QBidirectional[rnn, backward_layer shares the quantizer objects]",
      {"cls": "bidir", "explicit_backward": True, "shared_q": True},
      mk_bidir2("rnn", "rnn", ("fx6", "po2", "fx3"), None, share=True))
  add("subclass[MyBidir(Myrnn, backward_layer=Mygru)]",
      {"cls": "user-subclass", "base": "bidir", "explicit_backward": True},
      mk_bidir2("rnn", "gru", ("fx6", "fx3", "fx6"), ("po2", "fx6", "ter1"), True, False, sub=True))
  add("subclass[Mylstm]", {"cls": "user-subclass", "base": "rnn"}, mk_rnn_sub("lstm", "po2", "fx3", "fx6"))
  # -- user subclasses of the other classes the export treats specially
  for sc, ce, fused in [(True, True, False), (True, True, True), (False, True, False), (True, False, True),
                        (False, False, False), (True, False, False), (False, True, True)]:
    add("subclass[MyBN(scale=%s,center=%s)%s]" % (sc, ce, " after QConv2D" if fused else ""),
        {"cls": "user-subclass", "base": "QBatchNormalization", "bn_scale": sc, "bn_center": ce},
        mk_bn_sub(sc, ce, fused))
  add("subclass[MyConv]+bn[fx]", {"cls": "user-subclass", "base": "QConv2D", "bn": "fx"},
      mk_conv2d("fx", "fx", "fx", conv_cls=lambda: _user_subclasses(K)["MyConv"]))
  add("subclass[MyFold]", {"cls": "user-subclass", "base": "folded"}, mk_folded("po2", "fx", sub=True))
  add("subclass[MyPool]", {"cls": "user-subclass", "base": "pool"}, mk_conv2d("fx", "fx", pool="avg_sub"))
  # -- process-level state: DIFFERENT models with IDENTICAL model and layer names, back to back
  # (conv -> bn is fusable, conv -> activation -> bn is not), then the first one again
  add("twin[net: conv->bn]", {"cls": "QConv2D", "bn": "fx", "twin": "A"},
      mk_conv2d("fx", "fx", "fx", mname="net"), rew=None)
  add("twin[net: conv->act->bn]", {"cls": "QConv2D", "bn": "fx", "twin": "B"},
      mk_conv2d("fx", "fx", "fx", mname="net", act_between=True), rew=None)
  add("twin[net: conv->bn again]", {"cls": "QConv2D", "bn": "inv", "twin": "A2"},
      mk_conv2d("fx", "fxn", "inv", mname="net"), rew=1)
  add("twin[net: dense]", {"cls": "QDense", "twin": "C"}, mk_dense("po2", "fx", mname="net"), rew=None)
  # -- API routes: Sequential, filename=, custom_objects=, allow_list=
  add("Sequential[conv+bn(noscale),act,dw+bn]", {"cls": "sequential", "bn": "noscale"}, mk_seq("noscale"))
  add("QConv2D[apo2,fx]+bn[fx] filename=", {"cls": "QConv2D", "route": "filename"},
      mk_conv2d("apo2", "fx", "fx"), rew=1, export_kw={"filename": "@tmp"})
  add("QBidirectional[explicit backward] filename=", {"cls": "bidir", "route": "filename"},
      mk_bidir2("rnn", "gru", ("fx6", "fx3", "fx6"), ("po2", "ter1", "fx3"), True, False), rew=None,
      export_kw={"filename": "@tmp"})
  add("unregistered subclass, custom_objects=", {"cls": "user-subclass", "route": "custom_objects"},
      _unregistered_case(K, QDense, QConv2D, WQ, BQ, bn, set_w, xin), export_kw={"custom_objects": "@unregistered"},
      no_sparsity=True)
  add("Dense+QDense allow_list=[QDense]", {"cls": "Dense+QDense", "route": "allow_list"}, mk_plain_dense(),
      sparsity_kw={"allow_list": ["QDense"]})
  add("QConv2D+bn allow_list=[QConv2D,QBatchNormalization]", {"cls": "QConv2D", "bn": "fx", "route": "allow_list"},
      mk_conv2d("ter1", "fx", "fx"), sparsity_kw={"allow_list": ["QConv2D", "QBatchNormalization"]})
  # -- one quantizer object used by two layers; argument forms of the quantizers
  for kq in ["apo2", "po2", "fx"]:
    add("shared quantizer object[%s]" % kq, {"cls": "QDense", "kq": kq, "shared_q": True}, mk_shared(kq))
  for kq, bq in [("s_apo2", "s_po2"), ("s_po2", "np_fx"), ("s_fx", "fx"), ("np_apo2", "po2"), ("fl_apo2", "fx"),
                 ("np_fx", "np_fx")]:
    add("QDense[%s,%s]" % (kq, bq), {"cls": "QDense", "kq": kq, "bq": bq, "argform": True}, mk_dense(kq, bq))
  for p_ in ["avg12", "avg_list"]:
    add("QConv2D+pool[%s]" % p_, {"cls": "pool", "pool": p_}, mk_conv2d("fx", "fx", pool=p_))
  for p_ in ["gap", "avg12"]:
    add("pool[%s,channels_first]" % p_, {"cls": "pool", "pool": p_ + "_cf"}, mk_pool_cf(p_))
  add("QConv2DBatchnorm[fx,fx]", {"cls": "folded", "kq": "fx"}, mk_folded("fx", "fx"))
  add("QConv2DBatchnorm[po2,fx]", {"cls": "folded", "kq": "po2"}, mk_folded("po2", "fx"))
  add("chain(conv+bn,dw+bn,dense)", {"cls": "chain"}, mk_chain())
  # -- strengthening round (seed C14-9 family): the option lattice of the auto_po2 quantizer the
  # export's split reads — keep_negative (False / 0 / np.False_ / True / 1) x bits x integer
  # (negative too) x argument form (object, string, alpha=None turned into auto_po2 by the layer)
  # x weight slot (kernel, bias, depthwise, batch-norm gamma / variance; recurrent layers through the
  # random extras) x post-training (frozen) scale x weight
  # regime: weights that ARE codes of the declared format with the maximum in every scale group
  # (quantizer.scale == 1 exactly: the property's clause applies in full — integer codes inside
  # [0, 2^bits-1] resp. [-(2^(bits-1)-1), 2^(bits-1)-1], scale = step of the format), non-negative
  # and mixed-sign, and the ordinary dyadic weights (scale != 1).
  def addu(label, feats, mk, ub, i, neg, **kw):
    feats = dict(feats, autopo2_unsigned=True, codes=True, negative_codes=neg)
    sw = set_w_codes(ub, i, neg)
    add(label + (" codes+-" if neg else " codes+"), feats, mk(sw), reweigh=sw, **kw)
  addu("QDense[apo2u40,fx]", {"cls": "QDense", "kq": "apo2u40", "bq": "fx"},
       lambda sw: mk_dense("apo2u40", "fx", sw=sw), 4, 0, False)                 # the seed's demo
  addu("QDense[apo2u40,none]", {"cls": "QDense", "kq": "apo2u40", "bq": "none"},
       lambda sw: mk_dense("apo2u40", "none", sw=sw), 4, 0, True)                # negative codes
  # argument forms of keep_negative (falsy int, np.False_, inside a string; truthy int), a negative
  # integer, an unsigned auto_po2 bias — ONE model
  CH = [("apo2u40_0", "fx", 4, 0, False), ("apo2u40_np", "fx", 4, 0, False), ("s_apo2u40", "fx", 4, 0, False),
        ("apo2s51_1", "po2", 4, 1, True), ("apo2u4n", "apo2u40", 4, -1, False)]
  f_ch, sw_ch = mk_dense_chain(CH)
  add("QDense x5[%s] codes" % ",".join(c[0] for c in CH),
      {"cls": "QDense", "kq": "autopo2-forms", "argform": True, "autopo2_unsigned": True, "codes": True},
      f_ch, reweigh=sw_ch)
  addu("QConv2D[apo2u40,fx]+bn[fx]", {"cls": "QConv2D", "kq": "apo2u40", "bq": "fx", "bn": "fx"},
       lambda sw: mk_conv2d("apo2u40", "fx", "fx", sw=sw), 4, 0, False)
  addu("QDepthwiseConv2D[apo2u30,nobias]", {"cls": "QDepthwiseConv2D", "kq": "apo2u30", "nobias": True},
       lambda sw: mk_conv2d("apo2u30", "fx", None, use_bias=False, dw=True, sw=sw), 3, 0, False)
  addu("QSeparableConv2D[apo2u40,po2,fx]", {"cls": "QSeparableConv2D", "dq": "apo2u40", "pq": "po2"},
       lambda sw: mk_sep("apo2u40", "po2", "fx", sw=sw), 4, 0, False)
  addu("QDense[apo2ufz40,fx] frozen scale", {"cls": "QDense", "kq": "apo2ufz40", "bq": "fx", "frozen": True},
       lambda sw: mk_dense("apo2ufz40", "fx", sw=sw), 4, 0, False)
  add("QDense[apo2fz40,fx] frozen scale", {"cls": "QDense", "kq": "apo2fz40", "bq": "fx", "frozen": True},
      mk_dense("apo2fz40", "fx"))
  # ordinary dyadic weights (mixed sign, scale != 1) and the batch-norm slots
  add("QDense[apo2u,apo2u]", {"cls": "QDense", "kq": "apo2u", "bq": "apo2u", "autopo2_unsigned": True},
      mk_dense("apo2u", "apo2u"))
  add("Dense+bn[var_apo2u]", {"cls": "QBatchNormalization", "bn": "var_apo2u", "autopo2_unsigned": True},
      mk_bn_alone("var_apo2u"))
  # -- seeded random extras
  kqs = kqs[:-1] + ["apo2u", kqs[-1]]      # the last entry (fxa2) is never drawn by the extras
  bqs = bqs + ["apo2u"]
  n_extra = 4 if tier == "quick" else 300
  for j in range(n_extra):
    t = int(rng.integers(0, 6))
    kq = kqs[int(rng.integers(0, len(kqs) - 1))]      # fxa2 only in the fixed list
    bq = bqs[int(rng.integers(0, len(bqs)))]
    if kq == "apo2" and bq == "apo2":
      bq = "fx"
    if t == 0:
      add("r%d:QDense[%s,%s]" % (j, kq, bq), {"cls": "QDense", "kq": kq, "bq": bq}, mk_dense(kq, bq))
    elif t == 1:
      bnk = [None, "default", "fx", "inv", "inv_apo2", "noscale", "nocenter",
             "noscale_nocenter"][int(rng.integers(0, 8))]
      add("r%d:QConv2D[%s,%s]+bn[%s]" % (j, kq, bq, bnk), {"cls": "QConv2D", "kq": kq, "bq": bq, "bn": bnk},
          mk_conv2d(kq, bq, bnk))
    elif t == 2:
      bnk = [None, "fx", "default"][int(rng.integers(0, 3))]
      add("r%d:QDepthwiseConv2D[%s,%s]+bn[%s]" % (j, kq, bq, bnk),
          {"cls": "QDepthwiseConv2D", "kq": kq, "bn": bnk}, mk_conv2d(kq, bq, bnk, dw=True))
    elif t == 3:
      pq = kqs[int(rng.integers(0, len(kqs) - 1))]
      if kq == "apo2" and pq == "apo2":
        pq = "fx"
      add("r%d:QSeparableConv2D[%s,%s,%s]" % (j, kq, pq, bq), {"cls": "QSeparableConv2D", "dq": kq, "pq": pq},
          mk_sep(kq, pq, bq))
    elif t == 4:
      add("r%d:QConv1D[%s,%s]" % (j, kq, bq), {"cls": "QConv1D", "kq": kq, "bq": bq}, mk_conv1d(kq, bq))
    else:
      cell = ["rnn", "lstm", "gru"][int(rng.integers(0, 3))]
      rq = ["fx", "po2", "ter1", "bin1"][int(rng.integers(0, 4))]
      ub = bool(rng.integers(0, 2))
      bd = int(rng.integers(0, 3))          # 0: plain, 1: bidirectional (cloned), 2: explicit backward layer
      if bd == 2:
        bcell = ["rnn", "lstm", "gru"][int(rng.integers(0, 3))]
        bk = kqs[int(rng.integers(0, len(kqs) - 1))]
        br = ["fx", "po2", "ter1", "bin1", "none"][int(rng.integers(0, 5))]
        bb = bqs[int(rng.integers(0, len(bqs)))]
        if bk == "apo2" and bb == "apo2":
          bb = "fx"
        bub = bool(rng.integers(0, 2))
        bu = int(rng.integers(1, 4))
        add("r%d:QBidirectional[%s(%s,%s,%s,bias=%s) <-> backward_layer=%s(%s,%s,%s,bias=%s,%d)]"
            % (j, cell, kq, rq, bq, ub, bcell, bk, br, bb, bub, bu),
            {"cls": "bidir", "cell": cell, "bcell": bcell, "explicit_backward": True, "nobias": not ub,
             "bnobias": not bub},
            mk_bidir2(cell, bcell, (kq, rq, bq), (bk, br, bb), ub, bub, 2, bu))
      else:
        add("r%d:Q%s[%s,%s,%s,bidir=%s,bias=%s]" % (j, cell, kq, rq, bq, bool(bd), ub),
            {"cls": "bidir" if bd else cell, "kq": kq, "rq": rq, "nobias": not ub},
            mk_rnn(cell, kq, rq, bq, bidir=bool(bd), use_bias=ub))
  return cases


_USER_SUBCLASSES = {}


def _user_subclasses(K):
  """user layers derived from quantized layers (registered with Keras, as a user has to for clone/save)"""
  if not _USER_SUBCLASSES:
    import qkeras

    def derive(name, base):
      cls = type(name, (base,), {"__module__": __name__})
      _USER_SUBCLASSES[name] = K.utils.register_keras_serializable(package="qkv")(cls)
    derive("MyDense", qkeras.QDense)
    derive("MyConv", qkeras.QConv2D)
    derive("Myrnn", qkeras.QSimpleRNN)
    derive("Mylstm", qkeras.QLSTM)
    derive("Mygru", qkeras.QGRU)
    derive("MyBidir", qkeras.QBidirectional)
    derive("MyBN", qkeras.QBatchNormalization)
    derive("MyPool", qkeras.QAveragePooling2D)
    derive("MyFold", qkeras.QConv2DBatchnorm)
  return _USER_SUBCLASSES


_UNREGISTERED = {}


def _unregistered(QDense, QConv2D):
  """user subclasses NOT registered with Keras: cloning them needs custom_objects="""
  if not _UNREGISTERED:
    _UNREGISTERED["UDense"] = type("UDense", (QDense,), {"__module__": __name__})
    _UNREGISTERED["UConv"] = type("UConv", (QConv2D,), {"__module__": __name__})
  return _UNREGISTERED


def _unregistered_case(K, QDense, QConv2D, WQ, BQ, bn, set_w, xin):
  def f():
    U = _unregistered(QDense, QConv2D)
    x = inp = K.Input((4, 4, 2))
    y = QConv2D(2, 2, kernel_quantizer=WQ["fx"](), bias_quantizer=BQ["fx"](), name="c2")(x)
    y = bn("fx")(y)
    y = U["UConv"](2, 2, kernel_quantizer=WQ["po2"](), bias_quantizer=BQ["fx"](), name="uc")(y)
    y = K.layers.Flatten(name="fl")(y)
    y = U["UDense"](2, kernel_quantizer=WQ["fx"](), bias_quantizer=BQ["po2"](), name="ud")(y)
    m = K.Model(inp, y)
    set_w(m)
    return m, xin((4, 4, 2))
  return f


def _pruned_case(K, QDense, pruned_po2, fx, set_w, xin):
  def f():
    x = inp = K.Input((4,))
    y = QDense(3, kernel_quantizer=pruned_po2(), bias_quantizer=fx(), name="d")(x)
    m = K.Model(inp, y)
    set_w(m)
    # the point of this case is a po2 weight that IS zero (exponent log2(0) = -inf): do not leave it
    # to the 12 % zero share of `dyadic` (seed C14-3 was caught or not depending on the draw)
    k, b = m.get_layer("d").get_weights()
    k[0, 0] = 0.0
    k[-1, -1] = 0.0
    m.get_layer("d").set_weights([k, b])
    return m, xin((4,))
  return f


# --------------------------------------------------------------------------- the check

def eq_tensors(a, b):
  return a == b


def run(run: core.Run, tier: str):
  core.assert_repo_import()
  import tensorflow as tf
  from qkeras import utils as qutils
  rng = np.random.default_rng(run.seed)
  run.extra["rule"] = (
      "tiny Keras models (functional and Sequential) over QDense / QConv1D / QConv2D / QDepthwiseConv2D / "
      "QSeparableConv2D / QSimpleRNN / QLSTM / QGRU / QBidirectional (cloned backward layer, and an "
      "EXPLICIT backward_layer with other quantizers / bias / class / units) / user subclasses of all "
      "of these / QConv2DBatchnorm / QAveragePooling2D / "
      "QGlobalAveragePooling2D (with / without average quantizer) / QBatchNormalization (scale and "
      "center, inverse quantizer, scale=False, center=False, both False; fused and stand-alone) "
      "x weight quantizers (quantized_bits fixed, 1-bit, alpha=2, auto_po2 — signed and UNSIGNED "
      "(keep_negative False / 0 / np.False_ / True / 1), negative integer, post-training scale —, "
      "quantized_po2, binary, ternary, None, a zero-preserving po2 function) x dyadic weights with "
      "exact zeros and saturating values, and weights that are codes of the auto_po2 quantizer's declared "
      "format (quantizer.scale exactly 1: the rebuild / integer / range clause applies in full) x a history of three exports on one model object (third via "
      "get_model_sparsity; new weights assigned between two exports in 2 of 3 variants), all in one "
      "process with identical model / layer names; routes filename= / custom_objects= / allow_list=; "
      "non-trivial = distinct (model template, quantizers, export round); branch histogram = "
      "export branches taken per (quantizer kind) and layer kinds")
  N = 3
  cases = build_cases(rng, tier, rot0=int(run.seed))
  reals = []
  tmpdir = tempfile.mkdtemp(prefix="qkv-c14-")
  try:
    for j, c in enumerate(cases):
      if c.export_kw.get("filename") == "@tmp":
        c.export_kw["filename"] = os.path.join(tmpdir, "w%d.h5" % j)
      if c.export_kw.get("custom_objects") == "@unregistered":
        from qkeras import QDense, QConv2D
        c.export_kw["custom_objects"] = dict(_unregistered(QDense, QConv2D))
      try:
        # clear_session: Keras hands out the same model / layer names ("model", "q_dense", ...) again,
        # so consecutive cases are DIFFERENT models with IDENTICAL names in one process
        tf.keras.backend.clear_session()
        r = RealRun(c, N)
      except Exception as e:  # pylint: disable=broad-except
        raise core.InfraError("building/running case %s failed: %r" % (c.label, e))
      reals.append(r)
      run.count("history_" + {None: "export_export_sparsity", 1: "export_NEW_export_sparsity",
                              2: "export_export_NEW_sparsity"}[r.rew])
  finally:
    shutil.rmtree(tmpdir, ignore_errors=True)
  lines = [r.line(N) for r in reals]
  outs = core.run_driver("C14", lines)

  judge_lines, judge_meta = [], []
  for r, o in zip(reals, outs):
    _compare_case(run, r, o, N, judge_lines, judge_meta)

  # ---- freeze route: clone_model_and_freeze_auto_po2_scale on sequential auto_po2 models
  _freeze_route(run, rng, tier, judge_lines, judge_meta)

  # ---- clause oracle evaluated by Lean on the real outputs
  jouts = core.run_driver("C14", judge_lines)
  for meta, jo in zip(judge_meta, jouts):
    meta(jo)
  run.extra["judge_lines"] = len(judge_lines)
  run.assumptions.append(
      "quantizer numerics enter the export model as oracle tables filled by standalone calls of the "
      "real quantizer objects (their correctness is C01-C05); quantized_bits with a constant scale "
      "is computed by the C01 Lean model")
  run.assumptions.append(
      "rsqrt is an oracle table (TF op evaluated on the same float32 argument); the other float32 "
      "steps of add_bn_fusing_weights are simulated by rnd32 (round-to-nearest-even, normal range)")
  run.assumptions.append(
      "get_folded_weights of folded layers is an oracle input (the fold itself is C15)")


def _site(r):
  """flags that identify which known defect a failing clause belongs to"""
  return r.case.feats.get("cls")


def _compare_case(run, r, o, N, judge_lines, judge_meta):
  model = r.model
  layers = model.layers
  label = r.case.label
  mirrored = True
  n_dis0 = len(run.disagreements)

  # -- static: fusing pairs
  names = {l.name: i for i, l in enumerate(layers)}
  if r.pairs is None:
    run.count("fuse_pairs_standalone_call_skipped_no_conv")
  elif isinstance(r.pairs, tuple) and r.pairs and r.pairs[0] == "err":
    run.disagree("fuse_pairs", {"case": label}, r.pairs, o["pairs"])
  else:
    pd, skip = r.pairs
    impl_pairs = sorted([names[a], names[b]] for a, b in pd.items())
    run.compared += 1
    if impl_pairs != sorted(o["pairs"]) or sorted(names[s] for s in skip) != sorted(o["skip"]):
      run.disagree("fuse_pairs", {"case": label}, {"pairs": impl_pairs}, {"pairs": o["pairs"], "skip": o["skip"]})
    run.count("fused_pairs", len(impl_pairs))
    # clause: a pair is selected iff conv/dw-conv with exactly one consumer which is a QBatchNormalization
    spec = []
    for i, l in enumerate(layers):
      if l.__class__.__name__ in ("QConv2D", "QDepthwiseConv2D") and len(r.succ[i]) == 1 and \
         r.succ[i][0] < r.n and layers[r.succ[i][0]].__class__.__name__ == "QBatchNormalization":
        spec.append([i, r.succ[i][0]])
    if spec != impl_pairs:
      run.violate("fuse_selection", {"site": "find_bn_fusing_layer_pair"},
                  {"case": label, "impl": impl_pairs, "expected": spec}, mirrored=impl_pairs == sorted(o["pairs"]))

  all_indep = not r.data_dep
  for rd in range(len(r.errs)):
    mo = o["exports"][rd]
    Wb, Wa = r.Wb[rd], r.Wa[rd]
    fresh = r.fresh[rd]
    run.count("history_first_export" if rd == 0 else
              ("history_export_after_new_weights" if fresh else "history_export_again"))
    key_case = (label, rd)
    run.case(key_case, sample={"case": label, "round": rd,
                               "quantizers": [[q_label(q) for q in qs] for qs in r.qs],
                               "err": r.errs[rd]} if len(run.samples) < 6 else None)
    run.count("round_%d" % rd)
    # -- errors
    if r.errs[rd] is not None or "err" in mo:
      run.compared += 1
      if r.errs[rd] != mo.get("err"):
        run.disagree("export_error", {"case": label, "round": rd}, r.errs[rd], mo.get("err"))
        mirrored = False
      run.count("err_" + str(r.errs[rd]))
      if r.errs[rd] is not None:
        run.violate("export_raises", {"site": "raises", "err": r.errs[rd], "cls": r.case.feats.get("cls"),
                                      "pool": r.case.feats.get("pool"), "kq": r.case.feats.get("kq")},
                    {"case": label, "round": rd, "err": r.errs[rd]}, mirrored=r.errs[rd] == mo.get("err"))
      break
    # -- weights after export: model vs impl
    impl_w = [[fr(t) for t in ws] for ws in Wa]
    model_w = [[[core.unrj(p) for p in t] for t in ws] for ws in mo["w"]]
    run.compared += 1
    case_ok = True
    if impl_w != model_w:
      bad = [i for i in range(r.n) if impl_w[i] != model_w[i]]
      run.disagree("weights_after_export", {"case": label, "round": rd, "layers": bad,
                                            "quantizers": [[q_label(q) for q in qs] for qs in r.qs]},
                   {"w": [[str(v) for v in t] for t in impl_w[bad[0]]]},
                   {"w": [[str(v) for v in t] for t in model_w[bad[0]]]})
      case_ok = False
    # -- dict: model vs impl
    d = r.dicts[rd]
    if d is not None:
      cd = canon_dict(d, model, Wb)
      md = [model_entry(e) for e in mo["d"]]
      run.compared += 1
      cd_cmp = [{k: v for k, v in e.items() if k not in ("keys", "neg_inf")} for e in cd]
      if cd_cmp != md:
        first = next((j for j in range(min(len(cd_cmp), len(md))) if cd_cmp[j] != md[j]), None)
        det_i = None if first is None else {k: str(cd_cmp[first][k])[:300] for k in cd_cmp[first]
                                            if cd_cmp[first][k] != md[first].get(k)}
        det_m = None if first is None else {k: str(md[first].get(k))[:300] for k in cd_cmp[first]
                                            if cd_cmp[first][k] != md[first].get(k)}
        run.disagree("dict", {"case": label, "round": rd, "n_impl": len(cd_cmp), "n_model": len(md),
                              "entry": first}, det_i, det_m)
        case_ok = False
    else:
      cd = None
    if not case_ok:
      mirrored = False
    # -- sparsity (third export goes through get_model_sparsity)
    if d is None and r.sparsity is not None:
      total, per = r.sparsity
      z, a = mo["sparsity"]
      run.compared += 1
      m_total = (z / a) if a else 0.0
      if float(total) != float(np.float64(z) / np.float64(a) if a else 0.0):
        run.disagree("sparsity", {"case": label}, float(total), [z, a])
      # clause: equals the zero fraction of the weights the allowed layers hold after the export
      zs = al = 0
      allow_list = r.case.sparsity_kw.get("allow_list") or ALLOW
      for i, l in enumerate(layers):
        if l.__class__.__name__ in allow_list and hasattr(l, "quantizers"):
          ws = r.folded_at(rd)[i] if r.kinds[i] == "folded" else Wa[i]
          for t in ws:
            zs += int(np.sum(np.asarray(t) == 0))
            al += int(np.size(t))
      exp = (np.float64(zs) / np.float64(al)) if al else 0.0
      if float(total) != float(exp):
        run.violate("sparsity", {"site": "get_model_sparsity"},
                    {"case": label, "impl": float(total), "expected": float(exp)}, mirrored=case_ok)
      run.count("sparsity_checked")
      del m_total

    # ---- clause oracle on the real outputs
    for i, l in enumerate(layers):
      kind = r.kinds[i]
      cls = l.__class__.__name__
      if kind == "noq":
        if [key_of(t) for t in Wb[i]] != [key_of(t) for t in Wa[i]]:
          run.violate("unquantized_untouched", {"site": "noq", "cls": cls}, {"case": label, "layer": l.name},
                      mirrored=case_ok)
        continue
      run.count("layer_" + kind)
      qs = r.qs[i]
      own = r.fwd[i]
      if kind == "folded":
        # not written back; dict must hold q(folded)
        if [key_of(t) for t in Wb[i]] != [key_of(t) for t in Wa[i]]:
          run.violate("folded_not_written", {"site": "folded", "cls": cls}, {"case": label}, mirrored=case_ok)
        src = r.folded_at(rd)[i]
      else:
        src = Wb[i]
      expect = []
      for k, w in enumerate(src):
        q = qs[own[k]] if k < len(own) and own[k] < len(qs) else None
        expect.append(r.tables[id(q)].call(w) if q is not None else f32a(w))
        run.count("q_" + str(q_kind(q)))
      isbn = is_a(l, "QBatchNormalization")
      site = {"site": "zip", "cls": cls,
              "bn_scale": bool(getattr(l, "scale", True)) if isbn else None,
              "bn_center": bool(getattr(l, "center", True)) if isbn else None}
      if bn_subclass(l):
        site["bn_user_subclass"] = True
      if kind != "folded":
        got = Wa[i]
        if [key_of(t) for t in got] != [key_of(t) for t in expect]:
          badk = [k for k in range(len(got)) if key_of(got[k]) != key_of(expect[k])]
          run.violate("quantized_once", site,
                      {"case": label, "round": rd, "layer": l.name, "weight_index": badk,
                       "quantizers": [q_label(q) for q in qs],
                       "previous": [str(v) for v in fr(src[badk[0]])][:16],
                       "stored": [str(v) for v in fr(got[badk[0]])][:16],
                       "own_quantizer_once": [str(v) for v in fr(expect[badk[0]])][:16]},
                      mirrored=case_ok)
      stored = expect if kind == "folded" else Wa[i]
      if cd is None:
        continue
      ent = next((e for e in cd if e["i"] == i), None)
      if ent is None:
        run.violate("dict_entry_missing", {"site": "dict", "cls": cls}, {"case": label, "layer": l.name},
                    mirrored=case_ok)
        continue
      # po2 / auto_po2 relations, by the quantizer that OWNS the weight
      n_po2_seen = 0
      for k, w in enumerate(stored):
        q = qs[own[k]] if k < len(own) and own[k] < len(qs) else None
        kd = q_kind(q)
        if k >= len(ent["hw"]):
          continue
        if kd in ("po2", "relu_po2"):
          sign = None
          if kd == "po2":
            sg = ent["signs"]
            sign = sg[k] if (sg is not None and k < len(sg)) else "missing"
          has_auto = sum(1 for kk in range(k) if kk < len(own) and own[kk] < len(qs) and
                         q_kind(qs[own[kk]]) == "autopo2") > 0
          line = {"op": "judge_po2", "stored": enc(w), "hw": [[f.numerator, f.denominator] for f in ent["hw"][k]],
                  "neg_inf": ent["neg_inf"][k],
                  "sign": None if sign is None else ([[f.numerator, f.denominator] for f in sign]
                                                    if sign != "missing" else [])}
          judge_lines.append(line)

          def meta(jo, label=label, rd=rd, l=l, k=k, cls=cls, has_auto=has_auto,
                   case_ok=case_ok, kd=kd, w=w, ent=ent):
            run.evaluations += 1
            if not jo["ok"]:
              run.violate("po2_rebuild", {"site": "po2", "cls": cls,
                                          "autopo2_weight_before": has_auto, "kind": kd},
                          {"case": label, "round": rd, "layer": l.name, "weight_index": k,
                           "stored": [str(v) for v in fr(w)][:12], "exponent": [str(v) for v in ent["hw"][k]][:12],
                           "signs": str(ent["signs"])[:300]}, mirrored=case_ok)
          judge_meta.append(meta)
          n_po2_seen += 1
        elif kd == "autopo2":
          sc = ent["scales"]
          scale = sc[k] if (sc is not None and k < len(sc)) else []
          qscale = r.tables[id(q)].rows.get(key_of(src[k]), (None, None, None))[2]
          one = bool(qscale is not None and np.all(qscale == 1.0))
          line = {"op": "judge_autopo2", "stored": enc(w),
                  "hw": [[f.numerator, f.denominator] for f in ent["hw"][k]],
                  "scale": [[f.numerator, f.denominator] for f in scale], "bits": int(q.bits),
                  "keep_negative": bool(q.keep_negative)}
          judge_lines.append(line)

          def meta2(jo, label=label, rd=rd, l=l, k=k, cls=cls, one=one,
                    case_ok=case_ok, w=w, ent=ent, scale=scale, q=q, qscale=qscale):
            run.evaluations += 1
            kn = bool(q.keep_negative)
            run.count(("autopo2_scale_is_one" if one else "autopo2_scale_not_one") + ("" if kn else "_unsigned"))
            if one and jo["integer"] and jo["range"] and jo["rebuild"]:
              run.count("autopo2_clause_holds_in_full" + ("" if kn else "_unsigned"))
            for cl in ("rebuild", "integer", "range", "scale_po2"):
              if not jo[cl]:
                run.violate("autopo2_" + cl, {"site": "autopo2_split", "quantizer_scale_is_one": one,
                                              "keep_negative": kn,
                                              # an UNSIGNED quantizer handed a negative weight on
                                              "unsigned_negative_weight": (not kn) and (not jo["nonneg"])},
                            {"case": label, "round": rd, "layer": l.name, "weight_index": k,
                             "quantizer": q_label(q), "declared_range": (
                                 "[-(2^%d-1), 2^%d-1]" % (int(q.bits) - 1, int(q.bits) - 1) if kn
                                 else "[0, 2^%d-1]" % int(q.bits)),
                             "quantizer.scale": None if qscale is None else [str(v) for v in fr(qscale)][:8],
                             "stored": [str(v) for v in fr(w)][:8], "hw": [str(v) for v in ent["hw"][k]][:8],
                             "exported_scale": [str(v) for v in scale][:8]}, mirrored=case_ok)
          judge_meta.append(meta2)
      # pooling
      if i in r.pool:
        area, mf, qm = r.pool[i]
        p = ent["pool"]
        if p is None or p[0] != F(qm) or p[1] != F(mf) or p[2] != F(area):
          run.violate("pool", {"site": "pool", "cls": cls}, {"case": label, "impl": str(p),
                                                            "expected": [str(qm), str(mf), area]}, mirrored=case_ok)
        run.count("pool_checked")
      # bn terms, judged on the parameters held AFTER the export
      if ent["fused_bn"] is not None:
        b = ent["fused_bn"]
        bnl = layers[b]
        iq = r.qs[b][4]
        bpart = not (bnl.scale and bnl.center)
        line = {"op": "judge_bn", "rnd": "f32",
                "rsq": [[core.rj(a), core.rj(v)] for a, v in sorted(r.rsq_rows.items())],
                "bn_w": [enc(t) for t in Wa[b]], "prev_w": [enc(t) for t in Wa[i]],
                "bn": {"scale": bool(bnl.scale), "center": bool(bnl.center), "eps": core.rj(float(bnl.epsilon))},
                "inv_q": None if iq is None else r.tables[id(iq)].json(), "use_bias": bool(l.use_bias)}
        judge_lines.append(line)

        def meta3(jo, label=label, rd=rd, l=l, cls=cls, ent=ent, case_ok=case_ok, bpart=bpart, bnl=bnl):
          run.evaluations += 1
          run.count("bn_terms_judged" + ("_no_scale_or_center" if bpart else ""))
          inv = [core.unrj(p) for p in jo["inv"]]
          fb = [core.unrj(p) for p in jo["fused_bias"]]
          if inv != ent["bn_inv"] or fb != ent["fused_bias"]:
            run.violate("bn_terms", {"site": "bn_fusing", "cls": cls, "bn_scale_and_center": not bpart},
                        {"case": label, "round": rd, "layer": l.name, "bn": bnl.name,
                         "impl_inv": [str(v) for v in ent["bn_inv"]], "algebra_inv": [str(v) for v in inv],
                         "impl_fused_bias": [str(v) for v in ent["fused_bias"]],
                         "algebra_fused_bias": [str(v) for v in fb]}, mirrored=case_ok)
        judge_meta.append(meta3)

    # ---- predictions / idempotence
    # the weights file written by filename= holds what the model holds after the export
    if rd in r.file_w:
      fw = r.file_w[rd]
      run.count("weights_file_checked")
      ok = not (isinstance(fw, tuple) and fw and fw[0] == "err") and \
          [[key_of(t) for t in ws] for ws in fw] == [[key_of(t) for t in ws] for ws in Wa]
      if not ok:
        run.violate("weights_file", {"site": "filename"},
                    {"case": label, "round": rd, "file": str(fw)[:300] if isinstance(fw, tuple) else "differs"},
                    mirrored=False)
    p0, p1 = r.pb[rd], r.pa[rd]
    pred_same = (not isinstance(p0, tuple)) and (not isinstance(p1, tuple)) and \
        p0.shape == p1.shape and p0.tobytes() == p1.tobytes()
    w_same = [[key_of(t) for t in ws] for ws in Wb] == [[key_of(t) for t in ws] for ws in Wa]
    run.compared += 1
    if mo["same_w"] != w_same:
      run.disagree("second_export_noop", {"case": label, "round": rd}, w_same, mo["same_w"])
      mirrored = False
    if mo["eff_same"] and not pred_same:
      # the model says the effective weights did not move, the real predictions did
      run.disagree("predict_congruence", {"case": label, "round": rd}, "predictions changed", "effective weights equal")
      mirrored = False
    run.count("pred_same" if pred_same else "pred_changed")
    run.count("eff_same" if mo["eff_same"] else "eff_changed")
    const_alpha = any((q is not None and q.__class__.__name__ == "quantized_bits"
                       and isinstance(q.alpha, (int, float)) and q.alpha != 1) for qs in r.qs for q in qs)
    site = {"site": "idempotence", "data_dependent_scale": r.data_dep, "const_alpha_not_1": const_alpha,
            "classes": "+".join(sorted({l.__class__.__name__ for l in layers if hasattr(l, "get_quantizers")}))}
    if all_indep:
      if not pred_same:
        run.violate("predict_unchanged", site, {"case": label, "round": rd,
                                                "quantizers": [[q_label(q) for q in qs] for qs in r.qs]},
                    mirrored=case_ok and not mo["eff_same"])
      if not fresh and not w_same:
        run.violate("second_export_noop", site, {"case": label, "round": rd,
                                                 "quantizers": [[q_label(q) for q in qs] for qs in r.qs]},
                    mirrored=case_ok and not mo["same_w"])
      if not fresh and r.dicts[rd] is not None and r.dicts[rd - 1] is not None:
        if canon_dict(r.dicts[rd], model, Wb) != canon_dict(r.dicts[rd - 1], model, r.Wb[rd - 1]):
          run.violate("second_export_same_dict", site, {"case": label, "round": rd}, mirrored=case_ok)
    else:
      run.count("data_dependent_round")
      if not fresh and not w_same:
        run.count("data_dependent_second_export_changed")
  if len(run.disagreements) != n_dis0:
    run.count("cases_with_disagreement")


def _freeze_route(run, rng, tier, judge_lines, judge_meta):
  """clone_model_and_freeze_auto_po2_scale: the frozen clone exports the same HW weights as the
  original and is then repeatable (second export changes nothing, predictions unchanged)"""
  import tensorflow as tf
  from qkeras import utils as qutils
  from qkeras import QConv2D, QDepthwiseConv2D, QDense, QBatchNormalization, QActivation, quantized_bits
  K = tf.keras
  n = 3 if tier == "quick" else 30
  for j in range(n):
    tf.keras.backend.clear_session()
    b1, b2, b3 = (int(v) for v in rng.integers(3, 7, size=3))
    i1, i2 = (int(v) for v in rng.integers(0, 3, size=2))
    x = inp = K.Input((5, 5, 1), name="input")
    x = QConv2D(2, 2, kernel_quantizer=quantized_bits(b1, i1, 1, alpha="auto_po2"),
                bias_quantizer=quantized_bits(5, 1, 1), name="conv")(x)
    x = QDepthwiseConv2D(2, depthwise_quantizer=quantized_bits(b2, i2, 1, alpha="auto_po2"),
                         use_bias=False, name="dw")(x)
    x = QBatchNormalization(gamma_quantizer=None, variance_quantizer=None,
                            beta_quantizer=quantized_bits(6, 2, 1), mean_quantizer=quantized_bits(6, 2, 1),
                            inverse_quantizer=quantized_bits(8, 0, 1, alpha="auto_po2"), name="bn")(x)
    x = QActivation("quantized_relu(4,2)", name="act")(x)
    x = K.layers.Flatten(name="flat")(x)
    x = QDense(2, kernel_quantizer=quantized_bits(b3, 0, 1, alpha="auto_po2"),
               bias_quantizer=quantized_bits(5, 1, 1), name="dense")(x)
    m = K.Model(inp, x)
    span = [40, 80, 300][j % 3]
    for l in m.layers:
      ws = l.get_weights()
      if not ws:
        continue
      if l.__class__.__name__ == "QBatchNormalization":
        l.set_weights([(rng.integers(1, 40, size=ws[0].shape) / 16.0).astype(np.float32),
                       (rng.integers(-32, 33, size=ws[1].shape) / 16.0).astype(np.float32),
                       (rng.integers(-32, 33, size=ws[2].shape) / 16.0).astype(np.float32),
                       (rng.integers(2, 48, size=ws[3].shape) / 16.0).astype(np.float32)])
      else:
        l.set_weights([dyadic(rng, w.shape, span=span) for w in ws])
    label = "freeze%d[b=%d,%d,%d i=%d,%d span=%d]" % (j, b1, b2, b3, i1, i2, span)
    xin = (rng.integers(-4, 5, size=(2, 5, 5, 1)) / 4.0).astype(np.float32)
    run.case(("freeze", label), sample={"freeze": label} if j == 0 else None)
    W_orig = snapshot(m)
    try:
      new_model, new_hw = quiet(qutils.clone_model_and_freeze_auto_po2_scale, m, quantize_model_weights=True)
    except Exception as e:  # pylint: disable=broad-except
      run.violate("freeze_raises", {"site": "freeze"}, {"case": label, "err": repr(e)[:300]}, mirrored=False)
      continue
    # the original model is untouched
    if [[key_of(t) for t in ws] for ws in snapshot(m)] != [[key_of(t) for t in ws] for ws in W_orig]:
      run.violate("freeze_mutates_original", {"site": "freeze"}, {"case": label}, mirrored=False)
    # the frozen clone holds the quantized weights of the original under the ORIGINAL data-dependent scale
    ref = K.models.clone_model(m)
    ref.set_weights(m.get_weights())
    ref_hw = quiet(qutils.model_save_quantized_weights, ref)
    c_new = canon_dict(new_hw, new_model, None)
    c_ref = canon_dict(ref_hw, ref, None)
    run.compared += 1
    if [{k: v for k, v in e.items()} for e in c_new] != [{k: v for k, v in e.items()} for e in c_ref]:
      run.violate("freeze_same_hw", {"site": "freeze"}, {"case": label}, mirrored=False)
    if [[key_of(t) for t in ws] for ws in snapshot(new_model)] != [[key_of(t) for t in ws] for ws in snapshot(ref)]:
      run.violate("freeze_same_weights", {"site": "freeze"}, {"case": label}, mirrored=False)
    # every auto_po2 quantizer of the clone is frozen
    for l in new_model.layers:
      for q in getattr(l, "quantizers", []) or []:
        if getattr(q, "alpha", None) == "auto_po2" and q.post_training_scale is None:
          run.violate("freeze_left_adaptive", {"site": "freeze"}, {"case": label, "layer": l.name}, mirrored=False)
    # repeatable: a second export of the frozen clone changes nothing
    p0 = f32a(new_model(xin, training=False).numpy())
    W1 = snapshot(new_model)
    d2 = quiet(qutils.model_save_quantized_weights, new_model)
    W2 = snapshot(new_model)
    p1 = f32a(new_model(xin, training=False).numpy())
    run.count("freeze_cases")
    if [[key_of(t) for t in ws] for ws in W1] != [[key_of(t) for t in ws] for ws in W2]:
      run.violate("freeze_second_export_noop", {"site": "freeze"}, {"case": label}, mirrored=False)
    if canon_dict(d2, new_model, None) != c_new:
      run.violate("freeze_second_export_same_dict", {"site": "freeze"}, {"case": label}, mirrored=False)
    if p0.tobytes() != p1.tobytes():
      run.violate("freeze_predict_unchanged", {"site": "freeze"}, {"case": label}, mirrored=False)
