"""C03 — power-of-two quantizers (DESIGN.md §4 C03; model lean/QKV/Model/Po2Quant.lean).

Per configuration: a breakpoint-directed float32 tensor goes through the REAL quantizer (eager,
legacy Keras) and through the Lean model.  "rnd" mode: outside the log2 band around sqrt(2)*2^k the
float32 layer of the model (`quantF`) must equal the real output bit-for-bit; inside the band the
real output must be one of the two admissible values.  "floor" mode (after fix 40deb9c: round, then
step down iff 2**round > x) is deterministic everywhere and compared bit-for-bit.  Independently the real outputs are judged against the
property clauses by exact predicates (po2-ness / exponent range / sign / admissible exponent
evaluated in Lean, order comparisons on exact Fractions here).

Strengthening round (seed C03-5 + cross-cutting blind spots): besides the base stream (fresh object,
python numbers, one call on a rank-1 tensor) every run has the streams of `extra_cases`: every numeric
constructor argument in every spelling the constructor accepts (python int/float, numpy scalars of
every width, 0-d ndarray, tf constant / variable), flags as int / numpy bool, keyword / from_config /
string routes, `use_stochastic_rounding` x learning phase x rounding mode, `negative_slope > 1`,
`tf.keras.backend.set_epsilon` (both orders), inputs as numpy / tensor / variable of rank 0..5, calls
through QActivation / shared layers / tf.function / a Keras model, and HISTORIES on one object (calls of
other shapes in between, re-configuration through public attributes).  Every such case is judged by
the same clause oracle against the configuration a FRESH object built from the python numbers of the
same values would have (`Obj.fresh`), tied to the model of the object as the code keeps it (`Obj.view`)
and compared bit-for-bit with a fresh twin.
"""
import contextlib
import math
from fractions import Fraction

import numpy as np

from .. import core

SQRT2 = math.sqrt(2.0)


# ----------------------------------------------------------------------------- float32 helpers

def nb(x, n):
  """float32 `n` ulps away from float32 `x` (x > 0)"""
  i = int(np.array([x], dtype=np.float32).view(np.int32)[0]) + n
  i = max(1, min(i, 0x7f7fffff))
  return np.array([i], dtype=np.int32).view(np.float32)[0]


def around(x, offs):
  x = np.float32(x)
  if not np.isfinite(x) or x <= 0:
    return []
  return [nb(x, d) for d in offs]


# ----------------------------------------------------------------------------- configurations

def cfg_name(c):
  mv = c["max_value"]
  base = "%s(bits=%d,max_value=%s,slope=%s,%s%s)" % (
      "quantized_relu_po2" if c["relu"] else "quantized_po2", c["bits"],
      "None" if mv is None else repr(mv), repr(c["slope"]), "floor" if c["floor"] else "rnd",
      ",quad" if c["quad"] else "")
  if "stream" not in c:
    return base
  # an extra-stream case: the description of HOW the object was made and used is part of the name
  return base + "{" + c["desc"] + "}"


def all_configs(tier):
  bits_all = list(range(2, 9))
  mvs = [None] + [2.0 ** k for k in range(-3, 7)]
  out = []
  for relu in (False, True):
    slopes = [0.0] if not relu else [0.0, 1.0, 0.5, 0.25, 0.125, 2.0 ** -6]
    for bits in bits_all:
      for mv in mvs:
        for slope in slopes:
          for fl in (False, True):
            for quad in (False, True):
              out.append({"relu": relu, "bits": bits, "max_value": mv, "slope": slope, "floor": fl,
                          "quad": quad})
  return out


MUST = [  # configurations every run contains (defaults, documented examples, recorded findings)
    dict(relu=False, bits=8, max_value=None, slope=0.0, floor=False, quad=False),
    dict(relu=False, bits=8, max_value=None, slope=0.0, floor=True, quad=False),
    dict(relu=True, bits=8, max_value=None, slope=0.0, floor=False, quad=False),
    dict(relu=True, bits=8, max_value=None, slope=0.0, floor=True, quad=False),
    dict(relu=False, bits=4, max_value=None, slope=0.0, floor=False, quad=False),
    dict(relu=False, bits=3, max_value=0.5, slope=0.0, floor=True, quad=False),
    dict(relu=False, bits=8, max_value=1.0, slope=0.0, floor=False, quad=False),
    dict(relu=False, bits=2, max_value=None, slope=0.0, floor=False, quad=False),
    dict(relu=False, bits=2, max_value=1.0, slope=0.0, floor=True, quad=False),
    dict(relu=True, bits=4, max_value=None, slope=0.25, floor=False, quad=False),
    dict(relu=True, bits=3, max_value=4.0, slope=0.125, floor=True, quad=False),
    dict(relu=True, bits=2, max_value=0.5, slope=0.0, floor=True, quad=False),
    dict(relu=True, bits=7, max_value=1.0, slope=0.5, floor=False, quad=False),
    dict(relu=False, bits=4, max_value=None, slope=0.0, floor=True, quad=True),
    dict(relu=True, bits=3, max_value=None, slope=0.0, floor=False, quad=True),
]


def pick_configs(tier, rng):
  allc = all_configs(tier)
  nonquad = [c for c in allc if not c["quad"]]
  quad = [c for c in allc if c["quad"]]
  n_nonquad, n_quad = (110, 14) if tier == "quick" else (700, 80)
  sel = [dict(c) for c in MUST]
  seen = {cfg_name(c) for c in sel}
  for pool, n in ((nonquad, n_nonquad), (quad, n_quad)):
    idx = rng.permutation(len(pool))[:n]
    for i in sorted(idx):
      c = pool[int(i)]
      if cfg_name(c) not in seen:
        seen.add(cfg_name(c))
        sel.append(c)
  return sel


def proto_cfg(c, eps32):
  """protocol form of a case: the constructor call as written (values + spellings), the process
  state, and the attribute re-configurations of its history (calls are not sent)"""
  d = {"relu": c["relu"], "bits": c["bits"],
       "max_value": None if c["max_value"] is None else core.rj(c["max_value"]),
       "neg_slope": core.rj(c["slope"]), "floor": c["floor"], "quad": c["quad"],
       "eps": core.rj(case_eps(c, eps32))}
  if "stream" in c:
    f = c.get("forms", {})
    d.update({"bits_form": f.get("bits", "pyInt"), "mv_form": f.get("max_value", "pyFloat"),
              "slope_form": f.get("slope", "pyFloat"), "stoch": bool(c.get("stoch", False)),
              "training": bool(c.get("env", {}).get("training", False)),
              "hist": [proto_step(h) for h in c.get("hist", []) if "set" in h]})
  return d


def proto_step(h):
  k = h["set"]
  if k == "max_value":
    return {"set": k, "v": None if h["v"] is None else core.rj(h["v"])}
  if k == "neg_slope":
    return {"set": k, "v": core.rj(h["v"])}
  if k in ("floor", "stoch"):
    return {"set": k, "b": bool(h["b"])}
  return {"set": "bits", "n": int(h["n"])}


def case_eps(c, eps32):
  e = c.get("env", {}).get("eps")
  return eps32 if e is None else np.float32(e)


INT_FORMS = ("pyInt", "npInt32", "npInt64", "ndarrayInt")
NPINT_FORMS = ("npInt32", "npInt64", "ndarrayInt")


def spell(v, form, alt=False):
  """the python object a numeric argument of value `v` is passed as"""
  import tensorflow as tf
  if v is None:
    return None
  if form in INT_FORMS:
    assert float(v).is_integer(), (v, form)
  return {"pyInt": lambda: int(v), "pyFloat": lambda: float(v), "npFloat16": lambda: np.float16(v),
          "npFloat32": lambda: np.float32(v), "npFloat64": lambda: np.float64(v),
          "npInt32": lambda: np.int32(int(v)), "npInt64": lambda: np.int64(int(v)),
          "ndarrayInt": lambda: np.array(int(v)),
          "ndarrayFloat": lambda: np.array(v, dtype=np.float64 if alt else np.float32),
          "tfConstant": lambda: tf.constant(float(v)), "tfVariable": lambda: tf.Variable(float(v))}[form]()


def spell_flag(b, form):
  return {"bool": lambda: bool(b), "int": lambda: int(b), "npBool": lambda: np.bool_(b)}[form]()


def live_values(c):
  """constructor values after the attribute re-configurations of the history"""
  v = {k: c[k] for k in ("relu", "bits", "max_value", "slope", "floor", "quad")}
  v["stoch"] = bool(c.get("stoch", False))
  for h in c.get("hist", []):
    if "set" not in h:
      continue
    if h["set"] == "max_value":
      v["max_value"] = h["v"]
    elif h["set"] == "neg_slope":
      v["slope"] = h["v"]
    elif h["set"] == "floor":
      v["floor"] = h["b"]
    elif h["set"] == "stoch":
      v["stoch"] = h["b"]
    elif h["set"] == "bits":
      v["bits"] = h["n"]
  return v


def build(c):
  """the REAL quantizer of a case: constructor route and spellings as the case says (python numbers,
  positional, for the base stream)"""
  from qkeras.quantizers import quantized_po2, quantized_relu_po2, get_quantizer
  mode = "floor" if c["floor"] else "rnd"
  f = c.get("forms", {})
  alt = bool(c.get("alt", False))
  bits = spell(c["bits"], f.get("bits", "pyInt"))
  mv = spell(c["max_value"], f.get("max_value", "pyFloat"), alt)
  slope = spell(c["slope"], f.get("slope", "pyFloat"), alt)
  stoch = spell_flag(c.get("stoch", False), f.get("flags", "bool"))
  quad = spell_flag(c["quad"], f.get("flags", "bool"))
  cls = quantized_relu_po2 if c["relu"] else quantized_po2
  args = [bits, mv] + ([slope] if c["relu"] else []) + [stoch, quad, mode]
  names = ["bits", "max_value"] + (["negative_slope"] if c["relu"] else []) + [
      "use_stochastic_rounding", "quadratic_approximation", "log2_rounding"]
  route = c.get("route", "positional")
  if route == "positional":
    return cls(*args)
  if route == "keyword":
    return cls(**dict(reversed(list(zip(names, args)))))
  if route == "from_config":
    return cls.from_config(cls(*args).get_config())
  if route == "string":
    return get_quantizer(str(cls(*args)))
  raise ValueError(route)


def twin(c):
  """a FRESH object built positionally from python numbers of the case's CURRENT values"""
  v = live_values(c)
  return build({"relu": v["relu"], "bits": int(v["bits"]),
                "max_value": None if v["max_value"] is None else float(v["max_value"]),
                "slope": float(v["slope"]), "floor": v["floor"], "quad": v["quad"], "stoch": v["stoch"]})


@contextlib.contextmanager
def env_ctx(c):
  """process-level state of a case (restored afterwards): keras epsilon, learning phase"""
  import tensorflow as tf
  K = tf.keras.backend
  env = c.get("env", {})
  old = K.epsilon()
  try:
    if env.get("eps") is not None:
      K.set_epsilon(env["eps"])
    if env.get("training"):
      K.set_learning_phase(1)
    yield
  finally:
    K.set_epsilon(old)
    if env.get("training"):
      K.set_learning_phase(0)


def shaped(xs, rank, rows=2):
  """`xs` (1-d float32) padded and reshaped to the given rank (dimensions of size 1 included)"""
  n = len(xs)
  if rank == 1:
    return xs, n
  m = n + (n % rows)
  p = np.concatenate([xs, np.repeat(xs[:1], m - n)]).astype(np.float32)
  shape = {2: (rows, m // rows), 3: (1, rows, m // rows), 4: (rows, 1, m // rows, 1),
           5: (1, rows, 1, 1, m // rows)}[rank]
  return p.reshape(shape), n


def call_obj(q, xs, inp):
  """evaluate quantizer object `q` on the 1-d float32 array `xs` the way `inp` says; 1-d result"""
  import tensorflow as tf
  kind, rank, via = inp.get("kind", "tensor"), inp.get("rank", 1), inp.get("via", "direct")
  wrap = {"tensor": tf.constant, "numpy": lambda a: a, "variable": tf.Variable}[kind]
  if rank == 0:
    return np.array([np.asarray(q(wrap(np.float32(x)))).reshape(()) for x in xs], dtype=np.float32)
  arr, n = shaped(xs, rank)
  if via == "direct":
    y = q(wrap(arr))
  elif via == "qactivation":
    from qkeras import QActivation
    y = QActivation(q)(wrap(arr))
  elif via == "shared_layers":
    from qkeras import QActivation
    l1, l2 = QActivation(q), QActivation(q)
    l1(tf.constant(np.float32([[0.3, -1.7, 0.0]])))
    y = l2(wrap(arr))
  elif via == "tf_function":
    y = tf.function(lambda t: q(t))(tf.constant(arr))
  elif via == "model":
    from qkeras import QActivation
    m = tf.keras.Sequential([tf.keras.layers.Input(arr.shape[1:]), QActivation(q)])
    y = m.predict(arr, verbose=0)
  else:
    raise ValueError(via)
  y = np.asarray(y)
  if y.shape != arr.shape:
    SHAPE_MISMATCH.append((str(inp), arr.shape, y.shape))
  return y.astype(np.float32).reshape(-1)[:n]


SHAPE_MISMATCH = []   # (input description, input shape, output shape): the quantizer is an elementwise map


def make_obj(c):
  """build the case's object and replay its history (interleaved calls and re-configurations)"""
  import tensorflow as tf
  q = build(c)
  for h in c.get("hist", []):
    if "call" in h:
      a = np.float32(h["call"])
      q(tf.constant(a) if h.get("tensor", True) else a)
    elif h["set"] == "max_value" and h.get("assign"):
      q.max_value.assign(h["v"])       # max_value is a tf.Variable: re-configured in place
    elif h["set"] == "max_value":
      q.max_value = h["v"]
    elif h["set"] == "neg_slope":
      q.negative_slope = h["v"]
    elif h["set"] == "floor":
      q.log2_rounding = "floor" if h["b"] else "rnd"
    elif h["set"] == "stoch":
      q.use_stochastic_rounding = h["b"]
    elif h["set"] == "bits":
      q.bits = h["n"]
  return q



# ----------------------------------------------------------------------------- extra streams

MV_FORMS = ("pyInt", "pyFloat", "npFloat16", "npFloat32", "npFloat64", "npInt32", "npInt64", "ndarrayFloat",
            "tfConstant", "tfVariable")
BITS_FORMS = ("pyFloat", "npFloat32", "npFloat64", "npInt32", "npInt64", "ndarrayInt")
SLOPE_FORMS = ("pyInt", "npFloat16", "npFloat32", "npFloat64", "npInt64", "ndarrayFloat")
FLAG_FORMS = ("int", "npBool")


def _pick(rng, seq):
  return seq[int(rng.integers(len(seq)))]


def _desc(c):
  parts = []
  f = c.get("forms", {})
  for k in ("bits", "max_value", "slope", "flags"):
    if k in f:
      parts.append("%s:%s" % (k, f[k]))
  if c.get("route", "positional") != "positional":
    parts.append("route=" + c["route"])
  if c.get("stoch"):
    parts.append("stochastic")
  env = c.get("env", {})
  if env.get("training"):
    parts.append("training")
  if env.get("eps") is not None:
    parts.append("epsilon=%r,%s" % (env["eps"], env.get("order", "env_first")))
  inp = c.get("inp", {})
  if inp:
    parts.append("input=%s/rank%d/%s" % (inp.get("kind", "tensor"), inp.get("rank", 1), inp.get("via", "direct")))
  for h in c.get("hist", []):
    if "call" in h:
      parts.append("call%s" % (np.shape(h["call"]),))
    else:
      parts.append("%s:=%r" % (h["set"], h.get("v", h.get("b", h.get("n")))))
  return c["stream"] + ";" + ";".join(parts)


def extra_cases(tier, rng):
  """the streams of the strengthening round; every case is a dict with the base keys (constructor
  VALUES) plus stream / forms / route / stoch / env / inp / hist"""
  out = []
  mvs_le1 = [1.0, 0.5, 0.25, 0.125]
  mvs_gt1 = [2.0, 4.0, 16.0, 64.0]

  def base(relu=None, bits=None, mv="?", slope=None, floor=None, quad=False):
    relu = bool(rng.integers(2)) if relu is None else relu
    return {"relu": relu, "bits": int(rng.integers(2, 9)) if bits is None else bits,
            "max_value": _pick(rng, [None] + mvs_le1 + mvs_gt1) if mv == "?" else mv,
            "slope": (0.0 if not relu else _pick(rng, [0.0, 0.0, 1.0, 0.5, 0.25, 0.125])) if slope is None else slope,
            "floor": bool(rng.integers(2)) if floor is None else floor, "quad": quad}

  def add(stream, c, **kw):
    c = dict(c, stream=stream, **kw)
    c["desc"] = _desc(c)
    out.append(c)

  # -- A. spellings of max_value: every form x both classes with max_value <= 1 (the exponent sign bit
  #       is dropped: seed C03-5), and a random one with max_value > 1 / == 1
  for form in MV_FORMS:
    for relu in (False, True):
      ints = form in INT_FORMS
      add("forms", base(relu=relu, bits=int(rng.integers(3, 7)), mv=1.0 if ints else _pick(rng, mvs_le1)),
          forms={"max_value": form}, alt=bool(rng.integers(2)))
    add("forms", base(mv=_pick(rng, mvs_gt1 + [1.0])), forms={"max_value": form}, alt=bool(rng.integers(2)))
  # -- spellings of bits (numpy float32 bits used to overflow 2**max_exp in max() from 2^128 on and were
  #    kept below; min()/max() take 2**int(exponent) since fix 3a8c251, so every form gets 2..8)
  for form in BITS_FORMS:
    for relu in (False, True):
      add("forms", base(relu=relu, bits=int(rng.integers(2, 9))), forms={"bits": form})
  add("forms", base(relu=True, bits=8, mv=0.5), forms={"bits": "npFloat32"})   # max_exp = 255
  # numpy-integer bits (former finding C03-numpy-int-bits, repaired: min()/max() take 2**int(exponent)):
  # the smallest code of the plain relu variant (2**np.int64(-8) used to raise) and exponents at and
  # beyond the width of the numpy type (2**31 / 2**63 / 2**127 used to wrap: max() = 1.0)
  for form in NPINT_FORMS:
    add("forms", base(relu=True, bits=4, mv=None, slope=0.0), forms={"bits": form})
    add("forms", base(relu=False, bits=8, mv=None), forms={"bits": form})
    add("forms", base(relu=True, bits=8, mv=None, slope=_pick(rng, [0.0, 0.5])), forms={"bits": form})
    add("forms", base(relu=False, bits=7 if form == "npInt32" else 8, mv=None, quad=False), forms={"bits": form})
  # -- spellings of negative_slope (slopes > 1 included)
  for form in SLOPE_FORMS:
    sl = _pick(rng, [0.0, 1.0, 2.0, 4.0]) if form in INT_FORMS else _pick(rng, [0.0, 0.5, 0.25, 2.0, 2.0 ** -6])
    add("forms", base(relu=True, slope=sl), forms={"slope": form}, alt=bool(rng.integers(2)))
  # -- everything spelled at once, flags as int / numpy bool
  for _ in range(4):
    c = base()
    ints_ok = c["max_value"] is not None and float(c["max_value"]).is_integer()
    f = {"bits": _pick(rng, BITS_FORMS[:1] + BITS_FORMS[2:]),
         "max_value": _pick(rng, MV_FORMS if ints_ok else [m for m in MV_FORMS if m not in INT_FORMS]),
         "flags": _pick(rng, FLAG_FORMS)}
    if c["relu"]:
      f["slope"] = _pick(rng, [m for m in SLOPE_FORMS if m not in INT_FORMS or float(c["slope"]).is_integer()])
    add("forms", c, forms=f, stoch=bool(rng.integers(2)))
  # -- B. constructor routes
  for route in ("keyword", "from_config", "string"):
    for relu in (False, True):
      c = base(relu=relu)
      f = {}
      if route != "string" and c["max_value"] is not None:
        f = {"max_value": _pick(rng, ["npFloat32", "npFloat16", "ndarrayFloat", "pyFloat"])}
      add("routes", c, route=route, forms=f)
  # -- C. use_stochastic_rounding x phase x mode ("floor" wins in both phases; inference = "rnd")
  for relu in (False, True):
    for floor in (False, True):
      add("stochastic", base(relu=relu, floor=floor), stoch=True)
      add("stochastic", base(relu=relu, floor=floor), stoch=True, env={"training": True})
  add("stochastic", base(relu=False, bits=8, mv=None, floor=True), stoch=True)
  add("stochastic", base(relu=True, bits=5, mv=None, slope=0.5, floor=True), stoch=True, env={"training": True})
  add("stochastic", base(floor=False), stoch=False, env={"training": True})
  add("stochastic", base(relu=False, bits=6, mv=None, floor=False), stoch=True, env={"training": True})
  add("stochastic", base(relu=True, mv=_pick(rng, [1.0, 4.0]), slope=0.25, floor=False), stoch=True,
      env={"training": True})
  # -- D. negative_slope > 1
  for sl in (2.0, 4.0, 8.0, 2.0):
    add("slope_gt1", base(relu=True, slope=sl, mv=_pick(rng, [None, None, 4.0, 0.5, 1.0, 64.0])))
  # -- E. process state: keras epsilon, set before / after the object is built
  for eps, order in ((2.0 ** -10, "env_first"), (2.0 ** -10, "ctor_first"), (2.0 ** -20, "ctor_first"),
                     (1e-4, "env_first"), (2.0 ** -30, "ctor_first"), (2.0 ** -20, "env_first")):
    # wide exponent ranges, so that the interval reaches well below the epsilon under test
    relu = bool(rng.integers(2))
    add("epsilon", base(relu=relu, bits=int(rng.integers(6, 8)) if relu else int(rng.integers(7, 9))),
        env={"eps": eps, "order": order})
  # -- F. inputs: numpy / tensor / variable x rank 0..5
  combos = [(k, r) for k in ("numpy", "tensor", "variable") for r in (0, 1, 2, 3, 4, 5)]
  for i in rng.permutation(len(combos))[:10 if tier == "quick" else 18]:
    k, r = combos[int(i)]
    add("inputs", base(), inp={"kind": k, "rank": r})
  # -- G. API routes of the call
  for via in ("qactivation", "shared_layers", "tf_function", "model"):
    for relu in (False, True):
      add("inputs", base(relu=relu), inp={"kind": "tensor" if via != "qactivation" else _pick(rng, ["tensor", "numpy"]),
                                          "rank": 2 if via == "model" else int(rng.integers(1, 5)), "via": via})
  # -- H. histories on one object
  calls = [{"call": [0.3, -5.0, 0.0]}, {"call": [[1e-9, 2.0], [-0.7, 100.0]]}, {"call": 0.75},
           {"call": [[[3.0]]], "tensor": False}]
  for _ in range(4):      # calls of other shapes / ranks only
    add("history", base(), hist=[_pick(rng, calls), _pick(rng, calls)],
        inp={"kind": _pick(rng, ["tensor", "numpy"]), "rank": int(rng.integers(1, 4))})
  for _ in range(8):      # re-configurations that keep the cached exponent range valid
    c = base()
    steps = [_pick(rng, calls)]
    if c["max_value"] is not None and c["max_value"] != 1.0:
      pool = [m for m in (mvs_le1[1:] if c["max_value"] < 1 else mvs_gt1) if m != c["max_value"]]
      steps.append({"set": "max_value", "v": _pick(rng, pool)})
    steps.append({"set": "floor", "b": not c["floor"]})
    if c["relu"]:
      steps.append({"set": "neg_slope", "v": _pick(rng, [0.0, 0.5, 0.125, 2.0])})
    steps.insert(int(rng.integers(1, len(steps) + 1)), _pick(rng, calls))
    if rng.integers(2):
      steps.append({"set": "stoch", "b": True})
    add("history", c, hist=steps)
  # max_value held in a tf.Variable and assigned in place (same side of 1 / across 1)
  add("history", base(mv=0.5), forms={"max_value": "tfVariable"},
      hist=[calls[0], {"set": "max_value", "v": 0.125, "assign": True}, calls[1]])
  add("history", base(relu=False, bits=4, mv=4.0, floor=False), forms={"max_value": "tfVariable"},
      hist=[{"set": "max_value", "v": 0.5, "assign": True}])
  # re-configurations that invalidate the cache (recorded finding C03-stale-exponent-range)
  add("history", base(relu=False, bits=4, mv=None, floor=False), hist=[calls[0], {"set": "max_value", "v": 0.5}])
  add("history", base(relu=True, bits=3, mv=0.5, slope=0.0), hist=[{"set": "max_value", "v": None}, calls[1]])
  add("history", base(relu=False, bits=5, mv=1.0), hist=[calls[2], {"set": "max_value", "v": 4.0}])
  add("history", base(relu=True, bits=3, mv=2.0), hist=[{"set": "max_value", "v": 0.25}])
  add("history", base(relu=False, bits=3), hist=[calls[0], {"set": "bits", "n": 5}])
  add("history", base(relu=True, bits=5), hist=[{"set": "bits", "n": 3}, calls[3]])
  return out

# ----------------------------------------------------------------------------- inputs

def gen_inputs(c, min_exp, max_exp, eps32, rng, tier, lite=False):
  """positive magnitudes with a tag each; signs are added afterwards.  `lite` (extra streams): the
  same families with fewer offsets / exponents / randoms"""
  pts = []  # (tag, float32)
  offs = (-700, -8, -2, -1, 0, 1, 2, 8, 700)  # +-700 ulp: just outside the 2^-15 band
  if lite:
    offs = (-700, -1, 0, 1, 700)
  qf = 2 if c["quad"] else 1
  lo = max(qf * min_exp - 2, -27)
  hi = min(qf * max_exp + 2, 127)
  ks = list(range(lo, hi + 1))
  limit = 22 if tier == "quick" else 60
  if lite:
    limit = 12 if tier == "quick" else 24
  if len(ks) > limit:
    keep = set(ks[:4] + ks[-4:])
    if lite:
      keep |= {k for k in (-24, -23, -1, 0) if lo <= k <= hi}
    else:
      keep |= {k for k in (-25, -24, -23, -22, -14, -13, -1, 0, 1, 14, 15, 16) if lo <= k <= hi}
    rest = [k for k in ks if k not in keep]
    extra = rng.permutation(len(rest))[:max(0, limit - len(keep))]
    keep |= {rest[int(i)] for i in extra}
    ks = sorted(keep)
  for k in ks:
    for x in around(2.0 ** k, offs):
      pts.append(("pow2", x))
    if SQRT2 * 2.0 ** k < 3.4e38:
      for x in around(SQRT2 * 2.0 ** k, offs):
        pts.append(("sqrt2", x))
  # epsilon floor
  for x in around(eps32, (-8, -2, -1, 0, 1, 2, 8)):
    pts.append(("eps", x))
  # clamp edges
  mv = c["max_value"]
  if mv is not None:
    for x in around(mv, (-8, -2, -1, 0, 1, 2, 8)):
      pts.append(("clamp", x))
  # slope pre-images of the eps / clamp edges (leaky branch multiplies by the slope first)
  if c["relu"] and c["slope"] not in (0.0, 1.0):
    for x in around(float(eps32) / c["slope"], (-2, -1, 0, 1, 2)):
      pts.append(("eps_slope", x))
    if mv is not None:
      for x in around(mv / c["slope"], (-2, -1, 0, 1, 2)):
        pts.append(("clamp_slope", x))
  # zero, subnormals, extremes
  for x in (0.0, 1e-45, 1e-40, 2.0 ** -127, 2.0 ** -126, 1.5 * 2.0 ** -126, 3.4028234663852886e38, 2.0 ** 127):
    pts.append(("zero" if x == 0.0 else "extreme", np.float32(x)))
  # straight-through cancellation edges: |x| around 2^24 / 2^25 times the top and bottom codes
  top = 2.0 ** (qf * max_exp) if mv is None else min(2.0 ** (qf * max_exp), mv)
  for m in (2.0 ** 23, 2.0 ** 24, 2.0 ** 25, 2.0 ** 26, 2.0 ** 30):
    for x in around(top * m, (-1, 0, 1, 3)):
      pts.append(("cancel_hi", x))
    if 2.0 ** min_exp * m < eps32 and 2.0 ** min_exp * m > 1e-37:
      for x in around(2.0 ** min_exp * m, (-1, 0, 1, 3)):
        pts.append(("cancel_lo", x))
  # random: log-uniform over the whole float32 range, and over the representable window
  n = 48 if tier == "quick" else 160
  if lite:
    n = 10 if tier == "quick" else 40
  e1 = rng.uniform(-126, 127.9, size=n)
  for e in e1:
    pts.append(("rand_wide", np.float32(2.0 ** e)))
  e2 = rng.uniform(max(qf * min_exp - 3, -30), min(qf * max_exp + 3, 127), size=n)
  for e in e2:
    pts.append(("rand_window", np.float32(2.0 ** e)))
  return pts


# ----------------------------------------------------------------------------- the run

def run(run: core.Run, tier: str):
  core.assert_repo_import()
  import tensorflow as tf
  rng = np.random.default_rng(run.seed)
  eps32 = np.float32(tf.keras.backend.epsilon())
  run.extra["rule_extra_streams"] = (
      "strengthening round: ~125 extra cases per run (own RNG stream), ~400 inputs each (lowest / highest four "
      "exponents of the interval, eps, clamp, slope pre-images, 0, subnormals, FLT_MAX, cancellation edges, +-{0,1,700} "
      "ulp): forms = every spelling (python int/float, numpy float16/32/64, int32/64, 0-d ndarray, tf constant / "
      "variable) of max_value (<= 1 and > 1), bits, negative_slope, flags as int / numpy bool, constructor "
      "rejections per spelling; routes = keyword / from_config / string; stochastic = use_stochastic_rounding x "
      "{inference, training} x {rnd, floor}; slope_gt1 = negative_slope 2, 4, 8; epsilon = K.set_epsilon before / "
      "after construction; inputs = numpy / tensor / variable x rank 0..5, QActivation, shared layers, tf.function, "
      "model.predict; history = one object: calls of other shapes in between, re-assignment of max_value / "
      "log2_rounding / negative_slope / use_stochastic_rounding / bits, tf.Variable max_value assigned in place.  "
      "Judged against the configuration of a FRESH object with the current values (Obj.fresh), tied to Obj.view, "
      "compared bit-for-bit with a fresh python-number twin where one exponent is admissible.")
  run.extra["rule"] = (
      "configs: 15 fixed + seeded sample of {po2, relu_po2} x bits 2..8 x max_value {None, 2^-3..2^6} x "
      "negative_slope {0, 1, 1/2, 1/4, 1/8, 1/64} x {rnd, floor} x quadratic {F, T}; inputs per config: every "
      "exponent breakpoint 2^k and sqrt(2)*2^k of the (widened) exponent window, eps, max_value, their slope "
      "pre-images, each +-{0,1,2,8} ulp and +-700 ulp (just outside the band), 0, subnormals, FLT_MAX, straight-through cancellation edges, "
      "log-uniform random; both signs; q(q(x)) for every point.  non-trivial = every point except the "
      "random ones.  Comparison: bit-for-bit against the model's float32 layer when one exponent is "
      "admissible (always in floor mode), membership when a rnd-mode input is inside the 2^-15 log2 band.")
  run.assumptions += [
      "TF CPU kernels flush subnormal inputs/results to zero (modelled: daz / rnd32 flush); "
      "a negative subnormal input is read as +0",
      "float32 round(log(x)/log(2)) is an exponent the 2^-15 band (relative, in x, around sqrt(2)*2^k) admits; "
      "floor mode's pow(2, round) > x comparison is exact; "
      "TF round/floor/pow(2, integer) are exact in the normal range (checked: pow on -126..127 each run)",
      "numpy inputs: numpy's comparisons do not flush subnormals (TF's do), so subnormal points are not "
      "generated for numpy inputs; graph-mode routes (tf.function, model.predict) may round the logarithm "
      "differently from eager mode inside the 2^-15 band only",
      "training-phase stochastic rounding is judged relationally (one of the two powers of two bracketing the "
      "input); its distribution is C08's subject",
  ]

  # pow(2, e) exactness: an assumption of the float layer, checked on the real op
  es = np.arange(-160, 140).astype(np.float32)
  ps = tf.pow(2.0, tf.constant(es)).numpy()
  for e, p in zip(es, ps):
    want = 0.0 if e < -126 else (np.inf if e > 127 else 2.0 ** int(e))
    run.compared += 1
    if not (float(p) == want):
      run.disagree("pow2F", {"e": int(e)}, float(p), want)
  run.count("pow2F_points", len(es))

  # malformed configurations: constructor errors
  from qkeras.quantizers import quantized_po2, quantized_relu_po2
  bad = [(False, -1.0, 0.0, {}), (True, -0.5, 0.0, {}), (True, None, -0.5, {}), (True, None, 0.3, {}),
         (True, None, 3.0, {}), (True, 2.0, 0.25, {}), (False, 0.25, 0.0, {}),
         # the same rejections / acceptances for every spelling of the offending argument
         (False, -1.0, 0.0, {"max_value": "npFloat32"}), (True, -1.0, 0.0, {"max_value": "npInt64"}),
         (False, -0.5, 0.0, {"max_value": "npFloat16"}), (True, -2.0, 0.0, {"max_value": "npInt32"}),
         (False, -0.5, 0.0, {"max_value": "ndarrayFloat"}), (False, -1.0, 0.0, {"max_value": "pyInt"}),
         (True, -0.5, 0.0, {"max_value": "npFloat64"}), (False, -0.25, 0.0, {"max_value": "tfConstant"}),
         (True, None, -0.5, {"slope": "npFloat32"}), (True, None, 3.0, {"slope": "npInt64"}),
         (True, None, 0.3, {"slope": "npFloat64"}), (True, None, -1.0, {"slope": "pyInt"}),
         (True, 0.5, 2.0, {"slope": "npFloat16", "max_value": "npFloat32"})]
  bad_lines, bad_impl = [], []
  for relu, mv, slope, forms in bad:
    c = {"relu": relu, "bits": 4, "max_value": mv, "slope": slope, "floor": False, "quad": False,
         "stream": "ctor", "forms": forms, "desc": "ctor;" + str(sorted(forms.items()))}
    try:
      build(c)
      err = None
    except ValueError:
      err = "value-error"
    except AssertionError:
      err = "assert"
    bad_lines.append({"op": "cfg", "cfg": proto_cfg(c, eps32)})
    bad_impl.append(err)
  for line, err, o in zip(bad_lines, bad_impl, core.run_driver("C03", bad_lines)):
    run.case(("ctor", str(line["cfg"])), sample=None)
    run.compared += 1
    run.count("ctor_" + str(err))
    if o.get("err") != err:
      run.disagree("ctor", line, err, o)
      if o.get("err") == "value-error" and err is None:
        # property text: max_value is a power of two or None; a negative one must be rejected
        run.violate("ctor_rejects_negative_max_value",
                    {"variant": "relu_po2" if line["cfg"]["relu"] else "po2", "cause": "ctor", "stream": "ctor"},
                    {"cfg": line["cfg"], "impl": "accepted", "model": o}, False)

  configs = pick_configs(tier, rng)
  n_base = len(configs)
  rng_x = np.random.default_rng([run.seed, 0xC03])   # the extra streams have their own generator
  configs = configs + extra_cases(tier, rng_x)
  tf.random.set_seed(run.seed)
  for c in configs:
    run.count("stream_" + c.get("stream", "base"))
  # ---- pass 0: exponent ranges and min()/max() from the model (tied to the real min()/max() below)
  cfg_lines = [{"op": "cfg", "cfg": proto_cfg(c, eps32)} for c in configs]
  cfg_out = core.run_driver("C03", cfg_lines)

  # ---- pass 1: q(x);  pass 2: q(q(x)) on the distinct outputs;  both inside the case's process state
  lines1, meta1, lines2, meta2, quants = [], [], [], [], []
  for i, (c, o) in enumerate(zip(configs, cfg_out)):
    if "err" in o:
      raise core.InfraError("generated configuration rejected by the model: %s %s" % (cfg_name(c), o))
    mn, mx = int(o["min_exp"]), int(o["max_exp"])
    e32 = case_eps(c, eps32)
    pts = gen_inputs(live_values(c), mn, mx, e32, rng if i < n_base else rng_x, tier, lite=i >= n_base)
    inp = c.get("inp", {})
    if inp.get("rank", 1) == 0:
      pts = pts[::max(1, len(pts) // 12)]   # rank 0: one call per element
    if inp.get("kind") == "numpy":
      # numpy comparisons do not flush subnormals while TF's kernels do (the model's DAZ assumption
      # is about tensors): a subnormal numpy input is outside the modelled behaviour
      pts = [(t, x) for t, x in pts if x == 0 or abs(float(x)) >= 2.0 ** -126]
    tags = [t for t, _ in pts] * 2
    xs = np.array([x for _, x in pts] + [-x for _, x in pts], dtype=np.float32)
    order = c.get("env", {}).get("order", "env_first")
    q = make_obj(c) if order == "ctor_first" else None
    with env_ctx(c):
      if q is None:
        q = make_obj(c)
      try:
        qmin = core.frac(q.min())
      except ValueError as e:
        qmin = None
      qmax = core.frac(q.max())
      ys = call_obj(q, xs, inp)
      u = np.unique(ys[np.isfinite(ys)])
      y2 = call_obj(q, u, {})
      yt = None
      free = bool(live_values(c)["stoch"] and c.get("env", {}).get("training") and not live_values(c)["floor"])
      if "stream" in c and not free:
        yt = twin(c)(tf.constant(xs)).numpy().astype(np.float32)
    # min()/max() tie
    run.case(("minmax", cfg_name(c)))
    run.compared += 1
    m_qmin = None if o["qmin"] is None else core.unrj(o["qmin"])
    mm_ok = (m_qmin == qmin) and core.unrj(o["qmax"]) == qmax
    if not mm_ok:
      run.disagree("minmax", cfg_name(c), [str(qmin), str(qmax)], o)
    pc = proto_cfg(c, eps32)
    lines1.append({"op": "quant", "cfg": pc, "x": core.enc_list(xs),
                   "y": [core.rj(y) if np.isfinite(y) else [0, 1] for y in ys]})
    meta1.append((tags, xs, ys, yt))
    lines2.append({"op": "quant", "cfg": pc, "x": core.enc_list(u),
                   "y": [core.rj(y) if np.isfinite(y) else [0, 1] for y in y2]})
    meta2.append((u, y2))
    quants.append((qmin, qmax, mm_ok, mn, mx, e32, free))
  for m in SHAPE_MISMATCH[:5]:
    run.disagree("shape", {"input": m[0]}, str(m[2]), str(m[1]))
  del SHAPE_MISMATCH[:]
  # (non-finite outputs are sent as 0 and judged in judge_config)
  out1 = core.run_driver("C03", lines1)
  out2 = core.run_driver("C03", lines2)

  for c, o0, (qmin, qmax, mm_ok, mn, mx, e32, free), (tags, xs, ys, yt), o1, (u, y2), o2 in zip(
      configs, cfg_out, quants, meta1, out1, meta2, out2):
    judge_config(run, c, o0, qmin, qmax, mm_ok, mn, mx, e32, free, tags, xs, ys, o1["r"], u, y2, o2["r"])
    # fresh twin (python numbers, positional, rank-1 tensor, same process state): same values => same
    # behaviour, bit for bit wherever one exponent is admissible (graph-mode routes may evaluate the
    # logarithm differently inside the band); the model says when a stale cache makes them differ
    if yt is not None and not o0["stale"]:
      n_diff = 0
      for x, y, t, o in zip(xs, ys, yt, o1["r"]):
        run.compared += 1
        if len(o["adm"]) == 1 and not (y == t or (np.isnan(y) and np.isnan(t))):
          n_diff += 1
          if n_diff <= 3:
            run.disagree("twin", {"config": cfg_name(c), "x": float(x)}, float(y), float(t))
      run.count("twin_equal" if n_diff == 0 else "twin_differs")


def key_of(c, cause, o0=None):
  v = live_values(c)
  k = {"variant": "relu_po2" if v["relu"] else "po2", "mode": "floor" if v["floor"] else "rnd",
       "quad": bool(v["quad"]), "leaky": bool(v["slope"] != 0), "cause": cause}
  if "stream" in c:
    k["stream"] = c["stream"]
    k["stale"] = bool(o0 and o0.get("stale"))
    k["bits_npint"] = c.get("forms", {}).get("bits") in NPINT_FORMS
  return k


def judge_config(run, c, o0, qmin, qmax, mm_ok, mn, mx, eps32, free, tags, xs, ys, r1, u, y2, r2):
  """clause oracle on the REAL outputs of one case.  The reference is the configuration a fresh
  object with the case's CURRENT values has (`live_values`; the driver's clause predicates are
  computed for `Obj.fresh`); `mirrored` = the model of the object as the code keeps it reproduces the
  implementation's output bit for bit.  `free`: training-phase stochastic rounding ("rnd" mode): only
  the clauses that hold for every choice of the exponent, plus "one of the two bracketing powers"."""
  name = cfg_name(c)
  lv = live_values(c)
  mv = lv["max_value"]
  K = lambda cause: key_of(c, cause, o0)
  min_code = Fraction(2) ** mn
  if qmin is None:
    # min() raised
    k = K("exact"); k["side"] = "min_raises"
    run.violate("minmax", k, {"config": name, "min()": "raises ValueError", "model": o0["qmin"]}, mm_ok)
  exact_pts = []  # (x, y) of points without a float32 effect: used for monotonicity
  good_codes = set()  # outputs of such points (fed back for idempotence)
  for i, (tag, x, y, o) in enumerate(zip(tags, xs, ys, r1)):
    fx, fy = core.frac(x), core.frac(y) if np.isfinite(y) else None
    nontrivial = not tag.startswith("rand")
    run.case((name, float(x)), nontrivial=nontrivial,
             sample={"config": name, "x": float(x), "impl": float(y), "model": o["adm"]} if i % 97 == 0 else None)
    adm = o["adm"]
    run.compared += 1
    if fy is None:
      # non-finite output: mirrored iff the model's float32 layer overflows as well
      mirrored = any(a[3] is None for a in adm)
      run.count("regime_overflow")
      if not mirrored:
        run.disagree("quant", {"config": name, "x": float(x)}, str(y), adm)
      cause = "slope_overflow" if (lv["relu"] and lv["slope"] > 1 and x < 0 and not lv["quad"]) else "overflow"
      run.violate("is_po2", K(cause), {"config": name, "x": float(x), "impl": str(y), "model": adm},
                  mirrored)
      continue
    yj = core.rj(y)
    hit = [a for a in adm if a[3] == yj]
    regime = hit[0][4] if hit else (adm[0][4] if adm else "none")
    if regime in ("exact", "daz") and o["fregime"] not in ("exact", "daz"):
      regime = o["fregime"]   # the reference configuration has a float32 effect here
    run.count("tag_" + tag)
    run.count("regime_" + regime)
    run.count("admissible_%d" % len(adm))
    if o["below"]:
      run.count("branch_below_eps")
    elif o["clamped"]:
      run.count("branch_clamped")
    else:
      r = adm[0][0] if adm else 0
      run.count("branch_sat_low" if r < mn else ("branch_sat_high" if r > mx else "branch_interior"))
    detail = {"config": name, "x": float(x), "x_exact": core.rj(x), "impl": float(y), "model": adm,
              "tag": tag}
    # ---- correspondence
    if not o["match"]:
      run.disagree("quant", detail, float(y), adm)
    mirrored = bool(o["match"])
    # ---- clauses on the implementation's output
    if regime not in ("exact", "daz"):
      # a float32 effect the model knows about: the output is judged as a power of two only
      if o["ye"] is None or (not lv["quad"] and not o["in_range"]) or not o["sign_ok"]:
        run.violate("is_po2", K(regime), detail, mirrored)
      continue
    cause = "exact"
    if o["ye"] is None:
      run.violate("is_po2", K(cause), detail, mirrored)
      continue
    if not o["in_range"]:
      run.violate("exp_range", K(cause), detail, mirrored)
    if not o["sign_ok"]:
      run.violate("sign", K(cause), detail, mirrored)
    x0 = Fraction(0) if abs(fx) < Fraction(1, 2 ** 126) else fx
    if x0 == 0 and fy != min_code:
      run.violate("zero_to_min", K(cause), detail, mirrored)
    if lv["relu"] and lv["slope"] == 0 and x0 < 0 and fy != min_code:
      run.violate("relu_negative_to_min", K(cause), detail, mirrored)
    if not o["adm_exact"]:
      run.violate("stochastic_neighbour" if free else "nearest_exponent", K(cause), detail, mirrored)
    if free:
      continue
    if mv is not None and math.log2(mv) >= mn and not o["le_max"]:
      run.violate("le_max", K(cause), detail, mirrored)
    if fy > qmax:
      k = K(cause); k["side"] = "max"
      run.violate("minmax", k, dict(detail, max=str(qmax)), mirrored and mm_ok)
    if qmin is not None and fy < qmin:
      k = K(cause); k["side"] = "min"
      run.violate("minmax", k, dict(detail, min=str(qmin)), mirrored and mm_ok)
    exact_pts.append((fx, fy, float(x), float(y), mirrored, tuple(sorted(a[0] for a in adm))))
    if o["in_range"] or lv["quad"]:
      good_codes.add(fy)
  if free:
    run.count("cases_training_stochastic")
    return
  # ---- monotone on each sign (exact-regime points)
  graph_mode = c.get("inp", {}).get("via") in ("tf_function", "model")
  for sign in (1, -1):
    side = sorted([p for p in exact_pts if (p[0] > 0 if sign > 0 else p[0] < 0)], key=lambda p: p[0])
    for a, b in zip(side, side[1:]):
      run.compared += 1
      if a[1] > b[1]:
        if graph_mode and len(a[5]) == 2 and a[5] == b[5]:
          # C03_mono_band: under float log error an inversion is confined to the band of ONE breakpoint
          # (both points admit the same two exponents).  Eager kernels are monotone there (strict check);
          # a traced graph evaluates the logarithm with vector and scalar code paths side by side.
          run.count("monotone_inversion_inside_band_graph_mode")
          continue
        run.violate("monotone", K("exact"),
                    {"config": name, "x1": a[2], "y1": a[3], "x2": b[2], "y2": b[3]}, a[4] and b[4])
  # ---- idempotent (no leaky slope): q(q(x)) == q(x) on every distinct output
  if lv["slope"] == 0:
    for y, yy, o in zip(u, y2, r2):
      fy = core.frac(y)
      if fy not in good_codes:
        continue
      # (only outputs of points without a float32 effect, i.e. genuine codes, are judged)
      run.case((name, "idem", float(y)))
      run.compared += 1
      if not o["match"]:
        run.disagree("quant2", {"config": name, "x": float(y)}, float(yy), o["adm"])
      if not np.isfinite(yy) or core.frac(yy) != fy:
        if abs(fy) < core.frac(eps32):
          cause = "eps_floor"
        elif len(o["adm"]) > 1:
          cause = "log_band"
        else:
          cause = sorted({a[4] for a in o["adm"]})[0] if o["adm"] else "exact"
        run.count("idem_fail_" + cause)
        run.violate("idempotent", K(cause),
                    {"config": name, "y": float(y), "q(y)": float(yy), "model": o["adm"]}, bool(o["match"]))
