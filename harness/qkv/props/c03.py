"""C03 — power-of-two quantizers (DESIGN.md §4 C03; model lean/QKV/Model/Po2Quant.lean).

Per configuration: a breakpoint-directed float32 tensor goes through the REAL quantizer (eager,
legacy Keras) and through the Lean model.  "rnd" mode: outside the log2 band around sqrt(2)*2^k the
float32 layer of the model (`quantF`) must equal the real output bit-for-bit; inside the band the
real output must be one of the two admissible values.  "floor" mode (after fix 40deb9c: round, then
step down iff 2**round > x) is deterministic everywhere and compared bit-for-bit.  Independently the real outputs are judged against the
property clauses by exact predicates (po2-ness / exponent range / sign / admissible exponent
evaluated in Lean, order comparisons on exact Fractions here).
"""
import math
from fractions import Fraction

import numpy as np

from .. import core

SQRT2 = math.sqrt(2.0)


# ----------------------------------------------------------------------------- float32 helpers

def nb(x, n):
  """float32 `n` ulps away from float32 `x` (x > 0)"""
  i = int(np.array([x], dtype=np.float32).view(np.int32)[0]) + n
  i = max(1, min(i, 0x7f7fffff))
  return np.array([i], dtype=np.int32).view(np.float32)[0]


def around(x, offs):
  x = np.float32(x)
  if not np.isfinite(x) or x <= 0:
    return []
  return [nb(x, d) for d in offs]


# ----------------------------------------------------------------------------- configurations

def cfg_name(c):
  mv = c["max_value"]
  return "%s(bits=%d,max_value=%s,slope=%s,%s%s)" % (
      "quantized_relu_po2" if c["relu"] else "quantized_po2", c["bits"],
      "None" if mv is None else repr(mv), repr(c["slope"]), "floor" if c["floor"] else "rnd",
      ",quad" if c["quad"] else "")


def all_configs(tier):
  bits_all = list(range(2, 9))
  mvs = [None] + [2.0 ** k for k in range(-3, 7)]
  out = []
  for relu in (False, True):
    slopes = [0.0] if not relu else [0.0, 1.0, 0.5, 0.25, 0.125, 2.0 ** -6]
    for bits in bits_all:
      for mv in mvs:
        for slope in slopes:
          for fl in (False, True):
            for quad in (False, True):
              out.append({"relu": relu, "bits": bits, "max_value": mv, "slope": slope, "floor": fl,
                          "quad": quad})
  return out


MUST = [  # configurations every run contains (defaults, documented examples, recorded findings)
    dict(relu=False, bits=8, max_value=None, slope=0.0, floor=False, quad=False),
    dict(relu=False, bits=8, max_value=None, slope=0.0, floor=True, quad=False),
    dict(relu=True, bits=8, max_value=None, slope=0.0, floor=False, quad=False),
    dict(relu=True, bits=8, max_value=None, slope=0.0, floor=True, quad=False),
    dict(relu=False, bits=4, max_value=None, slope=0.0, floor=False, quad=False),
    dict(relu=False, bits=3, max_value=0.5, slope=0.0, floor=True, quad=False),
    dict(relu=False, bits=8, max_value=1.0, slope=0.0, floor=False, quad=False),
    dict(relu=False, bits=2, max_value=None, slope=0.0, floor=False, quad=False),
    dict(relu=False, bits=2, max_value=1.0, slope=0.0, floor=True, quad=False),
    dict(relu=True, bits=4, max_value=None, slope=0.25, floor=False, quad=False),
    dict(relu=True, bits=3, max_value=4.0, slope=0.125, floor=True, quad=False),
    dict(relu=True, bits=2, max_value=0.5, slope=0.0, floor=True, quad=False),
    dict(relu=True, bits=7, max_value=1.0, slope=0.5, floor=False, quad=False),
    dict(relu=False, bits=4, max_value=None, slope=0.0, floor=True, quad=True),
    dict(relu=True, bits=3, max_value=None, slope=0.0, floor=False, quad=True),
]


def pick_configs(tier, rng):
  allc = all_configs(tier)
  nonquad = [c for c in allc if not c["quad"]]
  quad = [c for c in allc if c["quad"]]
  n_nonquad, n_quad = (110, 14) if tier == "quick" else (700, 80)
  sel = [dict(c) for c in MUST]
  seen = {cfg_name(c) for c in sel}
  for pool, n in ((nonquad, n_nonquad), (quad, n_quad)):
    idx = rng.permutation(len(pool))[:n]
    for i in sorted(idx):
      c = pool[int(i)]
      if cfg_name(c) not in seen:
        seen.add(cfg_name(c))
        sel.append(c)
  return sel


def proto_cfg(c, eps32):
  return {"relu": c["relu"], "bits": c["bits"],
          "max_value": None if c["max_value"] is None else core.rj(c["max_value"]),
          "neg_slope": core.rj(c["slope"]), "floor": c["floor"], "quad": c["quad"], "eps": core.rj(eps32)}


def build(c):
  from qkeras.quantizers import quantized_po2, quantized_relu_po2
  mode = "floor" if c["floor"] else "rnd"
  if c["relu"]:
    return quantized_relu_po2(c["bits"], c["max_value"], c["slope"], False, c["quad"], mode)
  return quantized_po2(c["bits"], c["max_value"], False, c["quad"], mode)


# ----------------------------------------------------------------------------- inputs

def gen_inputs(c, min_exp, max_exp, eps32, rng, tier):
  """positive magnitudes with a tag each; signs are added afterwards"""
  pts = []  # (tag, float32)
  offs = (-700, -8, -2, -1, 0, 1, 2, 8, 700)  # +-700 ulp: just outside the 2^-15 band
  qf = 2 if c["quad"] else 1
  lo = max(qf * min_exp - 2, -27)
  hi = min(qf * max_exp + 2, 127)
  ks = list(range(lo, hi + 1))
  limit = 22 if tier == "quick" else 60
  if len(ks) > limit:
    keep = set(ks[:4] + ks[-4:])
    keep |= {k for k in (-25, -24, -23, -22, -14, -13, -1, 0, 1, 14, 15, 16) if lo <= k <= hi}
    rest = [k for k in ks if k not in keep]
    extra = rng.permutation(len(rest))[:max(0, limit - len(keep))]
    keep |= {rest[int(i)] for i in extra}
    ks = sorted(keep)
  for k in ks:
    for x in around(2.0 ** k, offs):
      pts.append(("pow2", x))
    if SQRT2 * 2.0 ** k < 3.4e38:
      for x in around(SQRT2 * 2.0 ** k, offs):
        pts.append(("sqrt2", x))
  # epsilon floor
  for x in around(eps32, (-8, -2, -1, 0, 1, 2, 8)):
    pts.append(("eps", x))
  # clamp edges
  mv = c["max_value"]
  if mv is not None:
    for x in around(mv, (-8, -2, -1, 0, 1, 2, 8)):
      pts.append(("clamp", x))
  # slope pre-images of the eps / clamp edges (leaky branch multiplies by the slope first)
  if c["relu"] and c["slope"] not in (0.0, 1.0):
    for x in around(float(eps32) / c["slope"], (-2, -1, 0, 1, 2)):
      pts.append(("eps_slope", x))
    if mv is not None:
      for x in around(mv / c["slope"], (-2, -1, 0, 1, 2)):
        pts.append(("clamp_slope", x))
  # zero, subnormals, extremes
  for x in (0.0, 1e-45, 1e-40, 2.0 ** -127, 2.0 ** -126, 1.5 * 2.0 ** -126, 3.4028234663852886e38, 2.0 ** 127):
    pts.append(("zero" if x == 0.0 else "extreme", np.float32(x)))
  # straight-through cancellation edges: |x| around 2^24 / 2^25 times the top and bottom codes
  top = 2.0 ** (qf * max_exp) if mv is None else min(2.0 ** (qf * max_exp), mv)
  for m in (2.0 ** 23, 2.0 ** 24, 2.0 ** 25, 2.0 ** 26, 2.0 ** 30):
    for x in around(top * m, (-1, 0, 1, 3)):
      pts.append(("cancel_hi", x))
    if 2.0 ** min_exp * m < eps32 and 2.0 ** min_exp * m > 1e-37:
      for x in around(2.0 ** min_exp * m, (-1, 0, 1, 3)):
        pts.append(("cancel_lo", x))
  # random: log-uniform over the whole float32 range, and over the representable window
  n = 48 if tier == "quick" else 160
  e1 = rng.uniform(-126, 127.9, size=n)
  for e in e1:
    pts.append(("rand_wide", np.float32(2.0 ** e)))
  e2 = rng.uniform(max(qf * min_exp - 3, -30), min(qf * max_exp + 3, 127), size=n)
  for e in e2:
    pts.append(("rand_window", np.float32(2.0 ** e)))
  return pts


# ----------------------------------------------------------------------------- the run

def run(run: core.Run, tier: str):
  core.assert_repo_import()
  import tensorflow as tf
  rng = np.random.default_rng(run.seed)
  eps32 = np.float32(tf.keras.backend.epsilon())
  run.extra["rule"] = (
      "configs: 15 fixed + seeded sample of {po2, relu_po2} x bits 2..8 x max_value {None, 2^-3..2^6} x "
      "negative_slope {0, 1, 1/2, 1/4, 1/8, 1/64} x {rnd, floor} x quadratic {F, T}; inputs per config: every "
      "exponent breakpoint 2^k and sqrt(2)*2^k of the (widened) exponent window, eps, max_value, their slope "
      "pre-images, each +-{0,1,2,8} ulp and +-700 ulp (just outside the band), 0, subnormals, FLT_MAX, straight-through cancellation edges, "
      "log-uniform random; both signs; q(q(x)) for every point.  non-trivial = every point except the "
      "random ones.  Comparison: bit-for-bit against the model's float32 layer when one exponent is "
      "admissible (always in floor mode), membership when a rnd-mode input is inside the 2^-15 log2 band.")
  run.assumptions += [
      "TF CPU kernels flush subnormal inputs/results to zero (modelled: daz / rnd32 flush); "
      "a negative subnormal input is read as +0",
      "float32 round(log(x)/log(2)) is an exponent the 2^-15 band (relative, in x, around sqrt(2)*2^k) admits; "
      "floor mode's pow(2, round) > x comparison is exact; "
      "TF round/floor/pow(2, integer) are exact in the normal range (checked: pow on -126..127 each run)",
  ]

  # pow(2, e) exactness: an assumption of the float layer, checked on the real op
  es = np.arange(-160, 140).astype(np.float32)
  ps = tf.pow(2.0, tf.constant(es)).numpy()
  for e, p in zip(es, ps):
    want = 0.0 if e < -126 else (np.inf if e > 127 else 2.0 ** int(e))
    run.compared += 1
    if not (float(p) == want):
      run.disagree("pow2F", {"e": int(e)}, float(p), want)
  run.count("pow2F_points", len(es))

  # malformed configurations: constructor errors
  from qkeras.quantizers import quantized_po2, quantized_relu_po2
  bad = [(False, -1.0, 0.0), (True, -0.5, 0.0), (True, None, -0.5), (True, None, 0.3), (True, None, 3.0),
         (True, 2.0, 0.25), (False, 0.25, 0.0)]
  bad_lines, bad_impl = [], []
  for relu, mv, slope in bad:
    try:
      (quantized_relu_po2(4, mv, slope) if relu else quantized_po2(4, mv))
      err = None
    except ValueError:
      err = "value-error"
    except AssertionError:
      err = "assert"
    c = {"relu": relu, "bits": 4, "max_value": mv, "slope": slope, "floor": False, "quad": False}
    bad_lines.append({"op": "cfg", "cfg": proto_cfg(c, eps32)})
    bad_impl.append(err)
  for line, err, o in zip(bad_lines, bad_impl, core.run_driver("C03", bad_lines)):
    run.case(("ctor", str(line["cfg"])), sample=None)
    run.compared += 1
    run.count("ctor_" + str(err))
    if o.get("err") != err:
      run.disagree("ctor", line, err, o)

  configs = pick_configs(tier, rng)
  # ---- pass 0: exponent ranges and min()/max() from the model (tied to the real min()/max())
  cfg_lines = [{"op": "cfg", "cfg": proto_cfg(c, eps32)} for c in configs]
  cfg_out = core.run_driver("C03", cfg_lines)
  quants = []
  for c, o in zip(configs, cfg_out):
    q = build(c)
    qmin, qmax = core.frac(q.min()), core.frac(q.max())
    run.case(("minmax", cfg_name(c)))
    run.compared += 1
    if core.unrj(o["qmin"]) != qmin or core.unrj(o["qmax"]) != qmax:
      run.disagree("minmax", cfg_name(c), [str(qmin), str(qmax)], o)
    quants.append((q, qmin, qmax, int(o["min_exp"]), int(o["max_exp"])))

  # ---- pass 1: q(x);  pass 2: q(q(x)) on the distinct outputs
  lines1, meta1 = [], []
  for c, (q, qmin, qmax, mn, mx) in zip(configs, quants):
    pts = gen_inputs(c, mn, mx, eps32, rng, tier)
    tags = [t for t, _ in pts] * 2
    xs = np.array([x for _, x in pts] + [-x for _, x in pts], dtype=np.float32)
    ys = q(tf.constant(xs)).numpy().astype(np.float32)
    lines1.append({"op": "quant", "cfg": proto_cfg(c, eps32), "x": core.enc_list(xs),
                   "y": [core.rj(y) if np.isfinite(y) else [0, 1] for y in ys]})
    meta1.append((tags, xs, ys))
  # (non-finite outputs are sent as 0 and judged in judge_config)
  out1 = core.run_driver("C03", lines1)

  lines2, meta2 = [], []
  for c, (q, qmin, qmax, mn, mx), (tags, xs, ys) in zip(configs, quants, meta1):
    u = np.unique(ys[np.isfinite(ys)])
    y2 = q(tf.constant(u)).numpy().astype(np.float32)
    lines2.append({"op": "quant", "cfg": proto_cfg(c, eps32), "x": core.enc_list(u),
                   "y": [core.rj(y) if np.isfinite(y) else [0, 1] for y in y2]})
    meta2.append((u, y2))
  out2 = core.run_driver("C03", lines2)

  for c, (q, qmin, qmax, mn, mx), (tags, xs, ys), o1, (u, y2), o2 in zip(
      configs, quants, meta1, out1, meta2, out2):
    judge_config(run, c, qmin, qmax, mn, mx, eps32, tags, xs, ys, o1["r"], u, y2, o2["r"])


def key_of(c, cause):
  return {"variant": "relu_po2" if c["relu"] else "po2", "mode": "floor" if c["floor"] else "rnd",
          "quad": bool(c["quad"]), "leaky": bool(c["slope"] != 0), "cause": cause}


def judge_config(run, c, qmin, qmax, mn, mx, eps32, tags, xs, ys, r1, u, y2, r2):
  name = cfg_name(c)
  mv = c["max_value"]
  min_code = Fraction(2) ** mn
  exact_pts = []  # (x, y) of points without a float32 effect: used for monotonicity
  good_codes = set()  # outputs of such points (fed back for idempotence)
  for i, (tag, x, y, o) in enumerate(zip(tags, xs, ys, r1)):
    fx, fy = core.frac(x), core.frac(y) if np.isfinite(y) else None
    nontrivial = not tag.startswith("rand")
    run.case((name, float(x)), nontrivial=nontrivial,
             sample={"config": name, "x": float(x), "impl": float(y), "model": o["adm"]} if i % 97 == 0 else None)
    adm = o["adm"]
    run.compared += 1
    if fy is None:
      # non-finite output: mirrored iff the model's float32 layer overflows as well
      mirrored = any(a[3] is None for a in adm)
      run.count("regime_overflow")
      if not mirrored:
        run.disagree("quant", {"config": name, "x": float(x)}, str(y), adm)
      run.violate("is_po2", key_of(c, "overflow"), {"config": name, "x": float(x), "impl": str(y), "model": adm},
                  mirrored)
      continue
    yj = core.rj(y)
    hit = [a for a in adm if a[3] == yj]
    regime = hit[0][4] if hit else (adm[0][4] if adm else "none")
    run.count("tag_" + tag)
    run.count("regime_" + regime)
    run.count("admissible_%d" % len(adm))
    if o["below"]:
      run.count("branch_below_eps")
    elif o["clamped"]:
      run.count("branch_clamped")
    else:
      r = adm[0][0] if adm else 0
      run.count("branch_sat_low" if r < mn else ("branch_sat_high" if r > mx else "branch_interior"))
    detail = {"config": name, "x": float(x), "x_exact": core.rj(x), "impl": float(y), "model": adm,
              "tag": tag}
    # ---- correspondence
    if not o["match"]:
      run.disagree("quant", detail, float(y), adm)
    mirrored = bool(o["match"])
    # ---- clauses on the implementation's output
    if regime not in ("exact", "daz"):
      # a float32 effect the model knows about: the output is judged as a power of two only
      if o["ye"] is None or (not c["quad"] and not o["in_range"]) or not o["sign_ok"]:
        run.violate("is_po2", key_of(c, regime), detail, mirrored)
      continue
    cause = "exact"
    if o["ye"] is None:
      run.violate("is_po2", key_of(c, cause), detail, mirrored)
      continue
    if not o["in_range"]:
      run.violate("exp_range", key_of(c, cause), detail, mirrored)
    if not o["sign_ok"]:
      run.violate("sign", key_of(c, cause), detail, mirrored)
    x0 = Fraction(0) if abs(fx) < Fraction(1, 2 ** 126) else fx
    if x0 == 0 and fy != min_code:
      run.violate("zero_to_min", key_of(c, cause), detail, mirrored)
    if c["relu"] and c["slope"] == 0 and x0 < 0 and fy != min_code:
      run.violate("relu_negative_to_min", key_of(c, cause), detail, mirrored)
    if not o["adm_exact"]:
      run.violate("nearest_exponent", key_of(c, cause), detail, mirrored)
    if mv is not None and math.log2(mv) >= mn and not o["le_max"]:
      run.violate("le_max", key_of(c, cause), detail, mirrored)
    if fy > qmax:
      k = key_of(c, cause); k["side"] = "max"
      run.violate("minmax", k, dict(detail, max=str(qmax)), mirrored)
    if fy < qmin:
      k = key_of(c, cause); k["side"] = "min"
      run.violate("minmax", k, dict(detail, min=str(qmin)), mirrored)
    exact_pts.append((fx, fy, float(x), float(y), mirrored))
    if o["in_range"] or c["quad"]:
      good_codes.add(fy)
  # ---- monotone on each sign (exact-regime points)
  for sign in (1, -1):
    side = sorted([p for p in exact_pts if (p[0] > 0 if sign > 0 else p[0] < 0)], key=lambda p: p[0])
    for a, b in zip(side, side[1:]):
      run.compared += 1
      if a[1] > b[1]:
        run.violate("monotone", key_of(c, "exact"),
                    {"config": name, "x1": a[2], "y1": a[3], "x2": b[2], "y2": b[3]}, a[4] and b[4])
  # ---- idempotent (no leaky slope): q(q(x)) == q(x) on every distinct output
  if c["slope"] == 0:
    for y, yy, o in zip(u, y2, r2):
      fy = core.frac(y)
      if fy not in good_codes:
        continue
      # (only outputs of points without a float32 effect, i.e. genuine codes, are judged)
      run.case((name, "idem", float(y)))
      run.compared += 1
      if not o["match"]:
        run.disagree("quant2", {"config": name, "x": float(y)}, float(yy), o["adm"])
      if not np.isfinite(yy) or core.frac(yy) != fy:
        if abs(fy) < core.frac(eps32):
          cause = "eps_floor"
        elif len(o["adm"]) > 1:
          cause = "log_band"
        else:
          cause = sorted({a[4] for a in o["adm"]})[0] if o["adm"] else "exact"
        run.count("idem_fail_" + cause)
        run.violate("idempotent", key_of(c, cause),
                    {"config": name, "y": float(y), "q(y)": float(yy), "model": o["adm"]}, bool(o["match"]))


