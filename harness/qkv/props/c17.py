"""C17 — qtools accumulator / adder / merge types hold the sums they are sized for (DESIGN §4 C17)."""
import numpy as np

from .. import core, qtypes
from .c16 import small


def shapes(rng, tier):
  """kernel shapes: dense rank 2 and conv rank 4 with N (product of all but the last dim) over
  1,2,3, every 2^k and 2^k±1 up to 2^20, plus random"""
  ns = {1, 2, 3, 5, 7}
  for k in range(1, 21):
    ns.update({2 ** k - 1, 2 ** k, 2 ** k + 1})
  ns.update(int(v) for v in rng.integers(1, 2 ** 20, size=20 if tier == "quick" else 200))
  out = []
  for n in sorted(ns):
    out.append([n, int(rng.integers(1, 9))])                      # dense
    # conv: factor n as kh*kw*cin where possible
    for kh in (3, 2, 1):
      if n % (kh * kh) == 0:
        out.append([kh, kh, n // (kh * kh), int(rng.integers(1, 9))])
        break
  return out


def run(run: core.Run, tier: str):
  core.assert_repo_import()
  from qkeras.qtools.quantized_operators import (quantizer_factory, multiplier_factory,
                                                 accumulator_factory, adder_factory, merge_factory)
  rng = np.random.default_rng(run.seed)
  qf = quantizer_factory.QuantizerFactory()
  mf = multiplier_factory.MultiplierFactory()
  af = accumulator_factory.AccumulatorFactory()
  adder = adder_factory.IAdder()
  mg = merge_factory.MergeFactory()
  run.extra["rule"] = (
      "multiplier outputs of real (weight,input) type pairs x kernel shapes with N over 1..2^20 "
      "(every 2^k, 2^k±1) x use_bias -> AccumulatorFactory; all ordered pairs of a type sample -> "
      "IAdder; lists of 2-4 types -> MergeFactory; non-trivial = distinct (types, shape/bias) case; "
      "brute force = extremal and pairwise sums of small types judged by Lean Val on the REAL output type")

  types = qtypes.qkeras_types("quick", rng)   # operand grid (bits <= 8) is enough: widths add
  recs = [(label, qf.make_quantizer(q)) for label, q in types]
  recs = [(l, q, qtypes.to_rec(q)) for l, q in recs]
  idx_by_mode = {}
  for i, (_, _, r) in enumerate(recs):
    idx_by_mode.setdefault(r["mode"], []).append(i)

  # ---- static tie: the 36-cell adder table
  cells = {}
  for a in range(6):
    for b in range(6):
      cells[(a, b)] = adder.adder_impl_table[a][b].__name__
  run.extra["static_tables_compared"] = {"adder_impl_table_cells": 36}

  def pick(mode, k):
    ids = idx_by_mode.get(mode, [])
    if not ids:
      return []
    return [ids[i] for i in rng.choice(len(ids), size=min(k, len(ids)), replace=False)]

  # ---- accumulators
  n_pairs = 40 if tier == "quick" else 300
  mults = []
  for wm in range(6):
    for xm in range(6):
      for wi in pick(wm, 2 if tier == "quick" else 4):
        for xi in pick(xm, 2 if tier == "quick" else 4):
          mults.append((wi, xi))
  shp = shapes(rng, tier)
  lines, meta = [], []
  for (wi, xi) in mults:
    lw, w, rw = recs[wi]
    lx, x, rx = recs[xi]
    m = mf.make_multiplier(w, x)
    rm = qtypes.to_rec(m.output)
    sel = [shp[i] for i in rng.choice(len(shp), size=6 if tier == "quick" else 20, replace=False)]
    sel += [[1, 1], [2, 3], [4, 2], [1, 1, 1, 1], [1, 1, 4, 2]]
    for s in sel:
      for ub in (False, True):
        acc = af.make_accumulator(tuple(s), m, ub)
        ro = qtypes.to_rec(acc.output)
        lines.append({"op": "acc", "m": rm, "shape": s, "use_bias": ub})
        meta.append((lw, lx, rm, s, ub, ro))
  outs = core.run_driver("C17", lines)
  brute, bmeta = [], []
  for (lw, lx, rm, s, ub, ro), o in zip(meta, outs):
    run.case(("acc", lw, lx, tuple(s), ub),
             sample={"acc": [lw, lx], "shape": s, "use_bias": ub, "out": ro} if len(run.samples) < 3 else None)
    run.compared += 1
    run.count("acc_mult_mode_%d" % rm["mode"])
    d = qtypes.rec_eq(ro, o["out"], ignore=("use_01", "name", "mode")) if not ro["is_floating_point"] else \
        {k: 1 for k in ("bits", "is_signed", "is_floating_point") if ro[k] != o["out"][k]}
    mirrored = not d
    if d:
      run.disagree("make_accumulator", {"w": lw, "x": lx, "shape": s, "use_bias": ub, "mult_out": rm}, ro, o["out"])
    n = int(np.prod(s[:-1])) + (1 if ub else 0)
    if small(rm) and not ro["is_floating_point"]:
      brute.append({"op": "brute_acc", "m": rm, "out": ro, "n": n})
      bmeta.append((lw, lx, rm, s, ub, ro, n, mirrored))
  outs = core.run_driver("C17", brute)
  nsums = 0
  for (lw, lx, rm, s, ub, ro, n, mirrored), o in zip(bmeta, outs):
    nsums += o["sums"]
    if o["bad"] is not None:
      b = o["bad"]
      key = {"site": "accumulator", "m_mode": rm["mode"], "m_is_po2": bool(rm["is_po2"]), "why": b["why"],
             "tag": b["tag"], "n_is_pow2": (n & (n - 1)) == 0}
      run.violate("acc_sum", key, {"w": lw, "x": lx, "mult_out": rm, "shape": s, "use_bias": ub,
                                   "acc": ro, "n_terms": n, "sum": str(core.unrj(b["sum"])), "tag": b["tag"]},
                  mirrored=mirrored)
  run.extra["brute_acc_cases"] = len(brute)

  # ---- adders
  sel = []
  for m in range(6):
    sel += pick(m, 10 if tier == "quick" else 30)
  lines, meta = [], []
  for a in sel:
    for b in sel:
      la, qa, ra = recs[a]
      lb, qb, rb = recs[b]
      out = adder.make_quantizer(qa, qb).output
      lines.append({"op": "adder", "a": ra, "b": rb})
      meta.append((la, lb, ra, rb, qtypes.to_rec(out)))
  outs = core.run_driver("C17", lines)
  brute, bmeta = [], []
  for (la, lb, ra, rb, ro), o in zip(meta, outs):
    run.case(("adder", la, lb), sample={"adder": [la, lb], "out": ro} if len(run.samples) < 6 else None)
    run.compared += 1
    run.count("adder_cell_%d_%d" % (ra["mode"], rb["mode"]))
    if "err" in o:
      run.disagree("adder", {"a": la, "b": lb}, ro, o)
      continue
    if ro["is_floating_point"]:
      d = {k: 1 for k in ("bits", "is_floating_point") if ro[k] != o["out"][k]}
    else:
      d = qtypes.rec_eq(ro, o["out"], ignore=("use_01", "name"))
    if d:
      run.disagree("adder", {"a": la, "b": lb, "a_rec": ra, "b_rec": rb}, ro, o["out"])
    if small(ra) and small(rb) and not ro["is_floating_point"]:
      brute.append({"op": "brute_add", "qs": [ra, rb], "out": ro, "kind": "sum"})
      bmeta.append((la, lb, ra, rb, ro, not d))
  outs = core.run_driver("C17", brute)
  for (la, lb, ra, rb, ro, mirrored), o in zip(bmeta, outs):
    nsums += o["sums"]
    if o["bad"] is not None:
      b = o["bad"]
      key = {"site": "adder", "a_mode": ra["mode"], "b_mode": rb["mode"], "why": b["why"], "tag": b["tag"],
             "has_unit": ra["mode"] in (2, 3) or rb["mode"] in (2, 3)}
      run.violate("adder_sum", key, {"a": la, "b": lb, "out": ro, "sum": str(core.unrj(b["sum"])),
                                     "tag": b["tag"]}, mirrored=mirrored)
  run.extra["brute_add_cases"] = len(brute)

  # ---- merge layers
  lines, meta = [], []
  kinds = ["Add", "Maximum", "Minimum", "Average", "Concatenate", "Multiply"]
  n_lists = 150 if tier == "quick" else 1200
  pool = [i for i in range(len(recs))]
  for _ in range(n_lists):
    k = int(rng.integers(2, 5))
    if rng.random() < 0.3:
      ids = [int(rng.choice(pool))] * k            # identical types: the shortcut branch
    elif rng.random() < 0.5:
      ids = [int(v) for v in rng.choice(idx_by_mode[0], size=k)]
    else:
      ids = [int(v) for v in rng.choice(pool, size=k)]
    kind = kinds[int(rng.integers(0, len(kinds)))]
    qs = [recs[i][1] for i in ids]
    try:
      out = mg.make_quantizer([(q, None) for q in qs], kind).output
    except Exception as e:  # pylint: disable=broad-except
      run.count("merge_impl_error")
      continue
    lines.append({"op": "merge", "kind": kind, "qs": [recs[i][2] for i in ids]})
    meta.append((kind, [recs[i][0] for i in ids], [recs[i][2] for i in ids], qtypes.to_rec(out)))
  outs = core.run_driver("C17", lines)
  brute, bmeta = [], []
  for (kind, labels, rs, ro), o in zip(meta, outs):
    run.case(("merge", kind, tuple(labels)))
    run.compared += 1
    run.count("merge_" + kind)
    if "err" in o:
      run.disagree("merge", {"kind": kind, "qs": labels}, ro, o)
      continue
    if ro["is_floating_point"]:
      d = {k: 1 for k in ("bits", "is_floating_point") if ro[k] != o["out"][k]}
    else:
      d = qtypes.rec_eq(ro, o["out"], ignore=("use_01",))
    if d:
      run.disagree("merge", {"kind": kind, "qs": labels, "recs": rs}, ro, o["out"])
    same = all(r == rs[0] for r in rs)
    if kind != "Multiply" and all(small(r) for r in rs) and len(rs) <= 3 and not ro["is_floating_point"]:
      brute.append({"op": "brute_add", "qs": rs, "out": ro, "kind": "sum" if kind == "Add" else "each"})
      bmeta.append((kind, labels, rs, ro, same, not d))
  outs = core.run_driver("C17", brute)
  for (kind, labels, rs, ro, same, mirrored), o in zip(bmeta, outs):
    nsums += o["sums"]
    if o["bad"] is not None:
      b = o["bad"]
      key = {"site": "merge", "kind": "Add" if kind == "Add" else "Max-like", "same_format": same,
             "n_inputs_gt2": len(rs) > 2, "why": b["why"], "tag": b["tag"],
             "has_unit": any(r["mode"] in (2, 3) for r in rs), "has_po2": any(r["mode"] == 1 for r in rs),
             "int_bits_below_minus1": any(r["mode"] == 0 and r["int_bits"] < -1 for r in rs)}
      run.violate("merge_sum" if kind == "Add" else "merge_holds_inputs", key,
                  {"kind": kind, "inputs": labels, "out": ro, "value": str(core.unrj(b["sum"])), "tag": b["tag"]},
                  mirrored=mirrored)
  run.extra["brute_merge_cases"] = len(brute)
  run.extra["brute_force_sums_judged"] = nsums
  run.assumptions.append("np.ceil(np.log2(N)) is tied to the exact clog2 for N <= 2^20+1 only; the theorem is for all N")
