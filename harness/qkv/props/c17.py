"""C17 — qtools accumulator / adder / merge types hold the sums they are sized for (DESIGN §4 C17)."""
import json

import numpy as np

from .. import core, qtypes
from .c16 import small


def shapes(rng, tier):
  """kernel shapes: dense rank 2 and conv rank 4 with N (product of all but the last dim) over
  1,2,3, every 2^k and 2^k±1 up to 2^20, plus random"""
  ns = {1, 2, 3, 5, 7}
  for k in range(1, 21):
    ns.update({2 ** k - 1, 2 ** k, 2 ** k + 1})
  ns.update(int(v) for v in rng.integers(1, 2 ** 20, size=20 if tier == "quick" else 200))
  out = []
  for n in sorted(ns):
    out.append([n, int(rng.integers(1, 9))])                      # dense
    # conv: factor n as kh*kw*cin where possible
    for kh in (3, 2, 1):
      if n % (kh * kh) == 0:
        out.append([kh, kh, n // (kh * kh), int(rng.integers(1, 9))])
        break
  return out


REC_FIELDS = ("mode", "name", "bits", "int_bits", "is_signed", "is_po2", "max_val_po2", "use_01")


def twin_groups(recs, field):
  """groups (lists of indices into `recs`) of operand types whose qtools records agree on EVERY field except `field`,
  one member per distinct value of `field` — the types a memo / dispatch key that forgets `field` cannot tell apart"""
  groups = {}
  for i, (_, _, r) in enumerate(recs):
    sig = tuple(json.dumps(r[k]) for k in REC_FIELDS if k != field)
    groups.setdefault(sig, {}).setdefault(json.dumps(r[field]), i)
  return [list(g.values()) for g in groups.values() if len(g) >= 2]


def width_rank(r, field):
  """the widening order inside a twin group: the value of the one field that differs; for `max_val_po2` the cap itself
  (no cap = widest).  Two caps that both lie above the natural exponent range give the same VALUE set but qtools
  multiplies the caps as given, so the order has to be that of the caps, not of the value sets"""
  v = r[field]
  if field == "max_val_po2":
    return (1, 0) if v is None else (0, core.unrj(v))
  return (0, v) if not isinstance(v, bool) else (0, int(v))


def frac_of(r):
  return r["bits"] - int(r["is_signed"]) - r["int_bits"]


def adder_key(ra, rb, b):
  return {"site": "adder", "a_mode": ra["mode"], "b_mode": rb["mode"], "why": b["why"], "tag": b["tag"],
          "has_unit": ra["mode"] in (2, 3) or rb["mode"] in (2, 3)}


def acc_key(rm, n, b):
  return {"site": "accumulator", "m_mode": rm["mode"], "m_is_po2": bool(rm["is_po2"]), "why": b["why"],
          "tag": b["tag"], "n_is_pow2": (n & (n - 1)) == 0}


def merge_key(kind, rs, b):
  return {"site": "merge", "kind": "Add" if kind == "Add" else "Max-like", "same_format": all(r == rs[0] for r in rs),
          "n_inputs_gt2": len(rs) > 2, "why": b["why"], "tag": b["tag"],
          "has_unit": any(r["mode"] in (2, 3) for r in rs), "has_po2": any(r["mode"] == 1 for r in rs),
          "int_bits_below_minus1": any(r["mode"] == 0 and r["int_bits"] < -1 for r in rs),
          "inputs_differ_in": ",".join(f for f in REC_FIELDS if any(r[f] != rs[0][f] for r in rs))}


def history_stream(run, tier, recs, mods):
  """HISTORIES over operand types in ONE process.  The three factories are pure functions of the operand records (Lean:
  `makeAdder`, `makeAccumulator`, `mergeAdd/mergeMax` take nothing else; Props.C17 `C17_history_*`), so the k-th
  derivation must give what a fresh process gives.  A history walks a TWIN GROUP — operand types whose records differ in
  exactly one field (max_val_po2 / bits / int_bits / is_signed / name) — against one fixed partner, in ascending,
  descending and shuffled width order, alternating operand position and fresh / long-lived factory objects; po2 groups
  also as po2 + po2 over all ordered pairs of members.  Each step is compared with the model, the brute-force clause
  oracle judges every sum of operand values against the REAL result type of that step, and along an ascending history
  the result type must never get narrower.  This stream runs FIRST: process-level state is still empty."""
  adder_factory, accumulator_factory, merge_factory, mf = mods
  rng = np.random.default_rng([run.seed, 1707])
  long_lived = {"adder": adder_factory.IAdder(), "acc": accumulator_factory.AccumulatorFactory(),
                "merge": merge_factory.MergeFactory()}
  by_label = {l: i for i, (l, _, _) in enumerate(recs)}
  partners = [by_label[l] for l in (
      "quantized_bits(4,1,keep_negative=1)", "quantized_bits(5,0,keep_negative=0)", "quantized_relu(3,1,negative_slope=0.0)",
      "quantized_bits(3,2,keep_negative=1)", "quantized_po2(3,None)", "quantized_relu_po2(2,None)", "quantized_po2(4,2)",
      "ternary()", "binary(use_01=1)", "quantized_bits(6,0,keep_negative=0)", "quantized_bits(8,3,keep_negative=1)")
              if l in by_label]
  n_per_field = {"max_val_po2": 14, "bits": 5, "int_bits": 5, "is_signed": 5, "name": 4}
  if tier != "quick":
    n_per_field = {k: 3 * v for k, v in n_per_field.items()}
  histories = []        # (factory, field, order, [(operand index list, extra)], ascending?)
  for field, n_groups in n_per_field.items():
    groups = twin_groups(recs, field)
    if field == "max_val_po2":
      # every po2 width that can be enumerated by the brute-force oracle first, then the wider ones
      groups.sort(key=lambda g: (not small(recs[g[0]][2]), recs[g[0]][2]["bits"], recs[g[0]][2]["name"]))
    else:
      groups = [g for g in groups if small(recs[g[0]][2])] or groups
      groups = [groups[i] for i in rng.permutation(len(groups))]
    for gi, g in enumerate(groups[:n_groups]):
      g = sorted(g, key=lambda i: (width_rank(recs[i][2], field), recs[i][0]))
      if len(g) > 5:      # narrowest, widest and three seeded members in between
        mid = sorted(int(v) for v in rng.choice(np.arange(1, len(g) - 1), size=3, replace=False))
        g = [g[0]] + [g[i] for i in mid] + [g[-1]]
      ps = [partners[int(v)] for v in rng.choice(len(partners), size=3, replace=False)]
      orders = [("ascending", list(g)), ("descending", list(g)[::-1]), ("shuffled", [g[i] for i in rng.permutation(len(g))])]
      for oi, ((oname, members), p) in enumerate(zip(orders, ps)):
        pos = (gi + oi) % 2
        for fac in ("adder", "acc", "merge"):
          steps = [([m, p] if pos == 0 else [p, m]) for m in members]
          histories.append((fac, field, oname, steps, pos))
      if field == "max_val_po2" and gi < 8:
        mem = [g[0], g[len(g) // 2], g[-1]]
        pairs = [[a, b] for a in mem for b in mem]
        pairs = [pairs[i] for i in rng.permutation(len(pairs))]
        for fac in ("adder", "acc", "merge"):
          histories.append((fac, field, "twin-pairs", pairs, None))
  kinds = ["Add", "Maximum", "Concatenate", "Average", "Minimum"]
  lines, meta = [], []
  for hi, (fac, field, oname, steps, pos) in enumerate(histories):
    shape = [[3, 2], [4, 2], [2, 2, 1, 3], [1, 1]][hi % 4]
    ub = bool((hi // 4) % 2)
    kind = kinds[hi % len(kinds)]
    done = []
    for si, ids in enumerate(steps):
      qa, qb_ = recs[ids[0]][1], recs[ids[1]][1]
      ra, rb = recs[ids[0]][2], recs[ids[1]][2]
      fresh = (hi + si) % 2 == 0                       # a fresh factory object / the long-lived one, alternately
      info = {"factory": fac, "field": field, "order": oname, "step": si, "operands": [recs[i][0] for i in ids],
              "factory_object": "fresh" if fresh else "long-lived", "history": list(done)}
      try:
        if fac == "adder":
          f = adder_factory.IAdder() if fresh else long_lived["adder"]
          out = f.make_quantizer(qa, qb_).output
          line = {"op": "adder", "a": ra, "b": rb}
          ins = [ra, rb]
        elif fac == "acc":
          # the twin member is the WEIGHT type at pos 0, the input type at pos 1; the accumulator sees the product type
          m = mf.make_multiplier(qa, qb_)
          f = accumulator_factory.AccumulatorFactory() if fresh else long_lived["acc"]
          out = f.make_accumulator(tuple(shape), m, ub).output
          rm = qtypes.to_rec(m.output)
          line = {"op": "acc", "m": rm, "shape": shape, "use_bias": ub}
          ins = [rm]
          info.update(shape=shape, use_bias=ub, mult_out=rm)
        else:
          f = merge_factory.MergeFactory() if fresh else long_lived["merge"]
          out = f.make_quantizer([(qa, None), (qb_, None)], kind).output
          line = {"op": "merge", "kind": kind, "qs": [ra, rb]}
          ins = [ra, rb]
          info["kind"] = kind
      except Exception as e:  # pylint: disable=broad-except
        run.count("history_impl_error_" + type(e).__name__)
        done.append("+".join(info["operands"]) + " -> " + type(e).__name__)
        continue
      ro = qtypes.to_rec(out)
      done.append("+".join(info["operands"]) + " -> (%d,%d,%d)" % (ro["bits"], ro["int_bits"], int(ro["is_signed"])))
      lines.append(line)
      meta.append((hi, si, fac, info, ins, ro, ids, pos))
  outs = core.run_driver("C17", lines)
  brute, bmeta = [], []
  prev = {}
  for (hi, si, fac, info, ins, ro, ids, pos), line, o in zip(meta, lines, outs):
    run.case(("history", fac, info["field"], info["order"], tuple(info["operands"]), si, hi),
             sample=dict(info, out=ro) if (si == 1 and len(run.samples) < 8) else None)
    run.compared += 1
    run.count("history_%s_%s" % (fac, info["field"]))
    run.count("history_order_" + info["order"])
    if "err" in o:
      run.disagree("history_" + fac, info, ro, o)
      continue
    if ro["is_floating_point"]:
      d = {k: 1 for k in ("bits", "is_floating_point") if ro[k] != o["out"][k]}
    else:
      d = qtypes.rec_eq(ro, o["out"], ignore=("use_01", "name", "mode") if fac == "acc" else ("use_01", "name"))
    if d:
      run.disagree("history_" + fac, info, ro, o["out"])
    if ro["is_floating_point"]:
      continue
    # widening clause along an ascending history: the twin member grows, the partner is fixed
    if info["order"] == "ascending" and info["field"] in ("max_val_po2", "bits"):
      p_ = prev.get(hi)
      # (int_bits, fraction bits) of two records are comparable only when both are the same kind of record: a
      # power-of-two record keeps its EXPONENT width in bits / int_bits.  Since fix 0ca6039 a Maximum of two po2
      # inputs with different caps is a fixed-point envelope while the same-cap pair that ends the ascending group
      # is the po2 type itself; that pair of results is judged by the brute-force value clause below, not here.
      if p_ is not None and bool(ro["is_po2"]) == bool(p_[0]["is_po2"]) and (
          ro["int_bits"] < p_[0]["int_bits"] or frac_of(ro) < frac_of(p_[0])):
        run.violate("widening_never_narrows", {"site": fac, "field": info["field"], "stream": "history"},
                    dict(info, out=ro, previous_out=p_[0], previous_operands=p_[1]), mirrored=not d)
      prev[hi] = (ro, info["operands"])
    if all(small(r) for r in ins):
      if fac == "acc":
        n = int(np.prod(info["shape"][:-1])) + (1 if info["use_bias"] else 0)
        brute.append({"op": "brute_acc", "m": ins[0], "out": ro, "n": n})
      else:
        brute.append({"op": "brute_add", "qs": ins, "out": ro,
                      "kind": "sum" if (fac == "adder" or info["kind"] == "Add") else "each"})
      bmeta.append((fac, info, ins, ro, not d))
  outs = core.run_driver("C17", brute)
  nsums = 0
  for (fac, info, ins, ro, mirrored), line, o in zip(bmeta, brute, outs):
    nsums += o["sums"]
    if o["bad"] is None:
      continue
    b = o["bad"]
    detail = dict(info, out=ro, sum=str(core.unrj(b["sum"])), tag=b["tag"])
    if fac == "adder":
      run.violate("adder_sum", dict(adder_key(ins[0], ins[1], b), stream="history"), detail, mirrored=mirrored)
    elif fac == "acc":
      run.violate("acc_sum", dict(acc_key(ins[0], line["n"], b), stream="history"), dict(detail, n_terms=line["n"]),
                  mirrored=mirrored)
    else:
      run.violate("merge_sum" if info["kind"] == "Add" else "merge_holds_inputs",
                  dict(merge_key(info["kind"], ins, b), stream="history"), detail, mirrored=mirrored)
  run.extra["history_steps"] = len(meta)
  run.extra["history_brute_cases"] = len(brute)
  return nsums


def run(run: core.Run, tier: str):
  core.assert_repo_import()
  from qkeras.qtools.quantized_operators import (quantizer_factory, multiplier_factory,
                                                 accumulator_factory, adder_factory, merge_factory)
  rng = np.random.default_rng(run.seed)
  qf = quantizer_factory.QuantizerFactory()
  mf = multiplier_factory.MultiplierFactory()
  af = accumulator_factory.AccumulatorFactory()
  adder = adder_factory.IAdder()
  mg = merge_factory.MergeFactory()
  run.extra["rule"] = (
      "multiplier outputs of real (weight,input) type pairs x kernel shapes with N over 1..2^20 "
      "(every 2^k, 2^k±1) x use_bias -> AccumulatorFactory; all ordered pairs of a type sample -> "
      "IAdder; lists of 2-4 types -> MergeFactory; non-trivial = distinct (types, shape/bias) case; "
      "brute force = extremal and pairwise sums of small types judged by Lean Val on the REAL output type")

  types = qtypes.qkeras_types("quick", rng)   # operand grid (bits <= 8) is enough: widths add
  recs = [(label, qf.make_quantizer(q)) for label, q in types]
  recs = [(l, q, qtypes.to_rec(q)) for l, q in recs]
  idx_by_mode = {}
  for i, (_, _, r) in enumerate(recs):
    idx_by_mode.setdefault(r["mode"], []).append(i)

  # ---- static tie: the 36-cell adder table
  cells = {}
  for a in range(6):
    for b in range(6):
      cells[(a, b)] = adder.adder_impl_table[a][b].__name__
  run.extra["static_tables_compared"] = {"adder_impl_table_cells": 36}

  # ---- histories (first: no adder / accumulator / merge type has been derived in this process yet)
  nsums_hist = history_stream(run, tier, recs, (adder_factory, accumulator_factory, merge_factory, mf))

  def pick(mode, k):
    ids = idx_by_mode.get(mode, [])
    if not ids:
      return []
    return [ids[i] for i in rng.choice(len(ids), size=min(k, len(ids)), replace=False)]

  # ---- accumulators
  n_pairs = 40 if tier == "quick" else 300
  mults = []
  for wm in range(6):
    for xm in range(6):
      for wi in pick(wm, 2 if tier == "quick" else 4):
        for xi in pick(xm, 2 if tier == "quick" else 4):
          mults.append((wi, xi))
  shp = shapes(rng, tier)
  lines, meta = [], []
  for (wi, xi) in mults:
    lw, w, rw = recs[wi]
    lx, x, rx = recs[xi]
    m = mf.make_multiplier(w, x)
    rm = qtypes.to_rec(m.output)
    sel = [shp[i] for i in rng.choice(len(shp), size=6 if tier == "quick" else 20, replace=False)]
    sel += [[1, 1], [2, 3], [4, 2], [1, 1, 1, 1], [1, 1, 4, 2]]
    for s in sel:
      for ub in (False, True):
        acc = af.make_accumulator(tuple(s), m, ub)
        ro = qtypes.to_rec(acc.output)
        lines.append({"op": "acc", "m": rm, "shape": s, "use_bias": ub})
        meta.append((lw, lx, rm, s, ub, ro))
  outs = core.run_driver("C17", lines)
  brute, bmeta = [], []
  for (lw, lx, rm, s, ub, ro), o in zip(meta, outs):
    run.case(("acc", lw, lx, tuple(s), ub),
             sample={"acc": [lw, lx], "shape": s, "use_bias": ub, "out": ro} if len(run.samples) < 3 else None)
    run.compared += 1
    run.count("acc_mult_mode_%d" % rm["mode"])
    d = qtypes.rec_eq(ro, o["out"], ignore=("use_01", "name", "mode")) if not ro["is_floating_point"] else \
        {k: 1 for k in ("bits", "is_signed", "is_floating_point") if ro[k] != o["out"][k]}
    mirrored = not d
    if d:
      run.disagree("make_accumulator", {"w": lw, "x": lx, "shape": s, "use_bias": ub, "mult_out": rm}, ro, o["out"])
    n = int(np.prod(s[:-1])) + (1 if ub else 0)
    if small(rm) and not ro["is_floating_point"]:
      brute.append({"op": "brute_acc", "m": rm, "out": ro, "n": n})
      bmeta.append((lw, lx, rm, s, ub, ro, n, mirrored))
  outs = core.run_driver("C17", brute)
  nsums = 0
  for (lw, lx, rm, s, ub, ro, n, mirrored), o in zip(bmeta, outs):
    nsums += o["sums"]
    if o["bad"] is not None:
      b = o["bad"]
      key = acc_key(rm, n, b)
      run.violate("acc_sum", key, {"w": lw, "x": lx, "mult_out": rm, "shape": s, "use_bias": ub,
                                   "acc": ro, "n_terms": n, "sum": str(core.unrj(b["sum"])), "tag": b["tag"]},
                  mirrored=mirrored)
  run.extra["brute_acc_cases"] = len(brute)

  # ---- adders
  sel = []
  for m in range(6):
    sel += pick(m, 10 if tier == "quick" else 30)
  lines, meta = [], []
  for a in sel:
    for b in sel:
      la, qa, ra = recs[a]
      lb, qb, rb = recs[b]
      out = adder.make_quantizer(qa, qb).output
      lines.append({"op": "adder", "a": ra, "b": rb})
      meta.append((la, lb, ra, rb, qtypes.to_rec(out)))
  outs = core.run_driver("C17", lines)
  brute, bmeta = [], []
  for (la, lb, ra, rb, ro), o in zip(meta, outs):
    run.case(("adder", la, lb), sample={"adder": [la, lb], "out": ro} if len(run.samples) < 6 else None)
    run.compared += 1
    run.count("adder_cell_%d_%d" % (ra["mode"], rb["mode"]))
    if "err" in o:
      run.disagree("adder", {"a": la, "b": lb}, ro, o)
      continue
    if ro["is_floating_point"]:
      d = {k: 1 for k in ("bits", "is_floating_point") if ro[k] != o["out"][k]}
    else:
      d = qtypes.rec_eq(ro, o["out"], ignore=("use_01", "name"))
    if d:
      run.disagree("adder", {"a": la, "b": lb, "a_rec": ra, "b_rec": rb}, ro, o["out"])
    if small(ra) and small(rb) and not ro["is_floating_point"]:
      brute.append({"op": "brute_add", "qs": [ra, rb], "out": ro, "kind": "sum"})
      bmeta.append((la, lb, ra, rb, ro, not d))
  outs = core.run_driver("C17", brute)
  for (la, lb, ra, rb, ro, mirrored), o in zip(bmeta, outs):
    nsums += o["sums"]
    if o["bad"] is not None:
      b = o["bad"]
      key = adder_key(ra, rb, b)
      run.violate("adder_sum", key, {"a": la, "b": lb, "out": ro, "sum": str(core.unrj(b["sum"])),
                                     "tag": b["tag"]}, mirrored=mirrored)
  run.extra["brute_add_cases"] = len(brute)

  # ---- merge layers
  lines, meta = [], []
  kinds = ["Add", "Maximum", "Minimum", "Average", "Concatenate", "Multiply"]
  n_lists = 150 if tier == "quick" else 1200
  pool = [i for i in range(len(recs))]
  for _ in range(n_lists):
    k = int(rng.integers(2, 5))
    if rng.random() < 0.3:
      ids = [int(rng.choice(pool))] * k            # identical types: the shortcut branch
    elif rng.random() < 0.5:
      ids = [int(v) for v in rng.choice(idx_by_mode[0], size=k)]
    else:
      ids = [int(v) for v in rng.choice(pool, size=k)]
    kind = kinds[int(rng.integers(0, len(kinds)))]
    qs = [recs[i][1] for i in ids]
    try:
      out = mg.make_quantizer([(q, None) for q in qs], kind).output
    except Exception as e:  # pylint: disable=broad-except
      run.count("merge_impl_error")
      continue
    lines.append({"op": "merge", "kind": kind, "qs": [recs[i][2] for i in ids]})
    meta.append((kind, [recs[i][0] for i in ids], [recs[i][2] for i in ids], qtypes.to_rec(out)))
  outs = core.run_driver("C17", lines)
  brute, bmeta = [], []
  for (kind, labels, rs, ro), o in zip(meta, outs):
    run.case(("merge", kind, tuple(labels)))
    run.compared += 1
    run.count("merge_" + kind)
    if "err" in o:
      run.disagree("merge", {"kind": kind, "qs": labels}, ro, o)
      continue
    if ro["is_floating_point"]:
      d = {k: 1 for k in ("bits", "is_floating_point") if ro[k] != o["out"][k]}
    else:
      d = qtypes.rec_eq(ro, o["out"], ignore=("use_01",))
    if d:
      run.disagree("merge", {"kind": kind, "qs": labels, "recs": rs}, ro, o["out"])
    same = all(r == rs[0] for r in rs)
    if kind != "Multiply" and all(small(r) for r in rs) and len(rs) <= 3 and not ro["is_floating_point"]:
      brute.append({"op": "brute_add", "qs": rs, "out": ro, "kind": "sum" if kind == "Add" else "each"})
      bmeta.append((kind, labels, rs, ro, same, not d))
  outs = core.run_driver("C17", brute)
  for (kind, labels, rs, ro, same, mirrored), o in zip(bmeta, outs):
    nsums += o["sums"]
    if o["bad"] is not None:
      b = o["bad"]
      key = merge_key(kind, rs, b)
      run.violate("merge_sum" if kind == "Add" else "merge_holds_inputs", key,
                  {"kind": kind, "inputs": labels, "out": ro, "value": str(core.unrj(b["sum"])), "tag": b["tag"]},
                  mirrored=mirrored)
  run.extra["brute_merge_cases"] = len(brute)
  run.extra["brute_force_sums_judged"] = nsums + nsums_hist
  run.assumptions.append("np.ceil(np.log2(N)) is tied to the exact clog2 for N <= 2^20+1 only; the theorem is for all N")
