"""C09 — quantizer configuration round-trip (DESIGN.md §4 C09).

static tie   : constructor signatures (names, order, defaults) of all registered classes, the key
               list of get_config() (hence which constructor arguments it omits) and the registry
               contents, read from the live objects, vs the model's tables (exhaustive).
behavioural  : option lattice of every class -> real get_config() vs model getConfig, the three
               rebuild routes vs the model's verdict and rebuilt fields.
clause oracle: rebuilt quantizer must not raise and must give bit-identical outputs / scale
               (and gradients) on probe tensors; a failure is attributed to the constructor
               option(s) whose restoration alone repairs it.  Every route is run TWICE on the SAME
               configuration object (taken once from get_config() / serialize_keras_object): the
               second rebuild must equal the first, and no route may modify the configuration it
               is handed (a from_config that pops a key damages every later rebuild from the
               same dictionary).
strengthening: hidden per-instance state (vars(q) minus the constructor arguments: inventory vs the
               model, derived values `_min_exp` / `_max_exp` / `freeze_scale` vs the model, rebuilt vs
               original), `get_config()` of the rebuilt quantizer == the configuration it was rebuilt
               from, boundary cells of the po2 exponent-range derivation probed across the whole
               float32 exponent range; and three more streams judged by the same clause oracle:
               process-level state (build under one `set_internal_sigmoid` mode / image data format,
               switch, rebuild, compare under both), histories on one object (called, handed to a
               layer = `_set_trainable_parameter`, `update_qnoise_factor`, `use_variables` + call),
               argument forms (numpy scalars, 0-d arrays, tf.constant, int for float, ...).
fix round 2  : the form (literal / numpy scalar / ndarray / tensor / variable) of every value the real
               get_config() of a used / form-variant object emits vs the model's `configForms`
               (`exportForm`: a `qnoise_factor` variable leaves as a numpy scalar in EVERY class,
               `post_training_scale` as a list), and the clause `rebuilt_shares_variable`: no option
               of a rebuilt quantizer is the very tf.Variable object the original holds.  The former
               finding (quantized_linear handed its qnoise_factor variable out) has no special
               handling left: its return is a `config_forms` / `keras_outcome` disagreement plus
               `rebuild_raises` (Keras route) and `rebuilt_shares_variable` (dictionary routes).
round 2      : forms held by the quantizer rebuilt through a DICTIONARY route vs the model's `rebuiltForms`
               (`Form.array` = numpy array of >= 1 dimension: what `isinstance(alpha, np.ndarray)` reads);
               every numeric option as size-1 / per-channel array, list, tuple (forms stream); stream
               `signature`: parameters of the LIVE constructor signatures that the lattice does not know
               are swept with guessed typed values and judged model-free.
round 3      : every configuration on which `_set_trainable_parameter()` fires (alpha None), aimed at the
               options the step rewrites (read from the model), handed to REAL layers through seven public
               wrappers (+ the layer's own get_config / from_config as fourth route), called before and after;
               plain assignment to the declared-modifiable attributes of quantized_linear (model `StepX.assign`);
               call-time derived quantities (`get_clip_bounds()`, `data_type_scale`, ...) of the used and of
               every rebuilt quantized_linear vs the model's `linDerived`; clause `same_reporters` (max / min /
               range / get_clip_bounds / reporter properties of rebuilt vs used original, all classes).
"""
import inspect
import os

import numpy as np

from .. import core, qlattice as L

STOCHASTIC = {"bernoulli", "stochastic_binary", "stochastic_ternary"}

# list-valued scale_axis / elements_per_scale and combinations of the options that get_config
# used to omit (fix round): swept in addition to the shared lattice of qkv.qlattice
EXTRA = {
    "quantized_bits": [
        {"alpha": "auto", "scale_axis": [0, 1]},
        {"bits": 4, "alpha": "auto_po2", "scale_axis": [0, 1], "elements_per_scale": [2, 3]},
        {"bits": 4, "alpha": "auto_po2", "scale_axis": 1, "elements_per_scale": 3,
         "min_po2_exponent": -1, "max_po2_exponent": 0, "use_ste": False},
    ],
    "binary": [
        {"alpha": "auto_po2", "scale_axis": [0, 1], "elements_per_scale": [2, 3]},
        {"alpha": "auto_po2", "scale_axis": 1, "elements_per_scale": 3, "min_po2_exponent": -1,
         "max_po2_exponent": 0},
    ],
    "quantized_linear": [{"bits": 4, "alpha": "auto", "scale_axis": [0, 1]}],
    "quantized_hswish": [{"bits": 6, "integer": 2, "alpha": "auto", "scale_axis": [0, 1]},
                         {"bits": 6, "integer": 2, "alpha": "auto_po2", "scale_axis": 0,
                          "relu_shift": 2, "relu_upper_bound": 4}],
    "quantized_relu": [{"bits": 4, "integer": 1, "relu_upper_bound": 1.5, "is_quantized_clip": False,
                        "use_ste": False}],
    "bernoulli": [{"alpha": "auto", "temperature": 0.25, "use_real_sigmoid": False}],
}
# frozen (post-training) scales: scalar and per-channel, under both auto alphas
EXTRA["quantized_bits"] += [
    {"bits": 4, "alpha": "auto_po2", "post_training_scale": L.A2},
    {"bits": 4, "alpha": "auto", "post_training_scale":
     np.array([0.5, 1.0, 2.0, 0.25, 1.0, 4.0], dtype=np.float32)},
    {"bits": 4, "alpha": "auto_po2", "scale_axis": 1, "post_training_scale":
     np.array([0.5, 1.0, 2.0, 0.25, 1.0, 4.0], dtype=np.float32)},
]


def _cfg_canon(cfg):
  """value-level canonical form of a configuration dictionary (ndarray and list of the same
  numbers are identified: the model does not distinguish them either)"""
  try:
    return L.canon_env(L.enc_env(cfg))
  except Exception as e:  # pylint: disable=broad-except
    return ["<unencodable: %s>" % L.err_tag(e), sorted(map(str, cfg))]


def _kv(p):
  return (p[0], repr(p[1]))


def _cfg_diff(c0, c2):
  """keys under which two canonical configurations differ"""
  try:
    d0, d2 = {k: repr(v) for k, v in c0}, {k: repr(v) for k, v in c2}
    return sorted(k for k in set(d0) | set(d2) if d0.get(k) != d2.get(k)) or ["<order>"]
  except Exception:  # pylint: disable=broad-except
    return ["<unreadable>"]


def _build(cls, kw):
  kw = dict(kw)
  return cls(**kw)


def _kwargs_from_attrs(a):
  kw = {k: L.dec(v) for k, v in a.items()}
  if isinstance(kw.get("post_training_scale"), list):
    kw["post_training_scale"] = np.array(kw["post_training_scale"], dtype=np.float32)
  return kw


# ============================================================================ strengthening streams

def _stable_hidden(q, names):
  """hidden attributes that a call does not rewrite and that do not mirror a build-only option"""
  return [kv for kv in L.hidden(q, names) if kv[0] not in L.VOLATILE and kv[0] not in L.BUILD_ONLY_MIRRORS]


def _routes(Q, tf, cls, name, q):
  """the three rebuild routes as thunks; the configuration is taken once, now"""
  cfg = q.get_config()

  def keras():
    ser = tf.keras.utils.serialize_keras_object(q)
    return tf.keras.utils.deserialize_keras_object(ser, custom_objects={name: cls})
  return cfg, [("from_config", lambda: cls.from_config(cfg)),
               ("get_quantizer", lambda: Q.get_quantizer({"class_name": name, "config": cfg})),
               ("keras", keras)]


def _shared_variables(tf, q, q2, names):
  """options the rebuilt quantizer holds in the very tf.Variable object of the original (a
  get_config that hands its variable out: updating one quantizer then changes the other)"""
  return [k for k in names if isinstance(getattr(q2, k, None), tf.Variable)
          and getattr(q2, k, None) is getattr(q, k, None)]


def _raises(o):
  return any(isinstance(v, tuple) and v and v[0] == "raises" for v in o.values())


def _first_diff(x, ya, yb):
  """a concrete probe value on which two outputs differ"""
  try:
    a, b = np.frombuffer(ya, np.float32), np.frombuffer(yb, np.float32)
    if a.shape != b.shape:
      return {"shapes": [list(a.shape), list(b.shape)]}
    i = int(np.flatnonzero(~((a == b) | (np.isnan(a) & np.isnan(b))))[0])
    return {"x": float(np.asarray(x).reshape(-1)[i]), "original": float(a[i]), "rebuilt": float(b[i]),
            "n_differ": int(np.sum(a != b)), "of": int(a.size)}
  except Exception:  # pylint: disable=broad-except
    return {}


def _obs_first_diff(x, oa, ob):
  """what the first differing observation looks like (a raised exception, or a probe value)"""
  for k in oa:
    if oa[k] != ob.get(k):
      a, b = oa[k], ob.get(k)
      if isinstance(a, tuple) and a and a[0] == "raises" or isinstance(b, tuple) and b and b[0] == "raises":
        return {"observation": k, "original": a if isinstance(a, tuple) else "returns",
                "rebuilt": b if isinstance(b, tuple) else "returns"}
      if k[0] == "y" and isinstance(a, bytes) and isinstance(b, bytes):
        return dict(_first_diff(x, a, b), observation=k)
      return {"observation": k}
  return {}


def _keras_real_outcome(tf, q, names):
  """what the Keras pair does with the configuration of q, classified like the model's
  KerasOutcome: ok | serialize_raises | arrives_as_dict(keys)"""
  try:
    ser = tf.keras.utils.serialize_keras_object(q)
  except TypeError as e:
    return {"kind": "serialize_raises", "msg": str(e)[:120]}
  except Exception as e:  # pylint: disable=broad-except
    return {"kind": "serialize_raises:" + L.err_tag(e), "msg": str(e)[:120]}
  tags = {k: L.tagged_dict(v) for k, v in ser.get("config", {}).items() if L.tagged_dict(v)}
  if not tags:
    return {"kind": "ok"}
  return {"kind": "arrives_as_dict", "keys": list(tags), "tags": sorted(set(tags.values()))}


def _world_stream(run, tier, Q, tf, K, reg, model_cls, base_recs, base_outs):
  """process-level state: build under one setting, switch, rebuild, compare under both.
  Which instances read the sigmoid switch at call time is the model's `readsSigmoid`, tied here
  in both directions for the deterministic classes."""
  xsig = [L.sigmoid_probe()]
  lines, metas = [], []
  try:
    for rec, o in zip(base_recs, base_outs):
      name, kw = rec["class"], rec["kw"]
      if rec["kind"] not in ("default", "context", "single") or "attrs" not in rec or rec.get("call_raises"):
        continue
      reads = bool(o.get("reads_sigmoid"))
      if not reads and rec["kind"] != "default":
        continue
      cls = reg[name]
      names = [p[0] for p in model_cls[name]["params"]]
      phases = (1,) if name in L.STOCHASTIC_CLASSES else (0,)
      key = {"class": name, "kw": L.enc_env(kw)}
      run.case(("world", name, repr(L.enc_env(kw))), nontrivial=True)
      run.count("world_reads_sigmoid" if reads else "world_does_not_read_sigmoid")
      pairs = [(a, b) for a in L.SIGMOID_MODES for b in L.SIGMOID_MODES if a != b] if reads else [("hard", "smooth")]
      sens_done = False
      for m0 in dict.fromkeys(a for a, _ in pairs):
        Q.set_internal_sigmoid(m0)
        q = cls(**kw)
        h0 = L.hidden(q, names)
        L.observe(q, xsig, phases, grad=False)             # the original is used once under m0
        base = {}
        for m in L.SIGMOID_MODES:
          Q.set_internal_sigmoid(m)
          base[m] = L.observe(q, xsig, phases, grad=False)
        if not sens_done:
          sens_done = True
          varies = any(base[m] != base["hard"] for m in L.SIGMOID_MODES)
          run.compared += 1
          if varies and not reads:
            run.disagree("world.reads_sigmoid", key, "outputs depend on set_internal_sigmoid", "does not read it")
          elif reads and not varies:
            if name in L.STOCHASTIC_CLASSES:
              run.count("world_sigmoid_reader_not_sensitive_on_probe")
            else:
              run.disagree("world.reads_sigmoid", key, "outputs independent of set_internal_sigmoid", "reads it")
          # k-th use == fresh twin (the object has been called four times, under three modes)
          Q.set_internal_sigmoid(m0)
          twin = L.observe(cls(**kw), xsig, phases, grad=False)
          if twin != base[m0]:
            run.violate("same_output", {"class": name, "stream": "world", "vs": "fresh_twin"},
                        {"kw": L.enc_env(kw), "mode": m0,
                         "replay": "q=%s(**kw); q(x) under several set_internal_sigmoid modes; q(x) vs %s(**kw)(x)"
                                   % (name, name)}, mirrored=False)
        for m1 in [b for a, b in pairs if a == m0]:
          Q.set_internal_sigmoid(m1)
          cfg, routes = _routes(Q, tf, cls, name, q)
          for route, make in routes:
            run.compared += 1
            try:
              q2 = make()
            except Exception as e:  # pylint: disable=broad-except
              run.violate("rebuild_raises", {"class": name, "error": L.err_tag(e), "route": route, "stream": "world"},
                          {"kw": L.enc_env(kw), "built_under": m0, "rebuilt_under": m1, "msg": str(e)[:160]},
                          mirrored=False)
              continue
            h2 = L.hidden(q2, names)
            if [kv for kv in h2 if kv[0] not in L.VOLATILE] != [kv for kv in h0 if kv[0] not in L.VOLATILE]:
              run.violate("same_hidden_state", {"class": name, "stream": "world"},
                          {"kw": L.enc_env(kw), "built_under": m0, "rebuilt_under": m1, "route": route,
                           "original": h0, "rebuilt": h2}, mirrored=False)
            for m2 in (m1, m0):
              Q.set_internal_sigmoid(m2)
              o2 = L.observe(q2, xsig, phases, grad=False)
              if o2 != base[m2]:
                k0 = [k for k in base[m2] if base[m2][k] != o2.get(k)][0]
                run.count("world_differs_%s" % name)
                run.violate("same_output", {"class": name, "stream": "world", "state": "set_internal_sigmoid"},
                            {"kw": L.enc_env(kw), "built_under": m0, "rebuilt_under": m1, "called_under": m2,
                             "route": route, "first_difference": _first_diff(xsig[0], base[m2][k0], o2.get(k0)),
                             "replay": "set_internal_sigmoid(%r); q=%s(**kw); set_internal_sigmoid(%r); "
                                       "q2=<%s>(q); set_internal_sigmoid(%r); q2(x) vs q(x)"
                                       % (m0, name, m1, route, m2)}, mirrored=False)
            Q.set_internal_sigmoid(m1)
      Q.set_internal_sigmoid("hard")
      lines.append({"op": "history", "cls": name, "kw": L.enc_env(kw),
                    "steps": [{"op": "call"}, {"op": "world", "sigmoid": "smooth"}]})
      metas.append((key, rec))
    # image data format: read at call time by the auto-scaled quantizers when scale_axis is None
    x4 = [np.transpose(L.probes(np.random.default_rng(run.seed))[2], (0, 3, 1, 2)).copy()]
    n_fmt = {}
    for rec in base_recs:
      name, kw = rec["class"], rec["kw"]
      if (rec["kind"] not in ("context", "single") or not isinstance(kw.get("alpha"), str) or "scale_axis" in kw
          or len(kw) > 2 or rec.get("call_raises") or "attrs" not in rec):
        continue
      n_fmt[name] = n_fmt.get(name, 0) + 1
      if tier == "quick" and n_fmt[name] > 2:
        continue
      cls = reg[name]
      run.case(("world.format", name, repr(L.enc_env(kw))), nontrivial=True)
      run.count("world_data_format")
      for f0, f1 in (("channels_last", "channels_first"), ("channels_first", "channels_last")):
        K.set_image_data_format(f0)
        q = cls(**kw)
        ofa = L.observe(q, x4, (0,), grad=False)
        K.set_image_data_format(f1)
        if L.observe(q, x4, (0,), grad=False) != ofa:
          run.count("world_data_format_changes_output")
        cfg, routes = _routes(Q, tf, cls, name, q)
        for route, make in routes:
          run.compared += 1
          try:
            q2 = make()
          except Exception as e:  # pylint: disable=broad-except
            run.violate("rebuild_raises", {"class": name, "error": L.err_tag(e), "route": route,
                                           "stream": "world"}, {"kw": L.enc_env(kw), "msg": str(e)[:160]},
                        mirrored=False)
            continue
          for f2 in (f1, f0):
            K.set_image_data_format(f2)
            oa, ob = L.observe(q, x4, (0,), grad=False), L.observe(q2, x4, (0,), grad=False)
            if oa != ob and not _raises(oa):
              run.violate("same_output", {"class": name, "stream": "world", "state": "image_data_format"},
                          {"kw": L.enc_env(kw), "built_under": f0, "rebuilt_under": f1, "called_under": f2,
                           "route": route, "differs": sorted(L.obs_diff(oa, ob))}, mirrored=False)
          K.set_image_data_format(f1)
  finally:
    Q.set_internal_sigmoid("hard")
    K.set_image_data_format("channels_last")
  # the model: nothing is captured, so a switch of the world changes neither fields nor config
  for (key, rec), o in zip(metas, core.run_driver("C09", lines)):
    run.compared += 1
    if "err" in o.get("construct", {}) or L.canon_env(o["config"]) != rec["config"] or o["sigmoid"] != "smooth":
      run.disagree("world.history", key, rec["config"], o.get("config"))


HISTORIES = [
    ("call2", [("call", 2), ("call", 0)], {}),
    ("stp", [("set_trainable",)], {}),
    ("call_stp_call", [("call", 0), ("set_trainable",), ("call", 2)], {}),
    ("uqf", [("update_qnoise", 0.25)], {}),
    ("variables_call_uqf", [("call", 0), ("update_qnoise", 0.5)], {"use_variables": True}),
    ("uqf_tensor", [("update_qnoise", "tensor:0.25")], {}),
    # round 3: the quantizer is handed to a LAYER through the public constructor (which calls
    # `_set_trainable_parameter()` on the very object); re-configured through the attributes the
    # class declares modifiable (model: `assignable` / `StepX.assign`)
    ("adopt", [("adopt",)], {}),
    ("call_adopt_call", [("call", 0), ("adopt",), ("call", 2)], {}),
    ("assign_sym", [("assign", "symmetric", "flip")], {}),
    ("stp_assign_sym", [("set_trainable",), ("assign", "symmetric", "flip")], {}),
    ("assign_qnoise_stp", [("assign", "qnoise_factor", 0.25), ("set_trainable",)], {}),
]
# histories run on the configurations on which `_set_trainable_parameter()` fires (L.trainable_cells)
SENSITIVE = ("stp", "adopt", "call_adopt_call", "stp_assign_sym")


def _obs_first_diff_xs(xs, oa, ob):
  """first differing observation, with the probe value it belongs to"""
  for k in oa:
    if oa[k] != ob.get(k):
      try:
        x = xs[int(k.split("_")[1])]
      except Exception:  # pylint: disable=broad-except
        x = xs[0]
      return _obs_first_diff(x, {k: oa[k]}, {k: ob.get(k)})
  return {}


def _history_stream(run, tier, Q, tf, K, reg, model_cls, rng, xs):
  """histories on ONE object before get_config(): called (different ranks), handed to a layer
  (`_set_trainable_parameter`), re-configured through `update_qnoise_factor`, variables built"""
  lines, metas = [], []
  # which options `_set_trainable_parameter()` rewrites besides alpha, per class (model)
  rw_out = core.run_driver("C09", [{"op": "history", "cls": n, "kw": [], "steps": [{"op": "set_trainable"}]}
                                   for n in reg])
  rewritten = {}
  for n, o in zip(reg, rw_out):
    if "err" not in o.get("construct", {}):
      b, a = dict(map(tuple, map(_kv, o["construct"]["ok"]))), dict(map(tuple, map(_kv, o["after"]["ok"])))
      rewritten[n] = [k for k in b if b[k] != a.get(k) and k != "alpha"]
  run.extra["options_rewritten_by_set_trainable"] = rewritten
  for name, cls in reg.items():
    names = [p[0] for p in model_cls[name]["params"]]
    lat = L.LATTICE[name]
    cands = [{}] + [dict(c) for c in lat["contexts"] if c]
    singles = [kw for kind, kw in L.configs(name, "quick", np.random.default_rng(0)) if kind == "single"]
    n_s = 3 if tier == "quick" else 10
    idx = sorted(rng.choice(len(singles), size=min(n_s, len(singles)), replace=False).tolist())
    cands += [singles[i] for i in idx]
    if name in L.PO2_CLASSES:
      cands += [{"bits": 1, "max_value": 2}, {"bits": 2, "max_value": 2, "quadratic_approximation": True}]
    stochastic = name in STOCHASTIC
    assignable = model_cls[name].get("assignable", [])
    # round 3: every configuration on which `_set_trainable_parameter()` fires, aimed at the
    # options the step rewrites (read from the model: fields of the default instance it changes)
    n_base = len(cands)
    if L.stp_overridden(cls):
      have = {L._key(c) for c in cands}  # pylint: disable=protected-access
      for ci, (kind, kwc) in enumerate(L.trainable_cells(name, rewritten.get(name, []))):
        if tier == "quick" and kind == "A" and not rewritten.get(name) and ci % 2:
          continue     # the step rewrites alpha only: every second single-option cell in quick
        if L._key(kwc) not in have:  # pylint: disable=protected-access
          have.add(L._key(kwc))  # pylint: disable=protected-access
          cands.append(dict(kwc, __cell=kind))
    for j, kw0 in enumerate(cands):
      kw0 = dict(kw0)
      cell = kw0.pop("__cell", None)
      for hi, (hname, steps, extra) in enumerate(HISTORIES):
        if cell is not None:
          # kind B (the step rewrites an option of the cell): every sensitive history;
          # kind A: handed to a layer (the wrapper rotates), every third one also the bare step
          # kind A: handed to a layer; kind B: the bare step, called / handed to a layer / called
          # again (a value cached at the FIRST CALL is stale as well), step then re-assignment
          if hname not in SENSITIVE or (cell == "A" and tier == "quick" and hname != "adopt") or (
              cell == "B" and hname == "adopt"):
            continue
        elif tier == "quick" and j > 0 and hname in ("adopt", "call_adopt_call", "assign_qnoise_stp"):
          continue     # (the single-option cells below are all handed to a layer)
        elif tier == "quick" and j > 0 and (hi + j) % 2:
          continue     # quick: the default instance gets every history, the others every second one
        if any(k not in names for k in extra):
          continue
        if any(st[0] == "assign" and st[1] not in assignable for st in steps):
          continue
        if any(st[0] == "update_qnoise" for st in steps) and "qnoise_factor" not in names:
          continue
        kw = dict(kw0)
        kw.update(extra)
        phases = (0, 1) if stochastic or kw.get("use_stochastic_rounding") else (0,)
        try:
          q = cls(**kw)
        except Exception:  # pylint: disable=broad-except
          continue
        msteps, ok = [], True
        layer = None
        for st in steps:
          try:
            if st[0] == "adopt":
              wname, layer_obj, held = L.adopt(j + hi, q)
              if held(layer_obj) is not q:
                run.count("adopt_layer_holds_a_copy")
                ok = False
                break
              layer = (wname, layer_obj, held)
              msteps.append({"op": "set_trainable"})
            elif st[0] == "assign":
              v = st[2]
              if v == "flip":
                v = 0 if getattr(q, st[1]) else 1
              setattr(q, st[1], v)
              msteps.append({"op": "assign", "k": st[1], "v": L.enc(v)})
            elif st[0] == "call":
              y = q(tf.constant(xs[st[1]]))
              if hasattr(y, "numpy"):
                y.numpy()
              msteps.append({"op": "call"})
            elif st[0] == "set_trainable":
              q._set_trainable_parameter()  # pylint: disable=protected-access
              msteps.append({"op": "set_trainable"})
            else:
              v = st[1]
              if isinstance(v, str):
                v = tf.constant(float(v.split(":")[1]))
              q.update_qnoise_factor(v)
              msteps.append({"op": "update_qnoise", "v": L.enc(v)})
          except Exception:  # pylint: disable=broad-except
            ok = False       # the option combination itself is rejected at call time
            break
        if not ok:
          run.count("history_step_raises")
          continue
        key = {"class": name, "kw": L.enc_env(kw), "history": hname}
        if layer is not None:
          key["layer"] = layer[0]
        run.case(("history", name, hname, repr(L.enc_env(kw))), nontrivial=True)
        run.count("history_" + hname)
        if cell is not None:
          run.count("history_trainable_cell_" + cell)
        rec = {"key": key, "name": name, "hname": hname, "kw": kw}
        rec["attrs"] = L.attrs(q, names)
        rec["hidden"] = _stable_hidden(q, names)
        rec["forms"] = [[k, L.form_of2(getattr(q, k, None))] for k in names]
        try:
          cfg_real = q.get_config()
          rec["config"] = _cfg_canon(cfg_real)
          rec["config_forms"] = [[k, L.form_of2(v)] for k, v in cfg_real.items()]
        except Exception as e:  # pylint: disable=broad-except
          run.violate("get_config_raises", {"class": name, "error": L.err_tag(e), "history": hname}, key, mirrored=False)
          continue
        rec["keras_real"] = _keras_real_outcome(tf, q, names)
        grad = j == 0 or tier != "quick"
        hx = xs[:2] if grad else xs[:1]
        o1 = L.observe(q, hx, phases, grad=grad)
        if _raises(o1):
          run.count("history_original_call_raises")
          continue
        rec["reporters"] = L.reporters(q)
        rec["derived"] = L.lin_derived(q)
        if hname == "call2":
          # the k-th use of an object equals the first use of a fresh twin
          run.compared += 1
          ot = L.observe(cls(**kw), hx, phases, grad=grad)
          if ot != o1:
            run.violate("same_output", {"class": name, "history": hname, "vs": "fresh_twin"},
                        {"kw": L.enc_env(kw), "differs": sorted(L.obs_diff(o1, ot)),
                         "replay": "q=%s(**kw); q(x4); q(x2); q(x) vs %s(**kw)(x)" % (name, name)}, mirrored=False)
        cfg, routes = _routes(Q, tf, cls, name, q)
        if layer is not None:
          # fourth route: the layer's own configuration round trip rebuilds the held quantizer
          routes = routes + [("layer", lambda lo=layer: lo[2](type(lo[1]).from_config(lo[1].get_config())))]
          if cell == "A" and tier == "quick":
            routes = [rt for rt in routes if rt[0] in ("from_config", "layer")]
        rec["routes"] = {}
        for route, make in routes:
          try:
            q2 = make()
            r = {"ok": L.attrs(q2, names),
                 "hidden": _stable_hidden(q2, names)}
            try:
              r["config"] = _cfg_canon(q2.get_config())
            except Exception as e:  # pylint: disable=broad-except
              r["config"] = ["<raises %s>" % L.err_tag(e)]
            if route == "keras":
              r["dict_attrs"] = [k for k in names if L.tagged_dict(getattr(q2, k, None))]
            r["shared"] = _shared_variables(tf, q, q2, names)
            r["forms"] = [[k, L.form_of2(getattr(q2, k, None))] for k in names]
            o2 = L.observe(q2, hx, phases, grad=grad)
            r["kinds"] = sorted(L.obs_diff(o1, o2))
            if r["kinds"]:
              r["first_difference"] = _obs_first_diff_xs(hx, o1, o2)
            r["reporters"] = L.reporters(q2)
            r["derived"] = L.lin_derived(q2)
          except Exception as e:  # pylint: disable=broad-except
            r = {"err": L.err_tag(e), "msg": str(e)[:160]}
          rec["routes"][route] = r
        lines.append({"op": "history", "cls": name, "kw": L.enc_env(kw), "steps": msteps})
        lines.append({"op": "keras_forms", "cls": name, "stored": rec["forms"],
                      "nones": [k for k in names if getattr(q, k, 0) is None]})
        metas.append(rec)
  outs = core.run_driver("C09", lines)
  for n, rec in enumerate(metas):
    o, ok_model = outs[2 * n], outs[2 * n + 1]
    _judge_history(run, rec, o, ok_model, "history")


def _judge_history(run, rec, o, keras_model, stream):
  """one used / form-variant object: model vs implementation, then the clauses"""
  name, key = rec["name"], rec["key"]
  tag = {k: v for k, v in key.items() if k not in ("class", "kw")}
  mirrored = True
  run.compared += 1
  # o is None: the VALUE of the option is outside the model (array-valued bits / integer / ...):
  # only the form-level model (configForms / kerasOutcome / rebuiltForms) is tied, the clauses
  # are judged model-free
  if o is not None:
    if "err" in o.get("construct", {}):
      run.disagree(stream + ".construct", key, "ok", o["construct"]["err"])
      return
    after = o["after"]
    if L.canon_env(list(rec["attrs"].items())) != L.canon_env(after["ok"]):
      run.disagree(stream + ".fields", key, L.canon_env(list(rec["attrs"].items())), L.canon_env(after["ok"]))
      mirrored = False
    mh = after["hidden"]
    if L.canon_env([kv for kv in rec["hidden"] if kv[0] in [m[0] for m in mh]]) != L.canon_env(mh):
      run.disagree(stream + ".hidden", key, rec["hidden"], mh)
      mirrored = False
    if rec["config"] != L.canon_env(o["config"]):
      run.disagree(stream + ".get_config", key, rec["config"], L.canon_env(o["config"]))
      mirrored = False
  # the form every emitted configuration value is held in (model: `configForms` / `exportForm`):
  # a get_config that hands out a tf.Variable (or converts a value the model says it passes on)
  run.compared += 1
  mf = [list(p) for p in keras_model.get("config_forms", [])]
  if sorted(map(tuple, rec["config_forms"])) != sorted(map(tuple, mf)):
    d0, d1 = dict(map(tuple, rec["config_forms"])), dict(map(tuple, mf))
    run.disagree(stream + ".config_forms", key,
                 {k: d0.get(k) for k in sorted(set(d0) | set(d1)) if d0.get(k) != d1.get(k)},
                 {k: d1.get(k) for k in sorted(set(d0) | set(d1)) if d0.get(k) != d1.get(k)})
    mirrored = False
  # call-time derived quantities of the USED object (quantized_linear: clip range, data-type scale,
  # sign / auto-alpha switches) vs the model's linDerived on the instance after the history
  if o is not None and rec.get("derived") is not None and o.get("derived") is not None:
    run.compared += 1
    if rec["derived"] != o["derived"]:
      run.disagree(stream + ".derived", key, rec["derived"], o["derived"])
      mirrored = False
  kr = rec["keras_real"]
  run.compared += 1
  if kr["kind"] != keras_model["kind"] or sorted(kr.get("keys", [])) != sorted(keras_model.get("keys", [])):
    run.disagree(stream + ".keras_outcome", key, kr, keras_model)
    mirrored = False
  run.count("%s_keras_%s" % (stream, kr["kind"]))
  for route, mkey in (("from_config", "from_config"), ("get_quantizer", "get_quantizer"), ("keras", "from_config"),
                      ("layer", "from_config")):
    if route not in rec["routes"]:
      continue
    r, m = rec["routes"][route], (o[mkey] if o is not None else None)
    run.compared += 1
    cause = None
    if route == "keras" and kr["kind"] != "ok":
      cause = ("config_holds_variable" if kr["kind"] == "serialize_raises" else
               "tensor_arrives_as_dict" if "__tensor__" in kr.get("tags", []) else "ndarray_arrives_as_dict")
    # forms held by the quantizer rebuilt through a dictionary route vs the model's rebuiltForms
    if route != "keras" and "forms" in r:
      run.compared += 1
      mrf = dict(map(tuple, keras_model.get("rebuilt_forms", [])))
      rrf = {k: f for k, f in r["forms"] if k in mrf}
      if rrf != mrf:
        bad = sorted(k for k in mrf if rrf.get(k) != mrf[k])
        run.disagree("%s.route.%s.rebuilt_forms" % (stream, route), key,
                     {k: rrf.get(k) for k in bad}, {k: mrf[k] for k in bad})
        mirrored = False
    if "err" in r:
      if m is None:
        pass
      elif cause is None and ("err" not in m or m["err"] != r["err"]):
        run.disagree("%s.route.%s" % (stream, route), key, r["err"], m.get("err", "ok"))
        mirrored = False
      # one defect = one key: the history / form / route that exposed it goes into the detail,
      # except for the two modelled Keras-pair causes (whose known-finding entries name the route)
      k = {"class": name, "error": r["err"], "stream": stream}
      if cause:
        k["route"] = route
        k["cause"] = cause
        k["field"] = "+".join(kr.get("keys", [])) or "+".join(f[0] for f in rec["forms"] if f[1] == "variable")
      run.violate("rebuild_raises", k, {"kw": key["kw"], "msg": r.get("msg"), "keras": kr, "route": route, **tag,
                                        "replay": "q=%s(**kw); <%s>; <rebuild by %s>" % (name, tag, route)},
                  mirrored=mirrored)
      continue
    if m is None:
      pass
    elif cause is None:
      if "err" in m:
        run.disagree("%s.route.%s" % (stream, route), key, "ok", m["err"])
        mirrored = False
      else:
        if L.canon_env(list(r["ok"].items())) != L.canon_env(m["ok"]):
          run.disagree("%s.route.%s.fields" % (stream, route), key, L.canon_env(list(r["ok"].items())),
                       L.canon_env(m["ok"]))
          mirrored = False
        mh2 = m["hidden"]
        if L.canon_env([kv for kv in r["hidden"] if kv[0] in [x[0] for x in mh2]]) != L.canon_env(mh2):
          run.disagree("%s.route.%s.hidden" % (stream, route), key, r["hidden"], mh2)
          mirrored = False
    elif cause == "tensor_arrives_as_dict" and sorted(r.get("dict_attrs", [])) != sorted(kr.get("keys", [])):
      # the tensor was decoded after all (or lost): not the behaviour the model describes
      mirrored = False
    k = {"class": name, "stream": stream}
    if r.get("shared"):
      # not mirrored by construction: the model's configuration never holds a variable
      run.violate("rebuilt_shares_variable", dict(k, field="+".join(r["shared"])),
                  {"kw": key["kw"], "route": route, **tag,
                   "replay": "q=%s(**kw); <%s>; q2=<rebuild by %s>; q2.%s is q.%s" % (
                       name, tag, route, r["shared"][0], r["shared"][0])}, mirrored=False)
    if cause:
      k["route"] = route
      k["cause"] = cause
      k["field"] = "+".join(kr.get("keys", []))
    if r["hidden"] != rec["hidden"] and not cause:
      d0, d2 = dict(map(_kv, rec["hidden"])), dict(map(_kv, r["hidden"]))
      bad = sorted(a for a in set(d0) | set(d2) if d0.get(a) != d2.get(a))
      run.violate("same_hidden_state", dict(k, attr="+".join(bad)),
                  {"kw": key["kw"], "route": route, **tag, "original": rec["hidden"], "rebuilt": r["hidden"]},
                  mirrored=mirrored)
    if (o is not None and r.get("derived") is not None and o.get("derived_rebuilt") is not None and not cause
        and r["derived"] != o["derived_rebuilt"]):
      run.disagree("%s.route.%s.derived" % (stream, route), key, r["derived"], o["derived_rebuilt"])
      mirrored = False
    if "reporters" in r and "reporters" in rec and r["reporters"] != rec["reporters"] and not cause:
      # the public reporters (max / min / range / get_clip_bounds / data_type_scale ...) of the rebuilt
      # quantizer answer what those of the used original answer (both after the same last call)
      bad = sorted(a for a in set(r["reporters"]) | set(rec["reporters"])
                   if r["reporters"].get(a) != rec["reporters"].get(a))
      run.count("%s_reporters_differ_%s" % (stream, name))
      run.violate("same_reporters", dict(k, reporter="+".join(bad)),
                  {"kw": key["kw"], "route": route, **tag,
                   "original": {a: rec["reporters"].get(a) for a in bad},
                   "rebuilt": {a: r["reporters"].get(a) for a in bad},
                   "replay": "q=%s(**kw); <%s>; q2=<rebuild by %s>; q2.%s vs q.%s" % (name, tag, route, bad[0], bad[0])},
                  mirrored=mirrored)
    if r["config"] != rec["config"] and not cause:
      run.violate("config_fixed_point", dict(k, field="+".join(_cfg_diff(rec["config"], r["config"]))),
                  {"kw": key["kw"], "route": route, **tag, "config": rec["config"], "config_of_rebuilt": r["config"]},
                  mirrored=mirrored)
    if r["kinds"]:
      clause = "same_output" if set(r["kinds"]) & {"output", "scale"} else "same_gradient"
      run.count("%s_differs_%s" % (stream, name))
      diff = [n for n in r["ok"] if r["ok"][n] != rec["attrs"].get(n)] if not cause else []
      f0 = dict(map(tuple, rec["forms"]))
      fdiff = ["%s(%s->%s)" % (n, f0.get(n), f2) for n, f2 in r.get("forms", []) if f0.get(n) != f2] if not cause else []
      run.violate(clause, dict(k, field=k.get("field") or "+".join(diff + fdiff) or "<no field differs>"),
                  {"kw": key["kw"], "differs": r["kinds"], "keras": kr, "route": route, **tag,
                   "forms_changed": fdiff, "first_difference": r.get("first_difference"),
                   "replay": "q=%s(**kw); <%s>; q2=<rebuild by %s>; q2(x) vs q(x)" % (name, tag, route)},
                  mirrored=mirrored)


def _forms_stream(run, tier, Q, tf, K, reg, model_cls, xs):
  """the same option value held as numpy scalar / 0-d array / tf.constant / int-for-float ...:
  the configuration must still rebuild the same function"""
  lines, metas = [], []
  for name, cls in reg.items():
    names = [p[0] for p in model_cls[name]["params"]]
    lat = L.LATTICE[name]
    stochastic = name in STOCHASTIC
    cands = []
    for oi, (opt, vals) in enumerate(lat["options"].items()):
      vs = [v for v in vals if isinstance(v, (bool, int, float))]
      if not vs:
        continue
      v = vs[0]
      ctxs = [c for c in lat["contexts"] if opt not in c]
      # the context that makes the option matter is the LAST one that admits it (see LATTICE)
      ctx = ctxs[-1] if ctxs else {}
      for fname, fv in L.forms(v, alt=(oi % 2) if tier == "quick" else None):
        cands.append((opt, v, ctx, fname, fv))
    # array-valued forms (strengthening round 2): per-channel alpha of EVERY class that has the
    # option (full model tie: the model's alpha may be a list), every other numeric option as
    # size-1 / per-channel array, list, tuple (value outside the model: form-level tie only)
    free = set()
    aopts = dict(lat["options"])
    if "alpha" in names:
      aopts["alpha"] = [2.0]
    for oi, (opt, vals) in enumerate(aopts.items()):
      vs = [v for v in vals if isinstance(v, (int, float)) and not isinstance(v, bool)]
      if not vs:
        continue
      ctxs = [c for c in lat["contexts"] if opt not in c]
      ctx = ctxs[-1] if ctxs and opt != "alpha" else {}
      afs = L.array_forms(vs[0])
      if tier == "quick" and opt != "alpha":
        afs = [afs[0], afs[1 + oi % 2], afs[3 + oi % 2]]
      for fname, fv in afs:
        cands.append((opt, vs[0], ctx, fname, fv))
        if opt != "alpha":
          free.add((opt, fname))
    if name == "quantized_bits":
      # the one option get_config converts whatever it is held in (np.asarray(...).tolist())
      ctx = {"bits": 4, "alpha": "auto_po2"}
      cands += [("post_training_scale", np.array([0.5]), ctx, "tf.constant[1]", tf.constant([0.5])),
                ("post_training_scale", np.array([0.5]), ctx, "tf.Variable[1]", tf.Variable([0.5])),
                ("post_training_scale", np.array([0.5]), ctx, "ndarray[1]", np.array([0.5], np.float32))]
    for opt, v, ctx, fname, fv in cands:
      kw = dict(ctx)
      kw[opt] = fv
      key = {"class": name, "kw": L.enc_env(kw), "form": fname, "option": opt}
      phases = (0, 1) if stochastic or kw.get("use_stochastic_rounding") else (0,)
      try:
        q = cls(**kw)
      except Exception:  # pylint: disable=broad-except
        run.count("form_construct_raises")
        continue
      o1 = L.observe(q, xs[:1], phases, grad=False)
      if _raises(o1):
        run.count("form_original_call_raises")     # the form is not accepted by __call__ itself
        continue
      run.case(("form", name, opt, fname), nontrivial=True)
      run.count("form_" + fname)
      kwl = dict(ctx)
      kwl[opt] = v
      if L.observe(cls(**kwl), xs[:1], phases, grad=False) != o1:
        run.count("form_differs_from_literal")     # not a round-trip clause: counted only
      rec = {"key": key, "name": name, "kw": kw, "free": (opt, fname) in free}
      if rec["free"]:
        run.count("form_value_outside_model")
      rec["attrs"] = L.attrs(q, names)
      rec["hidden"] = _stable_hidden(q, names)
      rec["forms"] = [[k, L.form_of2(getattr(q, k, None))] for k in names]
      try:
        cfg_real = q.get_config()
        rec["config"] = _cfg_canon(cfg_real)
        rec["config_forms"] = [[k, L.form_of2(v)] for k, v in cfg_real.items()]
      except Exception as e:  # pylint: disable=broad-except
        run.violate("get_config_raises", {"class": name, "error": L.err_tag(e), "form": fname}, key, mirrored=False)
        continue
      rec["keras_real"] = _keras_real_outcome(tf, q, names)
      cfg, routes = _routes(Q, tf, cls, name, q)
      rec["routes"] = {}
      for route, make in routes:
        try:
          q2 = make()
          r = {"ok": L.attrs(q2, names),
               "hidden": _stable_hidden(q2, names)}
          try:
            r["config"] = _cfg_canon(q2.get_config())
          except Exception as e:  # pylint: disable=broad-except
            r["config"] = ["<raises %s>" % L.err_tag(e)]
          if route == "keras":
            r["dict_attrs"] = [k for k in names if L.tagged_dict(getattr(q2, k, None))]
          r["shared"] = _shared_variables(tf, q, q2, names)
          r["forms"] = [[k, L.form_of2(getattr(q2, k, None))] for k in names]
          o2 = L.observe(q2, xs[:1], phases, grad=False)
          r["kinds"] = sorted(L.obs_diff(o1, o2))
          if r["kinds"]:
            r["first_difference"] = _obs_first_diff(xs[0], o1, o2)
        except Exception as e:  # pylint: disable=broad-except
          r = {"err": L.err_tag(e), "msg": str(e)[:160]}
        rec["routes"][route] = r
      lines.append({"op": "history", "cls": name, "kw": L.enc_env(kw), "steps": []})
      lines.append({"op": "keras_forms", "cls": name, "stored": rec["forms"],
                    "nones": [k for k in names if getattr(q, k, 0) is None]})
      metas.append(rec)
  outs = core.run_driver("C09", lines)
  for n, rec in enumerate(metas):
    _judge_history(run, rec, None if rec.get("free") else outs[2 * n], outs[2 * n + 1], "forms")


def _signature_stream(run, tier, Q, tf, reg, model_cls, xs):
  """the option lattice derived from the LIVE constructor signature: every parameter of every
  registered class must either have lattice values (qkv.qlattice.LATTICE) or be one of the two
  build-only options; any other parameter - one the model does not know, typically a newly added
  option - is swept with typed values guessed from its default / annotation / name, under every
  context of the class and every context extended by one lattice option, and judged by the
  model-free clauses: the rebuild must not raise, the rebuilt quantizer must hold the same
  attributes (all of vars(q) a call does not rewrite) and give the same outputs / scale /
  gradients on the probes.  Reports the concrete (class, option, value, context, route)."""
  n_unknown = 0
  for name, cls in reg.items():
    lat = L.LATTICE.get(name, {"options": {}, "contexts": [{}]})
    live = L.live_params(cls)
    known_model = [p[0] for p in model_cls.get(name, {}).get("params", [])]
    stochastic = name in STOCHASTIC
    for pname, default, ann in live:
      run.case(("signature", name, pname), nontrivial=pname not in L.BUILD_ONLY)
      if pname in lat["options"] or pname in L.BUILD_ONLY:
        run.count("signature_param_in_lattice" if pname in lat["options"] else "signature_param_build_only")
        continue
      n_unknown += 1
      run.count("signature_param_swept_model_free")
      if pname in known_model:
        run.disagree("static.lattice_covers_model", {"class": name, "param": pname}, "no lattice values", "modelled option")
      values = L.guess_values(pname, default, ann)
      if tier != "quick":
        values = values + [fv for v in values[:2] for _, fv in L.array_forms(v)[:2]]
      n_out = n_attr = n_cases = 0
      for ctx in L.sweep_contexts(name):
        if n_out >= 3:
          break               # three concrete behavioural witnesses per (class, option) are enough
        for v in values:
          kw = dict(ctx)
          kw[pname] = v
          try:
            q = cls(**kw)
          except Exception:  # pylint: disable=broad-except
            run.count("signature_construct_raises")
            continue
          phases = (0, 1) if stochastic or kw.get("use_stochastic_rounding") else (0,)
          o1 = L.observe(q, xs, phases, grad=True)
          if _raises(o1):
            run.count("signature_original_call_raises")
            continue
          n_cases += 1
          p1 = L.public_state(q)
          key = {"class": name, "option": pname, "stream": "signature"}
          detail = {"kw": L.enc_env(kw), "value": repr(v), "context": L.enc_env(ctx)}
          plain = not isinstance(v, (np.ndarray, list, tuple))
          cfg, routes = _routes(Q, tf, cls, name, q)
          for route, make in routes:
            if route == "keras" and not plain:
              continue
            run.compared += 1
            rep = "q=%s(**kw); q2=<rebuild by %s>" % (name, route)
            try:
              q2 = make()
            except Exception as e:  # pylint: disable=broad-except
              run.violate("rebuild_raises", dict(key, error=L.err_tag(e)),
                          dict(detail, route=route, msg=str(e)[:160], replay=rep), mirrored=False)
              continue
            p2 = L.public_state(q2)
            bad = sorted(a for a in set(p1) | set(p2) if p1.get(a) != p2.get(a) and a not in L.BUILD_ONLY_MIRRORS)
            if bad and n_attr < 6:
              n_attr += 1
              run.violate("same_public_attributes", dict(key, attr="+".join(bad)),
                          dict(detail, route=route, original={a: p1.get(a) for a in bad},
                               rebuilt={a: p2.get(a) for a in bad}, replay=rep + "; vars(q2) vs vars(q)"),
                          mirrored=False)
            o2 = L.observe(q2, xs, phases, grad=True)
            kinds = L.obs_diff(o1, o2)
            if kinds:
              n_out += 1
              clause = "same_output" if kinds & {"output", "scale"} else "same_gradient"
              fd = {}
              for i, x in enumerate(xs):
                for ph in phases:
                  yk = "y%d_%d" % (ph, i)
                  if not fd and o1.get(yk) != o2.get(yk):
                    fd = _obs_first_diff(x, {yk: o1.get(yk)}, {yk: o2.get(yk)})
              run.violate(clause, key, dict(detail, route=route, differs=sorted(kinds), first_difference=fd,
                                            config=_cfg_canon(cfg), replay=rep + "; q2(x) vs q(x)"),
                          mirrored=False)
      run.count("signature_cases_%s.%s=%d" % (name, pname, n_cases))
  run.extra["signature_parameters_outside_lattice"] = n_unknown


def run(run: core.Run, tier: str):
  core.assert_repo_import()
  import time as _time
  t_start = _time.time()
  import tensorflow as tf
  from qkeras import quantizers as Q
  from qkeras import quantizer_registry as R
  rng = np.random.default_rng(run.seed)
  run.extra["rule"] = (
      "per class: default, every option value under every context of qkv.qlattice.LATTICE, plus "
      "option pairs (30 of 36 seeded pairs in quick since round 3, all pairs + 60 triples in thorough), plus the fixed "
      "list-valued / formerly-omitted option combinations of EXTRA; non-trivial = "
      "distinct (class, keyword set); probes = fixed 4x6 tensor with distinct rows/columns and "
      "out-of-range values, a seeded 4x6 and a seeded rank-4 tensor; both learning phases for "
      "stochastic configurations, tf.random seed reset before every call; strengthening: po2 boundary "
      "cells (bits 1,2 x max_value None,.5,1,2,4,3 x quadratic x slope) probed with +-2^k over the whole "
      "float32 exponent range; world stream = every default/context/single configuration the model says "
      "reads the sigmoid switch x 6 ordered mode pairs x 3 routes x called under both modes (others: "
      "default configuration, one pair), image data format both orders (<= 2 configurations per class in "
      "quick); history stream = default + contexts + 4 seeded single-option configurations per class x "
      "{call2, stp, call_stp_call, uqf, variables_call_uqf, uqf_tensor, adopt (handed to a real layer: QDense / "
      "QConv2D / QDepthwiseConv2D / QSeparableConv2D / QConv1D / QSimpleRNN / QBatchNormalization in rotation, "
      "+ the layer's own get_config/from_config as fourth route), call_adopt_call, assign_sym, stp_assign_sym, "
      "assign_qnoise_stp (declared-modifiable attributes of quantized_linear)} (every second one for non-default "
      "configurations in quick; 3 seeded singles instead of 4 since round 3) + round 3: every configuration on "
      "which _set_trainable_parameter() fires (alpha None): all single-option cells of the default context "
      "(adopt; routes from_config + layer in quick) and every context without alpha x every lattice value and 0 / 1 "
      "of every option the step rewrites (model) x {stp, call_adopt_call, stp_assign_sym}, all routes; forms stream = first value of every numeric/boolean option x numpy "
      "scalar (alternating widths in quick), 0-d ndarray, tf.constant, int/float substitutions; array forms = "
      "alpha of every class that has it x {ndarray[1], ndarray[6], ndarray[1,6] float64, list[1], tuple[6]}, "
      "every other numeric option x 3 of these 5 (alternating; all in thorough), judged only if the original "
      "accepts the form; signature stream = every live constructor parameter outside the lattice (none on "
      "the unchanged tree) x guessed values x (contexts + contexts extended by one lattice option) x 3 routes")
  run.assumptions.append(
      "identical stored constructor arguments imply identical behaviour (__call__ reads nothing "
      "else); exercised by comparing outputs of rebuilt instances whose fields agree")
  run.assumptions.append(
      "Keras serialize_keras_object / deserialize_keras_object are runtime (exercised, not modelled); "
      "ndarray vs list of post_training_scale is not distinguished by the model")

  # ------------------------------------------------------------------ static tie (exhaustive)
  tables = core.run_driver("C09", [{"op": "tables"}])[0]
  reg = dict(R._QUANTIZERS_REGISTRY._container)  # pylint: disable=protected-access
  model_cls = {c["name"]: c for c in tables["classes"]}
  run.case(("static", "registry"), sample={"registry": list(reg)})
  run.compared += 1
  if list(reg) != tables["registry"]:
    run.disagree("static.registry", {"what": "registered names"}, list(reg), tables["registry"])
  n_params = 0
  for name, cls in reg.items():
    run.case(("static", "signature", name))
    run.compared += 1
    # clause: every registered name resolves to the class of that name
    try:
      got = R.lookup_quantizer(name)
      if got.__name__ != name:
        run.violate("registry_resolves", {"name": name}, {"resolved_to": got.__name__},
                    mirrored=False)
      if getattr(Q, name, None) is not got:
        run.violate("registry_resolves", {"name": name, "where": "module"},
                    {"module_attr": repr(getattr(Q, name, None))}, mirrored=False)
    except Exception as e:  # pylint: disable=broad-except
      run.violate("registry_resolves", {"name": name}, {"raises": L.err_tag(e)}, mirrored=False)
    sig = inspect.signature(cls.__init__)
    impl = [[p.name, L.enc(p.default)] for p in list(sig.parameters.values())[1:]]
    n_params += len(impl)
    mod = model_cls.get(name, {}).get("params")
    if impl != mod:
      run.disagree("static.signature", {"class": name}, impl, mod)
    # get_config key list of the default instance (dict order) and the constructor arguments it
    # omits, vs the model's cfgSpec / dropped
    run.case(("static", "config_keys", name))
    run.compared += 1
    try:
      keys = list(cls().get_config().keys())
    except Exception as e:  # pylint: disable=broad-except
      keys = ["<raises %s>" % L.err_tag(e)]
    omitted = [p[0] for p in impl if p[0] not in keys]
    mk, md = model_cls.get(name, {}).get("config_keys"), model_cls.get(name, {}).get("dropped")
    if keys != mk or omitted != md:
      run.disagree("static.config_keys", {"class": name}, {"keys": keys, "omitted": omitted},
                   {"keys": mk, "omitted": md})
    extra_keys = [k for k in keys if k not in [p[0] for p in impl]]
    if extra_keys:
      # a key the constructor does not accept makes from_config(get_config()) a TypeError
      run.violate("config_keys_accepted", {"class": name, "keys": ",".join(extra_keys)},
                  {"get_config_keys": keys, "constructor": [p[0] for p in impl]}, mirrored=False)
  try:
    R.lookup_quantizer("no_such_quantizer")
    run.disagree("static.registry", {"lookup": "no_such_quantizer"}, "no error", "KeyError")
  except KeyError:
    pass
  run.extra["static_tables_compared"] = {"registry_names": len(reg), "constructor_parameters": n_params}

  # ------------------------------------------------------------------ behavioural tie
  xs_all = L.probes(rng)
  xs_base = xs_all if tier != "quick" else [xs_all[0], xs_all[2]]
  lines, recs = [], []
  for name in tables["registry"]:
    cls = reg.get(name)
    if cls is None:
      continue
    names = [p[0] for p in model_cls[name]["params"]]
    xs_cls = xs_base + [L.po2_probe()] if name in L.PO2_CLASSES else xs_base
    n_pair = 0
    for kind, kw in (L.configs(name, tier, rng) + [("extra", kw) for kw in EXTRA.get(name, [])]
                     + [("boundary", kw) for kw in L.po2_boundary(name, tier)]):
      if kind == "pair" and tier == "quick":
        # round 3 budget trim: 30 of the 36 seeded option pairs per class (pays for the
        # layer-adoption cells of the history stream)
        n_pair += 1
        if n_pair % 6 == 0:
          continue
      if kind == "boundary" and any(r["class"] == name and L.enc_env(r["kw"]) == L.enc_env(kw) for r in recs):
        continue
      rec = {"class": name, "kw": kw, "kind": kind}
      line = {"op": "roundtrip", "cls": name, "args": [], "kw": L.enc_env(kw)}
      lines.append(line)
      recs.append(rec)
      run.case((name, repr(L.enc_env(kw))), nontrivial=True,
               sample={"class": name, "kw": L.enc_env(kw)} if len(run.samples) < 6 and kind == "pair" else None)
      run.count("kind_" + kind)
      try:
        q = _build(cls, kw)
      except Exception as e:  # pylint: disable=broad-except
        rec["construct_err"] = L.err_tag(e)
        run.count("construct_raises")
        continue
      a0 = L.attrs(q, names)
      rec["attrs"] = a0
      rec["hidden"] = L.hidden(q, names)      # before the first call
      try:
        cfg = q.get_config()
        rec["config"] = L.canon_env(L.enc_env(cfg))
      except Exception as e:  # pylint: disable=broad-except
        rec["config_err"] = L.err_tag(e)
        continue
      stochastic = name in STOCHASTIC or bool(kw.get("use_stochastic_rounding"))
      phases = (0, 1) if stochastic else (0,)
      xs = xs_cls
      o0 = L.observe(q, xs, phases)
      rec["call_raises"] = any(isinstance(v, tuple) and v and v[0] == "raises" for v in o0.values())
      if rec["call_raises"]:
        run.count("original_call_raises")
      routes, routes2, mutated = {}, {}, {}
      first_ok = None
      # ONE configuration object per kind of route, reused for both rebuilds of the route (and
      # cfg0 for both dictionary routes), never copied: what a caller holding a config does
      cfg0 = q.get_config()
      snap0 = _cfg_canon(cfg0)
      try:
        ser = tf.keras.utils.serialize_keras_object(q)
        snap_ser = _cfg_canon(ser["config"]) if isinstance(ser, dict) and "config" in ser else None
      except Exception as e:  # pylint: disable=broad-except
        ser, snap_ser = e, None
      for route in ("from_config", "get_quantizer", "keras"):
        for attempt in (1, 2):
          dest = routes if attempt == 1 else routes2
          try:
            if route == "from_config":
              q2 = cls.from_config(cfg0)
            elif route == "get_quantizer":
              q2 = Q.get_quantizer({"class_name": name, "config": cfg0})
            else:
              if isinstance(ser, Exception):
                raise ser
              q2 = tf.keras.utils.deserialize_keras_object(ser, custom_objects={name: cls})
            a2 = L.attrs(q2, names)
            if attempt == 1:
              # hidden attributes (before any call) and the configuration of the rebuilt quantizer
              rec.setdefault("hidden2", {})[route] = L.hidden(q2, names)
              try:
                rec.setdefault("config2", {})[route] = _cfg_canon(q2.get_config())
              except Exception as e:  # pylint: disable=broad-except
                rec.setdefault("config2", {})[route] = ["<raises %s>" % L.err_tag(e)]
            if attempt == 2 and "ok" in routes.get(route, {}) and a2 == routes[route]["ok"]:
              # same stored fields as the first rebuild of this route: same verdict
              dest[route] = {"ok": a2, "kinds": routes[route]["kinds"]}
            elif first_ok is not None and a2 == first_ok[0]:
              kinds = first_ok[1]          # identical stored fields as the first route
              o2 = L.observe(q2, xs[:1], phases)
              if L.obs_diff({k: v for k, v in o0.items() if k.endswith("_0")}, o2) - kinds:
                kinds = kinds | L.obs_diff({k: v for k, v in o0.items() if k.endswith("_0")}, o2)
              dest[route] = {"ok": a2, "kinds": sorted(kinds)}
            else:
              o2 = L.observe(q2, xs, phases)
              kinds = L.obs_diff(o0, o2)
              if first_ok is None:
                first_ok = (a2, kinds)
              dest[route] = {"ok": a2, "kinds": sorted(kinds)}
          except Exception as e:  # pylint: disable=broad-except
            dest[route] = {"err": L.err_tag(e), "msg": str(e)[:160]}
          # the route must leave the configuration it was handed as it found it
          if route == "keras":
            now = _cfg_canon(ser["config"]) if snap_ser is not None else None
            if now != snap_ser:
              mutated.setdefault(route, []).append(attempt)
              rec.setdefault("mutation", {"before": snap_ser, "after": now})
              snap_ser = now
          else:
            now = _cfg_canon(cfg0)
            if now != snap0:
              mutated.setdefault(route, []).append(attempt)
              rec.setdefault("mutation", {"before": snap0, "after": now})
              snap0 = now
      rec["routes2"] = routes2
      rec["mutated"] = mutated
      rec["routes"] = routes
      # attribution of an observable difference to constructor options
      ok = [r for r in routes.values() if "ok" in r]
      if ok:
        a2 = ok[0]["ok"]
        diff = [n for n in names if a0[n] != a2[n]]
        rec["diff_fields"] = diff
        kinds = set()
        for r in ok:
          kinds |= set(r["kinds"])
        rec["kinds"] = sorted(kinds)
        if kinds and len(diff) > 1:
          culprits = []
          for f in diff:
            kw3 = _kwargs_from_attrs(a2)
            for g in diff:
              if g != f:
                kw3[g] = _kwargs_from_attrs({g: a0[g]})[g]
            try:
              q3 = _build(cls, kw3)
              if L.obs_diff(o0, L.observe(q3, xs, phases)):
                culprits.append(f)
            except Exception:  # pylint: disable=broad-except
              culprits.append(f)
          rec["culprits"] = culprits or ["+".join(diff)]
        elif kinds:
          rec["culprits"] = diff or ["<no field differs>"]

  outs = core.run_driver("C09", lines)
  n_unobserved = 0
  for rec, line, o in zip(recs, lines, outs):
    name = rec["class"]
    case = {"class": name, "kw": line["kw"]}
    run.compared += 1
    mirrored = True
    mc = o["construct"]
    if "construct_err" in rec or "err" in mc:
      if rec.get("construct_err") != mc.get("err"):
        run.disagree("construct", case, rec.get("construct_err", "ok"), mc.get("err", "ok"))
      continue
    if L.canon_env(list(rec["attrs"].items())) != L.canon_env(mc["ok"]):
      run.disagree("construct.fields", case, L.canon_env(list(rec["attrs"].items())), L.canon_env(mc["ok"]))
      mirrored = False
    if "config_err" in rec:
      run.disagree("get_config", case, rec["config_err"], L.canon_env(o["config"]))
      run.violate("get_config_raises", {"class": name, "error": rec["config_err"]}, case, mirrored=False)
      continue
    if rec["config"] != L.canon_env(o["config"]):
      run.disagree("get_config", case, rec["config"], L.canon_env(o["config"]))
      mirrored = False
    # ---- hidden per-instance state of the original: inventory and derived values vs the model
    hid_names = model_cls[name]["hidden_names"]
    run.compared += 1
    # (`scale` is created by __init__ only on some paths and by the first call otherwise)
    if (sorted(k for k, _ in rec["hidden"] if k not in L.VOLATILE)
        != sorted(k for k in hid_names if k not in L.VOLATILE)):
      run.disagree("construct.hidden_inventory", case, [k for k, _ in rec["hidden"]], hid_names)
      mirrored = False
    mh = o.get("hidden") or []
    mh_names = [m[0] for m in mh]
    if L.canon_env([kv for kv in rec["hidden"] if kv[0] in mh_names]) != L.canon_env(mh):
      run.disagree("construct.hidden", case, [kv for kv in rec["hidden"] if kv[0] in mh_names], mh)
      mirrored = False
    for route, mkey in (("from_config", "from_config"), ("get_quantizer", "get_quantizer"),
                        ("keras", "from_config")):
      r, m = rec["routes"][route], o[mkey]
      if "ok" in r and route in rec.get("hidden2", {}):
        run.compared += 1
        h2 = rec["hidden2"][route]
        mh2 = o.get("hidden_rebuilt") or []
        if L.canon_env([kv for kv in h2 if kv[0] in [x[0] for x in mh2]]) != L.canon_env(mh2):
          run.disagree("route.%s.hidden" % route, case, h2, mh2)
          mirrored = False
        if h2 != rec["hidden"]:
          d0, d2 = dict(map(tuple, map(_kv, rec["hidden"]))), dict(map(tuple, map(_kv, h2)))
          bad = sorted(k for k in set(d0) | set(d2) if d0.get(k) != d2.get(k))
          run.count("hidden_state_differs_%s" % name)
          run.violate("same_hidden_state", {"class": name, "attr": "+".join(bad)},
                      {"kw": line["kw"], "route": route, "original": {k: d0.get(k) for k in bad},
                       "rebuilt": {k: d2.get(k) for k in bad},
                       "replay": "q=%s(**kw); q2=%s.from_config(q.get_config()); vars(q2) vs vars(q)" % (name, name)},
                      mirrored=mirrored)
        c2 = rec["config2"][route]
        if c2 != rec["config"]:
          dk = _cfg_diff(rec["config"], c2)
          run.count("config_not_fixed_point_%s" % name)
          run.violate("config_fixed_point", {"class": name, "field": "+".join(dk)},
                      {"kw": line["kw"], "route": route, "config": rec["config"], "config_of_rebuilt": c2,
                       "replay": "q=%s(**kw); c=q.get_config(); %s.from_config(c).get_config() vs c" % (name, name)},
                      mirrored=mirrored)
        if o.get("config_rebuilt") is not None and c2 != L.canon_env(o["config_rebuilt"]):
          run.disagree("route.%s.config_rebuilt" % route, case, c2, L.canon_env(o["config_rebuilt"]))
    for route, mkey in (("from_config", "from_config"), ("get_quantizer", "get_quantizer"),
                        ("keras", "from_config")):
      r, m = rec["routes"][route], o[mkey]
      run.count("route_%s_%s" % (route, "ok" if "ok" in r else r["err"]))
      if ("err" in r) != ("err" in m) or ("err" in r and r["err"] != m["err"]):
        run.disagree("route." + route, case, r.get("err", "ok"), m.get("err", "ok"))
        mirrored = False
      elif "ok" in r and L.canon_env(list(r["ok"].items())) != L.canon_env(m["ok"]):
        run.disagree("route.%s.fields" % route, case, L.canon_env(list(r["ok"].items())),
                     L.canon_env(m["ok"]))
        mirrored = False
    if "diff_fields" in rec and o["diff_fields"] is not None and rec["diff_fields"] != o["diff_fields"]:
      mirrored = False
    # ---- second rebuild from the SAME configuration object: the model is a pure function of the
    #      configuration, so it gives the first answer again
    for route, mkey in (("from_config", "from_config"), ("get_quantizer", "get_quantizer"),
                        ("keras", "from_config")):
      r, m = rec["routes2"][route], o[mkey]
      run.compared += 1
      run.count("route2_%s_%s" % (route, "ok" if "ok" in r else r["err"]))
      if ("err" in r) != ("err" in m) or ("err" in r and r["err"] != m["err"]):
        run.disagree("route.%s.second" % route, case, r.get("err", "ok"), m.get("err", "ok"))
        if "err" in r:
          run.violate("rebuild_raises", {"class": name, "error": r["err"], "rebuild": "second", "route": route},
                      {"kw": line["kw"], "msg": r.get("msg"),
                       "replay": "q=%s(**kw); c=q.get_config(); %s.from_config(c); %s.from_config(c)"
                                 % (name, name, name)}, mirrored=False)
      elif "ok" in r:
        if L.canon_env(list(r["ok"].items())) != L.canon_env(m["ok"]):
          run.disagree("route.%s.second.fields" % route, case, L.canon_env(list(r["ok"].items())),
                       L.canon_env(m["ok"]))
        first = rec["routes"][route]
        if "ok" in first and r["ok"] != first["ok"]:
          lost = [n for n in r["ok"] if r["ok"][n] != first["ok"][n]]
          k2 = set(r["kinds"])
          clause = ("same_output" if k2 & {"output", "scale"} else "same_gradient") if k2 else "second_rebuild_equal"
          run.count("second_rebuild_differs_%s" % name)
          run.violate(clause, {"class": name, "field": "+".join(lost), "rebuild": "second", "route": route},
                      {"kw": line["kw"], "differs": sorted(k2), "fields_changed_vs_first_rebuild": lost,
                       "replay": "q=%s(**kw); c=q.get_config(); q1=%s.from_config(c); q2=%s.from_config(c); "
                                 "q2(x) vs q(x)" % (name, name, name)}, mirrored=False)
    for route, attempts in rec["mutated"].items():
      run.count("config_modified_%s" % route)
      run.violate("config_unmodified", {"class": name, "route": route},
                  {"kw": line["kw"], "rebuilds_that_modified_it": attempts, **rec.get("mutation", {}),
                   "replay": "q=%s(**kw); c=q.get_config(); before=copy.deepcopy(c); <route>(c); c vs before" % name},
                  mirrored=False)
    # ---- clauses on the real behaviour
    errs = sorted({r["err"] for r in rec["routes"].values() if "err" in r})
    for e in errs:
      run.violate("rebuild_raises", {"class": name, "error": e},
                  {"kw": line["kw"], "routes": {k: v.get("err", "ok") for k, v in rec["routes"].items()},
                   "replay": "q=%s(**kw); %s.from_config(q.get_config())" % (name, name)},
                  mirrored=mirrored)
    kinds = set(rec.get("kinds", []))
    if rec.get("call_raises"):
      # the original quantizer rejects the probe itself (invalid option combination, e.g.
      # elements_per_scale without scale_axis): no function to compare
      kinds = set()
    if kinds:
      clause = "same_output" if kinds & {"output", "scale"} else "same_gradient"
      for f in rec["culprits"]:
        run.count("differs_%s.%s" % (name, f))
        run.violate(clause, {"class": name, "field": f},
                    {"kw": line["kw"], "differs": sorted(kinds), "fields_not_restored": rec["diff_fields"],
                     "replay": "q=%s(**kw); q2=%s.from_config(q.get_config()); q2(x) vs q(x)" % (name, name)},
                    mirrored=mirrored)
    elif rec.get("diff_fields"):
      n_unobserved += 1
      run.count("field_reset_but_no_observable_difference")
    if (kinds or errs) and "ok" in o["from_config"]:
      # C09_same_function: cannot happen when model and code agree (every class, every instance)
      run.disagree("theorem.same_function", case, sorted(kinds) + errs,
                   "same class, same stored options (build-only options aside)")
  run.extra["reset_fields_without_observable_difference"] = n_unobserved

  # ------------------------------------------------------------------ strengthening streams
  import tensorflow.keras.backend as K
  import time
  t0 = time.time()
  _world_stream(run, tier, Q, tf, K, reg, model_cls, recs, outs)
  t1 = time.time()
  _history_stream(run, tier, Q, tf, K, reg, model_cls, rng, xs_all)
  t2 = time.time()
  _forms_stream(run, tier, Q, tf, K, reg, model_cls, xs_all)
  t3 = time.time()
  _signature_stream(run, tier, Q, tf, reg, model_cls, [xs_all[0], xs_all[2]])
  if os.environ.get("QKV_TIMING"):
    print("C09 stream seconds: lattice %.0f world %.0f history %.0f forms %.0f signature %.0f"
          % (t0 - t_start, t1 - t0, t2 - t1, t3 - t2, time.time() - t3))

  # ------------------------------------------------------------------ malformed stream
  bad = [
      ("quantized_linear", [], {"bits": 0}), ("quantized_linear", [], {"bits": -3}),
      ("quantized_linear", [], {"alpha": "foo"}),
      ("quantized_bits", [], {"post_training_scale": L.A1}),
      ("quantized_bits", [], {"alpha": 2.0, "post_training_scale": L.A1}),
      ("quantized_relu", [], {"negative_slope": 0.3}), ("quantized_relu", [], {"negative_slope": -0.5}),
      ("quantized_relu_po2", [], {"negative_slope": 3.0}), ("quantized_relu_po2", [], {"max_value": -1}),
      ("quantized_po2", [], {"max_value": -0.5}), ("stochastic_ternary", [], {"threshold": 1.0}),
      ("quantized_tanh", [8, False, False, False, 1], {}), ("quantized_tanh", [8], {"bits": 4}),
      ("quantized_sigmoid", [], {"no_such_option": 1}), ("bernoulli", [], {"bits": 1}),
      ("quantized_hswish", [], {"keep_negative": True}), ("binary", [], {"temperature": 1.0}),
      ("quantized_ulaw", [8, 0, 0, 255.0, 3], {}),
  ]
  mlines, mimpl = [], []
  for name, args, kw in bad:
    cls = reg.get(name)
    if cls is None:
      continue
    try:
      cls(*args, **kw)
      mimpl.append("ok")
    except Exception as e:  # pylint: disable=broad-except
      mimpl.append(L.err_tag(e))
    mlines.append({"op": "construct", "cls": name, "args": [L.enc(a) for a in args], "kw": L.enc_env(kw)})
  try:
    r = Q.get_quantizer({"class_name": "no_such_quantizer", "config": {}})
    # tf_keras' deserialize_keras_object hands an unresolvable name back unchanged
    mimpl.append("UnknownName" if isinstance(r, str) else "ok")
  except Exception as e:  # pylint: disable=broad-except
    mimpl.append(L.err_tag(e))
  mlines.append({"op": "get_quantizer_dict", "class_name": "no_such_quantizer", "config": []})
  for line, impl, o in zip(mlines, mimpl, core.run_driver("C09", mlines)):
    run.case(("malformed", repr(line)), nontrivial=True)
    run.compared += 1
    run.count("malformed_" + impl)
    if impl != o.get("err", "ok"):
      run.disagree("malformed", line, impl, o.get("err", "ok"))
