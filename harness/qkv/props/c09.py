"""C09 — quantizer configuration round-trip (DESIGN.md §4 C09).

static tie   : constructor signatures (names, order, defaults) of all registered classes, the key
               list of get_config() (hence which constructor arguments it omits) and the registry
               contents, read from the live objects, vs the model's tables (exhaustive).
behavioural  : option lattice of every class -> real get_config() vs model getConfig, the three
               rebuild routes vs the model's verdict and rebuilt fields.
clause oracle: rebuilt quantizer must not raise and must give bit-identical outputs / scale
               (and gradients) on probe tensors; a failure is attributed to the constructor
               option(s) whose restoration alone repairs it.  Every route is run TWICE on the SAME
               configuration object (taken once from get_config() / serialize_keras_object): the
               second rebuild must equal the first, and no route may modify the configuration it
               is handed (a from_config that pops a key damages every later rebuild from the
               same dictionary).
"""
import inspect

import numpy as np

from .. import core, qlattice as L

STOCHASTIC = {"bernoulli", "stochastic_binary", "stochastic_ternary"}

# list-valued scale_axis / elements_per_scale and combinations of the options that get_config
# used to omit (fix round): swept in addition to the shared lattice of qkv.qlattice
EXTRA = {
    "quantized_bits": [
        {"alpha": "auto", "scale_axis": [0, 1]},
        {"bits": 4, "alpha": "auto_po2", "scale_axis": [0, 1], "elements_per_scale": [2, 3]},
        {"bits": 4, "alpha": "auto_po2", "scale_axis": 1, "elements_per_scale": 3,
         "min_po2_exponent": -1, "max_po2_exponent": 0, "use_ste": False},
    ],
    "binary": [
        {"alpha": "auto_po2", "scale_axis": [0, 1], "elements_per_scale": [2, 3]},
        {"alpha": "auto_po2", "scale_axis": 1, "elements_per_scale": 3, "min_po2_exponent": -1,
         "max_po2_exponent": 0},
    ],
    "quantized_linear": [{"bits": 4, "alpha": "auto", "scale_axis": [0, 1]}],
    "quantized_hswish": [{"bits": 6, "integer": 2, "alpha": "auto", "scale_axis": [0, 1]},
                         {"bits": 6, "integer": 2, "alpha": "auto_po2", "scale_axis": 0,
                          "relu_shift": 2, "relu_upper_bound": 4}],
    "quantized_relu": [{"bits": 4, "integer": 1, "relu_upper_bound": 1.5, "is_quantized_clip": False,
                        "use_ste": False}],
    "bernoulli": [{"alpha": "auto", "temperature": 0.25, "use_real_sigmoid": False}],
}
# frozen (post-training) scales: scalar and per-channel, under both auto alphas
EXTRA["quantized_bits"] += [
    {"bits": 4, "alpha": "auto_po2", "post_training_scale": L.A2},
    {"bits": 4, "alpha": "auto", "post_training_scale":
     np.array([0.5, 1.0, 2.0, 0.25, 1.0, 4.0], dtype=np.float32)},
    {"bits": 4, "alpha": "auto_po2", "scale_axis": 1, "post_training_scale":
     np.array([0.5, 1.0, 2.0, 0.25, 1.0, 4.0], dtype=np.float32)},
]


def _cfg_canon(cfg):
  """value-level canonical form of a configuration dictionary (ndarray and list of the same
  numbers are identified: the model does not distinguish them either)"""
  try:
    return L.canon_env(L.enc_env(cfg))
  except Exception as e:  # pylint: disable=broad-except
    return ["<unencodable: %s>" % L.err_tag(e), sorted(map(str, cfg))]


def _build(cls, kw):
  kw = dict(kw)
  return cls(**kw)


def _kwargs_from_attrs(a):
  kw = {k: L.dec(v) for k, v in a.items()}
  if isinstance(kw.get("post_training_scale"), list):
    kw["post_training_scale"] = np.array(kw["post_training_scale"], dtype=np.float32)
  return kw


def run(run: core.Run, tier: str):
  core.assert_repo_import()
  import tensorflow as tf
  from qkeras import quantizers as Q
  from qkeras import quantizer_registry as R
  rng = np.random.default_rng(run.seed)
  run.extra["rule"] = (
      "per class: default, every option value under every context of qkv.qlattice.LATTICE, plus "
      "option pairs (36 seeded pairs in quick, all pairs + 60 triples in thorough), plus the fixed "
      "list-valued / formerly-omitted option combinations of EXTRA; non-trivial = "
      "distinct (class, keyword set); probes = fixed 4x6 tensor with distinct rows/columns and "
      "out-of-range values, a seeded 4x6 and a seeded rank-4 tensor; both learning phases for "
      "stochastic configurations, tf.random seed reset before every call")
  run.assumptions.append(
      "identical stored constructor arguments imply identical behaviour (__call__ reads nothing "
      "else); exercised by comparing outputs of rebuilt instances whose fields agree")
  run.assumptions.append(
      "Keras serialize_keras_object / deserialize_keras_object are runtime (exercised, not modelled); "
      "ndarray vs list of post_training_scale is not distinguished by the model")

  # ------------------------------------------------------------------ static tie (exhaustive)
  tables = core.run_driver("C09", [{"op": "tables"}])[0]
  reg = dict(R._QUANTIZERS_REGISTRY._container)  # pylint: disable=protected-access
  model_cls = {c["name"]: c for c in tables["classes"]}
  run.case(("static", "registry"), sample={"registry": list(reg)})
  run.compared += 1
  if list(reg) != tables["registry"]:
    run.disagree("static.registry", {"what": "registered names"}, list(reg), tables["registry"])
  n_params = 0
  for name, cls in reg.items():
    run.case(("static", "signature", name))
    run.compared += 1
    # clause: every registered name resolves to the class of that name
    try:
      got = R.lookup_quantizer(name)
      if got.__name__ != name:
        run.violate("registry_resolves", {"name": name}, {"resolved_to": got.__name__},
                    mirrored=False)
      if getattr(Q, name, None) is not got:
        run.violate("registry_resolves", {"name": name, "where": "module"},
                    {"module_attr": repr(getattr(Q, name, None))}, mirrored=False)
    except Exception as e:  # pylint: disable=broad-except
      run.violate("registry_resolves", {"name": name}, {"raises": L.err_tag(e)}, mirrored=False)
    sig = inspect.signature(cls.__init__)
    impl = [[p.name, L.enc(p.default)] for p in list(sig.parameters.values())[1:]]
    n_params += len(impl)
    mod = model_cls.get(name, {}).get("params")
    if impl != mod:
      run.disagree("static.signature", {"class": name}, impl, mod)
    # get_config key list of the default instance (dict order) and the constructor arguments it
    # omits, vs the model's cfgSpec / dropped
    run.case(("static", "config_keys", name))
    run.compared += 1
    try:
      keys = list(cls().get_config().keys())
    except Exception as e:  # pylint: disable=broad-except
      keys = ["<raises %s>" % L.err_tag(e)]
    omitted = [p[0] for p in impl if p[0] not in keys]
    mk, md = model_cls.get(name, {}).get("config_keys"), model_cls.get(name, {}).get("dropped")
    if keys != mk or omitted != md:
      run.disagree("static.config_keys", {"class": name}, {"keys": keys, "omitted": omitted},
                   {"keys": mk, "omitted": md})
    extra_keys = [k for k in keys if k not in [p[0] for p in impl]]
    if extra_keys:
      # a key the constructor does not accept makes from_config(get_config()) a TypeError
      run.violate("config_keys_accepted", {"class": name, "keys": ",".join(extra_keys)},
                  {"get_config_keys": keys, "constructor": [p[0] for p in impl]}, mirrored=False)
  try:
    R.lookup_quantizer("no_such_quantizer")
    run.disagree("static.registry", {"lookup": "no_such_quantizer"}, "no error", "KeyError")
  except KeyError:
    pass
  run.extra["static_tables_compared"] = {"registry_names": len(reg), "constructor_parameters": n_params}

  # ------------------------------------------------------------------ behavioural tie
  xs_all = L.probes(rng)
  xs = xs_all if tier != "quick" else [xs_all[0], xs_all[2]]
  lines, recs = [], []
  for name in tables["registry"]:
    cls = reg.get(name)
    if cls is None:
      continue
    names = [p[0] for p in model_cls[name]["params"]]
    for kind, kw in L.configs(name, tier, rng) + [("extra", kw) for kw in EXTRA.get(name, [])]:
      rec = {"class": name, "kw": kw, "kind": kind}
      line = {"op": "roundtrip", "cls": name, "args": [], "kw": L.enc_env(kw)}
      lines.append(line)
      recs.append(rec)
      run.case((name, repr(L.enc_env(kw))), nontrivial=True,
               sample={"class": name, "kw": L.enc_env(kw)} if len(run.samples) < 6 and kind == "pair" else None)
      run.count("kind_" + kind)
      try:
        q = _build(cls, kw)
      except Exception as e:  # pylint: disable=broad-except
        rec["construct_err"] = L.err_tag(e)
        run.count("construct_raises")
        continue
      a0 = L.attrs(q, names)
      rec["attrs"] = a0
      try:
        cfg = q.get_config()
        rec["config"] = L.canon_env(L.enc_env(cfg))
      except Exception as e:  # pylint: disable=broad-except
        rec["config_err"] = L.err_tag(e)
        continue
      stochastic = name in STOCHASTIC or bool(kw.get("use_stochastic_rounding"))
      phases = (0, 1) if stochastic else (0,)
      o0 = L.observe(q, xs, phases)
      rec["call_raises"] = any(isinstance(v, tuple) and v and v[0] == "raises" for v in o0.values())
      if rec["call_raises"]:
        run.count("original_call_raises")
      routes, routes2, mutated = {}, {}, {}
      first_ok = None
      # ONE configuration object per kind of route, reused for both rebuilds of the route (and
      # cfg0 for both dictionary routes), never copied: what a caller holding a config does
      cfg0 = q.get_config()
      snap0 = _cfg_canon(cfg0)
      try:
        ser = tf.keras.utils.serialize_keras_object(q)
        snap_ser = _cfg_canon(ser["config"]) if isinstance(ser, dict) and "config" in ser else None
      except Exception as e:  # pylint: disable=broad-except
        ser, snap_ser = e, None
      for route in ("from_config", "get_quantizer", "keras"):
        for attempt in (1, 2):
          dest = routes if attempt == 1 else routes2
          try:
            if route == "from_config":
              q2 = cls.from_config(cfg0)
            elif route == "get_quantizer":
              q2 = Q.get_quantizer({"class_name": name, "config": cfg0})
            else:
              if isinstance(ser, Exception):
                raise ser
              q2 = tf.keras.utils.deserialize_keras_object(ser, custom_objects={name: cls})
            a2 = L.attrs(q2, names)
            if attempt == 2 and "ok" in routes.get(route, {}) and a2 == routes[route]["ok"]:
              # same stored fields as the first rebuild of this route: same verdict
              dest[route] = {"ok": a2, "kinds": routes[route]["kinds"]}
            elif first_ok is not None and a2 == first_ok[0]:
              kinds = first_ok[1]          # identical stored fields as the first route
              o2 = L.observe(q2, xs[:1], phases)
              if L.obs_diff({k: v for k, v in o0.items() if k.endswith("_0")}, o2) - kinds:
                kinds = kinds | L.obs_diff({k: v for k, v in o0.items() if k.endswith("_0")}, o2)
              dest[route] = {"ok": a2, "kinds": sorted(kinds)}
            else:
              o2 = L.observe(q2, xs, phases)
              kinds = L.obs_diff(o0, o2)
              if first_ok is None:
                first_ok = (a2, kinds)
              dest[route] = {"ok": a2, "kinds": sorted(kinds)}
          except Exception as e:  # pylint: disable=broad-except
            dest[route] = {"err": L.err_tag(e), "msg": str(e)[:160]}
          # the route must leave the configuration it was handed as it found it
          if route == "keras":
            now = _cfg_canon(ser["config"]) if snap_ser is not None else None
            if now != snap_ser:
              mutated.setdefault(route, []).append(attempt)
              rec.setdefault("mutation", {"before": snap_ser, "after": now})
              snap_ser = now
          else:
            now = _cfg_canon(cfg0)
            if now != snap0:
              mutated.setdefault(route, []).append(attempt)
              rec.setdefault("mutation", {"before": snap0, "after": now})
              snap0 = now
      rec["routes2"] = routes2
      rec["mutated"] = mutated
      rec["routes"] = routes
      # attribution of an observable difference to constructor options
      ok = [r for r in routes.values() if "ok" in r]
      if ok:
        a2 = ok[0]["ok"]
        diff = [n for n in names if a0[n] != a2[n]]
        rec["diff_fields"] = diff
        kinds = set()
        for r in ok:
          kinds |= set(r["kinds"])
        rec["kinds"] = sorted(kinds)
        if kinds and len(diff) > 1:
          culprits = []
          for f in diff:
            kw3 = _kwargs_from_attrs(a2)
            for g in diff:
              if g != f:
                kw3[g] = _kwargs_from_attrs({g: a0[g]})[g]
            try:
              q3 = _build(cls, kw3)
              if L.obs_diff(o0, L.observe(q3, xs, phases)):
                culprits.append(f)
            except Exception:  # pylint: disable=broad-except
              culprits.append(f)
          rec["culprits"] = culprits or ["+".join(diff)]
        elif kinds:
          rec["culprits"] = diff or ["<no field differs>"]

  outs = core.run_driver("C09", lines)
  n_unobserved = 0
  for rec, line, o in zip(recs, lines, outs):
    name = rec["class"]
    case = {"class": name, "kw": line["kw"]}
    run.compared += 1
    mirrored = True
    mc = o["construct"]
    if "construct_err" in rec or "err" in mc:
      if rec.get("construct_err") != mc.get("err"):
        run.disagree("construct", case, rec.get("construct_err", "ok"), mc.get("err", "ok"))
      continue
    if L.canon_env(list(rec["attrs"].items())) != L.canon_env(mc["ok"]):
      run.disagree("construct.fields", case, L.canon_env(list(rec["attrs"].items())), L.canon_env(mc["ok"]))
      mirrored = False
    if "config_err" in rec:
      run.disagree("get_config", case, rec["config_err"], L.canon_env(o["config"]))
      run.violate("get_config_raises", {"class": name, "error": rec["config_err"]}, case, mirrored=False)
      continue
    if rec["config"] != L.canon_env(o["config"]):
      run.disagree("get_config", case, rec["config"], L.canon_env(o["config"]))
      mirrored = False
    for route, mkey in (("from_config", "from_config"), ("get_quantizer", "get_quantizer"),
                        ("keras", "from_config")):
      r, m = rec["routes"][route], o[mkey]
      run.count("route_%s_%s" % (route, "ok" if "ok" in r else r["err"]))
      if ("err" in r) != ("err" in m) or ("err" in r and r["err"] != m["err"]):
        run.disagree("route." + route, case, r.get("err", "ok"), m.get("err", "ok"))
        mirrored = False
      elif "ok" in r and L.canon_env(list(r["ok"].items())) != L.canon_env(m["ok"]):
        run.disagree("route.%s.fields" % route, case, L.canon_env(list(r["ok"].items())),
                     L.canon_env(m["ok"]))
        mirrored = False
    if "diff_fields" in rec and o["diff_fields"] is not None and rec["diff_fields"] != o["diff_fields"]:
      mirrored = False
    # ---- second rebuild from the SAME configuration object: the model is a pure function of the
    #      configuration, so it gives the first answer again
    for route, mkey in (("from_config", "from_config"), ("get_quantizer", "get_quantizer"),
                        ("keras", "from_config")):
      r, m = rec["routes2"][route], o[mkey]
      run.compared += 1
      run.count("route2_%s_%s" % (route, "ok" if "ok" in r else r["err"]))
      if ("err" in r) != ("err" in m) or ("err" in r and r["err"] != m["err"]):
        run.disagree("route.%s.second" % route, case, r.get("err", "ok"), m.get("err", "ok"))
        if "err" in r:
          run.violate("rebuild_raises", {"class": name, "error": r["err"], "rebuild": "second", "route": route},
                      {"kw": line["kw"], "msg": r.get("msg"),
                       "replay": "q=%s(**kw); c=q.get_config(); %s.from_config(c); %s.from_config(c)"
                                 % (name, name, name)}, mirrored=False)
      elif "ok" in r:
        if L.canon_env(list(r["ok"].items())) != L.canon_env(m["ok"]):
          run.disagree("route.%s.second.fields" % route, case, L.canon_env(list(r["ok"].items())),
                       L.canon_env(m["ok"]))
        first = rec["routes"][route]
        if "ok" in first and r["ok"] != first["ok"]:
          lost = [n for n in r["ok"] if r["ok"][n] != first["ok"][n]]
          k2 = set(r["kinds"])
          clause = ("same_output" if k2 & {"output", "scale"} else "same_gradient") if k2 else "second_rebuild_equal"
          run.count("second_rebuild_differs_%s" % name)
          run.violate(clause, {"class": name, "field": "+".join(lost), "rebuild": "second", "route": route},
                      {"kw": line["kw"], "differs": sorted(k2), "fields_changed_vs_first_rebuild": lost,
                       "replay": "q=%s(**kw); c=q.get_config(); q1=%s.from_config(c); q2=%s.from_config(c); "
                                 "q2(x) vs q(x)" % (name, name, name)}, mirrored=False)
    for route, attempts in rec["mutated"].items():
      run.count("config_modified_%s" % route)
      run.violate("config_unmodified", {"class": name, "route": route},
                  {"kw": line["kw"], "rebuilds_that_modified_it": attempts, **rec.get("mutation", {}),
                   "replay": "q=%s(**kw); c=q.get_config(); before=copy.deepcopy(c); <route>(c); c vs before" % name},
                  mirrored=False)
    # ---- clauses on the real behaviour
    errs = sorted({r["err"] for r in rec["routes"].values() if "err" in r})
    for e in errs:
      run.violate("rebuild_raises", {"class": name, "error": e},
                  {"kw": line["kw"], "routes": {k: v.get("err", "ok") for k, v in rec["routes"].items()},
                   "replay": "q=%s(**kw); %s.from_config(q.get_config())" % (name, name)},
                  mirrored=mirrored)
    kinds = set(rec.get("kinds", []))
    if rec.get("call_raises"):
      # the original quantizer rejects the probe itself (invalid option combination, e.g.
      # elements_per_scale without scale_axis): no function to compare
      kinds = set()
    if kinds:
      clause = "same_output" if kinds & {"output", "scale"} else "same_gradient"
      for f in rec["culprits"]:
        run.count("differs_%s.%s" % (name, f))
        run.violate(clause, {"class": name, "field": f},
                    {"kw": line["kw"], "differs": sorted(kinds), "fields_not_restored": rec["diff_fields"],
                     "replay": "q=%s(**kw); q2=%s.from_config(q.get_config()); q2(x) vs q(x)" % (name, name)},
                    mirrored=mirrored)
    elif rec.get("diff_fields"):
      n_unobserved += 1
      run.count("field_reset_but_no_observable_difference")
    if (kinds or errs) and "ok" in o["from_config"]:
      # C09_same_function: cannot happen when model and code agree (every class, every instance)
      run.disagree("theorem.same_function", case, sorted(kinds) + errs,
                   "same class, same stored options (build-only options aside)")
  run.extra["reset_fields_without_observable_difference"] = n_unobserved

  # ------------------------------------------------------------------ malformed stream
  bad = [
      ("quantized_linear", [], {"bits": 0}), ("quantized_linear", [], {"bits": -3}),
      ("quantized_linear", [], {"alpha": "foo"}),
      ("quantized_bits", [], {"post_training_scale": L.A1}),
      ("quantized_bits", [], {"alpha": 2.0, "post_training_scale": L.A1}),
      ("quantized_relu", [], {"negative_slope": 0.3}), ("quantized_relu", [], {"negative_slope": -0.5}),
      ("quantized_relu_po2", [], {"negative_slope": 3.0}), ("quantized_relu_po2", [], {"max_value": -1}),
      ("quantized_po2", [], {"max_value": -0.5}), ("stochastic_ternary", [], {"threshold": 1.0}),
      ("quantized_tanh", [8, False, False, False, 1], {}), ("quantized_tanh", [8], {"bits": 4}),
      ("quantized_sigmoid", [], {"no_such_option": 1}), ("bernoulli", [], {"bits": 1}),
      ("quantized_hswish", [], {"keep_negative": True}), ("binary", [], {"temperature": 1.0}),
      ("quantized_ulaw", [8, 0, 0, 255.0, 3], {}),
  ]
  mlines, mimpl = [], []
  for name, args, kw in bad:
    cls = reg.get(name)
    if cls is None:
      continue
    try:
      cls(*args, **kw)
      mimpl.append("ok")
    except Exception as e:  # pylint: disable=broad-except
      mimpl.append(L.err_tag(e))
    mlines.append({"op": "construct", "cls": name, "args": [L.enc(a) for a in args], "kw": L.enc_env(kw)})
  try:
    r = Q.get_quantizer({"class_name": "no_such_quantizer", "config": {}})
    # tf_keras' deserialize_keras_object hands an unresolvable name back unchanged
    mimpl.append("UnknownName" if isinstance(r, str) else "ok")
  except Exception as e:  # pylint: disable=broad-except
    mimpl.append(L.err_tag(e))
  mlines.append({"op": "get_quantizer_dict", "class_name": "no_such_quantizer", "config": []})
  for line, impl, o in zip(mlines, mimpl, core.run_driver("C09", mlines)):
    run.case(("malformed", repr(line)), nontrivial=True)
    run.compared += 1
    run.count("malformed_" + impl)
    if impl != o.get("err", "ok"):
      run.disagree("malformed", line, impl, o.get("err", "ok"))
