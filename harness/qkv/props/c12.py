"""C12 — model_quantize converts exactly what the configuration names and nothing else.

Tie (DESIGN.md §4 C12): random sequential / functional legacy-Keras models x random quantization
dictionaries x activation_bits x transfer_weights (x prefer_qadaptiveactivation, x enable_bn_folding).

 * correspondence (exact): the layer list that the real `model_quantize` hands to
   `quantized_model_from_json` (captured by wrapping that function in the harness) must equal the
   Lean model's `rewrite` of the source layer list; Python exceptions raised by the rewriting must
   equal the model's error kind.
 * clause oracle on the REAL outputs (independent of the Lean model): topology, names, output
   shapes, untouched layers, selected layers' class and quantizers (as built by the Q-layer class
   from the configured strings), name-over-class precedence, bias-less => no bias quantizer, other
   hyper-parameters preserved, source model / weights / caller dictionaries not modified, weights
   transferred when requested.
"""
import contextlib
import copy
import io
import json
import re

import numpy as np

from .. import core

# ----------------------------------------------------------------------------------------------
# string pools

W_Q = ["quantized_bits(4,0,1)", "quantized_bits(8,2,1)", "quantized_bits(3,0,alpha=1)", "binary()",
       "ternary()", "quantized_po2(4)", "quantized_bits(6)", "stochastic_ternary()"]
A_Q = ["quantized_relu(4)", "quantized_relu(6,2)", "quantized_tanh(5)", "quantized_sigmoid(4)",
       "binary()", "ternary()", "quantized_bits(8,0,1)", "quantized_relu_po2(4)"]
AD_Q = ["quantized_relu(6)", "quantized_bits(5)", "quantized_relu(4)"]
BN_Q = ["quantized_po2(6)", "quantized_relu_po2(6)", "quantized_bits(8,2,1)"]
COLLIDE = ["QDense", "QConv2D", "QActivation", "QBatchNormalization", "QDepthwiseConv2D", "QLSTM",
           "QBidirectional", "QAveragePooling2D", "QConv1D", "QSeparableConv2D", "Dense", "Activation",
           "QAdaptiveActivation", "QGRU", "QSimpleRNN"]

DENSE_LIKE = ["Dense", "Conv1D", "Conv2D", "Conv2DTranspose"]
SEPARABLE = ["SeparableConv1D", "SeparableConv2D"]
RNN = ["SimpleRNN", "LSTM", "GRU"]
RELUS = ["ReLU", "LeakyReLU"]
POOL = ["AveragePooling2D", "GlobalAveragePooling2D"]

# keys a conversion may write, per kind (everything else in a layer's config must be preserved)
QKEYS = {
    "conv": ["kernel_quantizer", "depthwise_quantizer", "pointwise_quantizer", "bias_quantizer", "activation"],
    "rnn": ["kernel_quantizer", "recurrent_quantizer", "bias_quantizer", "state_quantizer", "activation",
            "recurrent_activation"],
    "bn": ["gamma_quantizer", "beta_quantizer", "mean_quantizer", "variance_quantizer"],
    "pool": ["average_quantizer", "activation"],
    "act": ["activation", "total_bits"],
    "relu": ["activation", "max_value", "negative_slope", "threshold"],
    "bidir": ["layer", "backward_layer"],
}
# keys that the Q-layer classes themselves rewrite when they are built from a config (documented
# behaviour of the Q classes, outside model_quantize): constraints / initializers get the
# quantizer's range, so they are not compared on converted layers.
QCLASS_OWN = {"gamma_constraint", "beta_constraint", "kernel_constraint", "bias_constraint", "depthwise_constraint", "pointwise_constraint",
              "recurrent_constraint", "kernel_initializer", "bias_initializer", "depthwise_initializer",
              "pointwise_initializer", "recurrent_initializer"}


def kind_of(cls):
  if cls in DENSE_LIKE or cls in SEPARABLE or cls == "DepthwiseConv2D":
    return "conv"
  if cls in RNN:
    return "rnn"
  if cls == "Bidirectional":
    return "bidir"
  if cls == "Activation":
    return "act"
  if cls in ("ReLU", "relu", "LeakyReLU"):
    return "relu"
  if cls == "BatchNormalization":
    return "bn"
  if cls in POOL:
    return "pool"
  return "other"


def qkeys_of(cls):
  """class keys under which a layer of class `cls` can be selected"""
  k = kind_of(cls)
  if k == "conv" or k == "rnn" or k == "pool":
    return ["Q" + cls]
  if k == "bidir":
    return ["QBidirectional"]
  if k == "act":
    return ["QActivation", "QAdaptiveActivation"]
  if k == "relu":
    return ["QActivation"]
  if k == "bn":
    return ["QBatchNormalization"]
  return []


# ----------------------------------------------------------------------------------------------
# model specs (JSON-able, replayable) and their construction

class Gen:
  def __init__(self, rng):
    self.rng = rng

  def ch(self, xs):
    return xs[int(self.rng.integers(len(xs)))]

  def p(self, prob):
    return bool(self.rng.random() < prob)

  # ---- layer specs
  def names(self, n):
    out, used = [], set()
    for i in range(n):
      if self.p(0.12):
        c = self.ch(COLLIDE)
        if c not in used:
          used.add(c)
          out.append(c)
          continue
      nm = "n%d" % i
      used.add(nm)
      out.append(nm)
    return out

  def act_name(self):
    return self.ch(["relu", "tanh", "sigmoid", "linear", "softmax", "relu", None])

  def shape_free(self):
    """layers that keep any shape"""
    r = self.rng.random()
    if r < 0.30:
      return {"t": "Activation", "kw": {"activation": self.ch(["relu", "tanh", "sigmoid", "softmax", "linear"])}}
    if r < 0.55:
      kw = {}
      if self.p(0.3):
        kw["max_value"] = float(self.ch([1.0, 6.0]))
      if self.p(0.3):
        kw["negative_slope"] = float(self.ch([0.0, 0.125, 0.25]))
      if self.p(0.15):
        kw["threshold"] = 0.5
      return {"t": "ReLU", "kw": kw}
    if r < 0.63:
      return {"t": "LeakyReLU", "kw": ({"alpha": float(self.ch([0.0, 0.125, 0.3]))} if self.p(0.6) else {})}
    if r < 0.90:
      # without affine parameters (center / scale False) the layer owns fewer / only non-trainable
      # weights (the moving statistics)
      b = self.rng.random()
      kw = ({"center": False} if b < 0.10 else {"scale": False} if b < 0.18 else
            {"center": False, "scale": False} if b < 0.30 else {})
      return {"t": "BatchNormalization", "kw": kw}
    return {"t": "Dropout", "kw": {"rate": 0.25}}

  def dense(self, units=None):
    return {"t": "Dense", "kw": {"units": int(units or self.ch([2, 3])), "use_bias": self.p(0.65),
                                 "activation": self.act_name()}}

  def family_vec(self):
    body = []
    n = int(self.rng.integers(2, 6))
    for _ in range(n):
      body.append(self.dense() if self.p(0.5) else self.shape_free())
    body.append(self.dense())
    return {"input": [4], "body": body}

  def conv2d_like(self, same=False, filters=None):
    t = self.ch(["Conv2D", "Conv2D", "DepthwiseConv2D", "SeparableConv2D"])
    kw = {"kernel_size": int(self.ch([1, 2])), "use_bias": self.p(0.65), "activation": self.act_name(),
          "padding": "same" if same else self.ch(["same", "valid"])}
    if t != "DepthwiseConv2D":
      kw["filters"] = int(filters or self.ch([2, 3]))
    elif self.p(0.3) and not same:
      kw["depth_multiplier"] = 2
    if self.p(0.2) and not same:
      kw["strides"] = 2
    return {"t": t, "kw": kw}

  def family_img(self):
    body = []
    n = int(self.rng.integers(2, 6))
    size = 6
    for _ in range(n):
      r = self.rng.random()
      if r < 0.5:
        c = self.conv2d_like()
        k, st = c["kw"]["kernel_size"], c["kw"].get("strides", 1)
        if c["kw"]["padding"] == "valid" and size - k + 1 < 1:
          c["kw"]["padding"] = "same"
        if c["kw"]["padding"] == "valid":
          size = size - k + 1
        size = -(-size // st)
        body.append(c)
      elif r < 0.62:
        size = -(-size // 2)
        body.append({"t": self.ch(["AveragePooling2D", "AveragePooling2D", "MaxPooling2D"]),
                     "kw": {"pool_size": 2, "padding": "same"}})
      else:
        body.append(self.shape_free())
    body.append({"t": self.ch(["GlobalAveragePooling2D", "Flatten", "GlobalAveragePooling2D"]), "kw": {}})
    body.append(self.dense())
    return {"input": [6, 6, 2], "body": body}

  def rnn(self, seq=True):
    t = self.ch(RNN)
    kw = {"units": int(self.ch([2, 3])), "use_bias": self.p(0.7), "return_sequences": bool(seq),
          "activation": self.ch(["tanh", "relu", "sigmoid", "tanh"])}
    if t == "GRU":
      # QGRUCell's reset_after path calls array_ops.unstack, which the pinned TensorFlow lacks
      kw["reset_after"] = False
    if t != "SimpleRNN" and self.p(0.4):
      kw["recurrent_activation"] = self.ch(["sigmoid", "hard_sigmoid"])
    return {"t": t, "kw": kw}

  def family_seq(self):
    body = []
    n = int(self.rng.integers(1, 4))
    size = 4
    for _ in range(n):
      r = self.rng.random()
      if r < 0.25:
        c = {"t": self.ch(["Conv1D", "SeparableConv1D"]),
             "kw": {"filters": int(self.ch([2, 3])), "kernel_size": int(self.ch([1, 2])),
                    "padding": self.ch(["same", "valid"]),
                    "use_bias": self.p(0.65), "activation": self.act_name()}}
        if c["kw"]["padding"] == "valid":
          if size - c["kw"]["kernel_size"] + 1 < 1:
            c["kw"]["padding"] = "same"
          else:
            size = size - c["kw"]["kernel_size"] + 1
        body.append(c)
      elif r < 0.6:
        body.append(self.rnn(True))
      elif r < 0.8:
        inner = self.rnn(True)
        b = {"t": "Bidirectional", "inner": inner, "kw": {"merge_mode": self.ch(["concat", "sum"])}}
        if self.p(0.3):
          back = copy.deepcopy(inner)
          back["kw"]["go_backwards"] = True
          b["backward"] = back
        body.append(b)
      else:
        body.append(self.shape_free())
    if self.p(0.5):
      body.append(self.rnn(False))
    else:
      body.append({"t": "Flatten", "kw": {}})
    body.append(self.dense())
    return {"input": [4, 3], "body": body}

  def model_spec(self):
    fam = self.ch(["vec", "vec", "img", "img", "seq"])
    m = {"vec": self.family_vec, "img": self.family_img, "seq": self.family_seq}[fam]()
    m["family"] = fam
    m["functional"] = self.p(0.6)
    # a branch / merge block for functional models: two shape-preserving arms after position k
    if m["functional"] and self.p(0.6):
      if fam == "vec":
        arms = [[self.dense(3)] + ([self.shape_free()] if self.p(0.5) else []), [self.dense(3)]]
      elif fam == "img":
        arms = [[self.conv2d_like(True, 2)], [self.conv2d_like(True, 2)] + ([self.shape_free()] if self.p(0.5) else [])]
        for a in arms:
          for l in a:
            if l["t"] == "DepthwiseConv2D":
              l["t"] = "Conv2D"
              l["kw"]["filters"] = 2
      else:
        arms = [[self.rnn(True)], [self.rnn(True)]]
        for a in arms:
          a[0]["kw"]["units"] = 2
      m["branch"] = {"at": 0, "arms": arms, "merge": self.ch(["Add", "Concatenate"])}
    # names (unique) for every layer incl. input, arms, inner rnn layers
    n_layers = 1 + len(m["body"]) + (sum(len(a) for a in m["branch"]["arms"]) + 1 if "branch" in m else 0)
    n_inner = sum((2 if "backward" in l else 1) for l in m["body"] if l["t"] == "Bidirectional")
    names = self.names(n_layers + n_inner)
    # frozen layers (trainable=False, e.g. a frozen feature extractor): their weights are all
    # non-trainable, and must be preserved / transferred like any others
    every = [l for a in m.get("branch", {}).get("arms", []) for l in a] + m["body"]
    for l in every:
      if self.p(0.15):
        l["kw"]["trainable"] = False
    it = iter(names)
    m["input_name"] = next(it)
    if "branch" in m:
      for a in m["branch"]["arms"]:
        for l in a:
          l["name"] = next(it)
      m["branch"]["name"] = next(it)
    for l in m["body"]:
      l["name"] = next(it)
      if l["t"] == "Bidirectional":
        l["inner"]["name"] = next(it)
        if "backward" in l:
          l["backward"]["name"] = next(it)
    return m


def build_layer(L, s):
  kw = dict(s["kw"])
  kw["name"] = s["name"]
  if s["t"] == "Bidirectional":
    inner = build_layer(L, s["inner"])
    if "backward" in s:
      kw["backward_layer"] = build_layer(L, s["backward"])
    return L.Bidirectional(inner, **kw)
  return getattr(L, s["t"])(**kw)


def build_model(keras, spec):
  L = keras.layers
  if not spec["functional"]:
    layers = [L.InputLayer(input_shape=tuple(spec["input"]), name=spec["input_name"])]
    layers += [build_layer(L, s) for s in spec["body"]]
    return keras.Sequential(layers, name="src")
  x = inp = L.Input(tuple(spec["input"]), name=spec["input_name"])
  if "branch" in spec:
    outs = []
    for arm in spec["branch"]["arms"]:
      y = x
      for s in arm:
        y = build_layer(L, s)(y)
      outs.append(y)
    x = getattr(L, spec["branch"]["merge"])(name=spec["branch"]["name"])(outs)
  for s in spec["body"]:
    x = build_layer(L, s)(x)
  return keras.Model(inp, x, name="src")


# ----------------------------------------------------------------------------------------------
# dictionaries

def gen_entry(g, cls, malformed_ok=True):
  """an entry that fits a layer of class `cls` (or, rarely, deliberately does not)"""
  k = kind_of(cls)
  if malformed_ok and g.p(0.03):
    return g.ch(["quantized_bits(4)", 3, ["quantized_bits(4)"], True]) if k not in ("act", "relu") else g.ch([3, True])
  if k == "conv":
    kk = "kernel_quantizer" if cls in DENSE_LIKE else "depthwise_quantizer"
    e = {}
    if g.p(0.85):
      e[kk] = g.ch(W_Q)
    if cls in SEPARABLE:
      # QSeparableConv1D/2D: depthwise_quantizer + pointwise_quantizer (the entries AutoQKeras writes);
      # `kernel_quantizer` is not a key of these classes and must not select or change anything
      if g.p(0.75):
        e["pointwise_quantizer"] = g.ch(W_Q + [None])
      if g.p(0.12):
        e["kernel_quantizer"] = g.ch(W_Q)
    if g.p(0.7):
      e["bias_quantizer"] = g.ch(W_Q + [None])
    if g.p(0.3):
      e["activation_quantizer"] = g.ch(A_Q + [""])
    return e
  if k == "rnn" or k == "bidir":
    e = {}
    if g.p(0.85):
      e["kernel_quantizer"] = g.ch(W_Q[:3] + W_Q[6:7])
    # (QGRUCell multiplies by the input kernel when recurrent_quantizer is None — a defect of the
    #  layer class, not of model_quantize — so GRU / Bidirectional entries are kept complete)
    if g.p(0.8) or (cls in ("GRU", "Bidirectional") and "kernel_quantizer" in e):
      e["recurrent_quantizer"] = g.ch(W_Q[:3])
    if g.p(0.7):
      e["bias_quantizer"] = g.ch(W_Q[:3])
    if g.p(0.25):
      e["state_quantizer"] = g.ch(W_Q[:2])
    if g.p(0.3):
      e["activation_quantizer"] = g.ch(["quantized_tanh(5)", "quantized_relu(4)", "quantized_bits(8,0,1)"])
    if g.p(0.3):
      e["recurrent_activation_quantizer"] = g.ch(["quantized_sigmoid(4)", "quantized_relu(4,0)"])
    return e
  if k in ("act", "relu"):
    r = g.rng.random()
    if r < 0.5:
      return g.ch(A_Q)
    if r < 0.55:
      return ""
    m = {}
    for a in ["relu", "tanh", "sigmoid", "leakyrelu", "softmax", "linear"]:
      if g.p(0.45):
        m[a] = g.ch(A_Q[:4] + [""]) if a != "leakyrelu" else g.ch(["quantized_relu(4,negative_slope=0.25)", "quantized_relu(6,2,negative_slope=0.125)"])
    return m
  if k == "bn":
    e = {}
    for q in ["gamma_quantizer", "beta_quantizer", "mean_quantizer", "variance_quantizer"]:
      if g.p(0.3):
        e[q] = g.ch(BN_Q if q != "variance_quantizer" else BN_Q[1:2])
    return e
  if k == "pool":
    e = {}
    if g.p(0.85):
      e["average_quantizer"] = g.ch(W_Q[:3])
    if g.p(0.3):
      e["activation_quantizer"] = g.ch(A_Q[:3])
    return e
  return {"kernel_quantizer": g.ch(W_Q)}


def flat_layers(spec):
  """(class, name) of every top-level layer in model order + inner rnn layers (marked)"""
  out = [("InputLayer", spec["input_name"], False)]
  if "branch" in spec:
    for a in spec["branch"]["arms"]:
      out += [(l["t"], l["name"], False) for l in a]
    out.append((spec["branch"]["merge"], spec["branch"]["name"], False))
  for l in spec["body"]:
    out.append((l["t"], l["name"], False))
    if l["t"] == "Bidirectional":
      out.append((l["inner"]["t"], l["inner"]["name"], True))
  return out


def gen_qc(g, spec, adaptive):
  qc = {}
  ls = flat_layers(spec)
  classes = sorted({c for c, _, inner in ls})
  for c in classes:
    for qk in qkeys_of(c):
      if qk == "QAdaptiveActivation":
        if adaptive and g.p(0.7):
          qc[qk] = g.ch(AD_Q)
        continue
      if g.p(0.55):
        qc[qk] = gen_entry(g, c)
  # class entries for classes that do not occur
  if g.p(0.25):
    c = g.ch(["Dense", "Conv2D", "LSTM", "AveragePooling2D", "Activation", "BatchNormalization"])
    for qk in qkeys_of(c)[:1]:
      qc.setdefault(qk, gen_entry(g, c, False))
  # name entries
  for c, n, inner in ls:
    if kind_of(c) == "other" and not g.p(0.1):
      continue
    if g.p(0.3):
      if g.p(0.1):
        qc[n] = None        # present with value None: hides the class entry
      else:
        qc[n] = gen_entry(g, c)
  if g.p(0.15):
    qc["no_such_layer"] = gen_entry(g, "Dense", False)
  if g.p(0.1):
    qc["default"] = {"kernel": "quantized_bits(4)", "bias": "quantized_bits(4)"}
  return qc


# ----------------------------------------------------------------------------------------------
# independent reading of the property on one source layer (clause oracle, Python side)

def entry_for(qc, name, qk):
  return qc[name] if name in qc else qc.get(qk)


ADAPTIVE_OK = re.compile(r"^(quantized_relu|quantized_bits)\(\d+\)$")


def well_formed(qc, layers, prefer=False):
  """the dictionary has, for every layer it selects, the shape the docstring prescribes"""
  adaptive = prefer or "QAdaptiveActivation" in qc
  for l in layers:
    cls, name = l["class_name"], l["config"]["name"]
    k = kind_of(cls)
    for qk in qkeys_of(cls):
      e = entry_for(qc, name, qk)
      if e is None:
        continue
      if k in ("conv", "rnn", "pool", "bn", "bidir"):
        if not isinstance(e, dict) or any(not (v is None or (isinstance(v, str) and v)) for v in e.values()):
          return False
      else:
        if isinstance(e, dict):
          if any(not (isinstance(v, str) and v) for v in e.values()):
            return False
        elif not (isinstance(e, str) and e):
          return False
        if k == "act" and adaptive:
          # QAdaptiveActivation takes "quantized_relu(<bits>)" / "quantized_bits(<bits>)" only
          vals = list(e.values()) if isinstance(e, dict) else [e]
          if any(not ADAPTIVE_OK.match(v) for v in vals):
            return False
  return True


def qact(a, bits):
  if a == "relu":
    return "quantized_relu(%s)" % bits
  if a == "tanh":
    return "quantized_tanh(%s)" % bits
  if a == "sigmoid":
    return "quantized_sigmoid(%s)" % bits
  return a


def expect_rnn(e, cfg, cls, bits):
  """quantizer keys an rnn layer gets from entry e (None => untouched)"""
  if not isinstance(e, dict) or e.get("kernel_quantizer") is None:
    return None
  out = {"kernel_quantizer": e["kernel_quantizer"], "recurrent_quantizer": e.get("recurrent_quantizer"),
         "bias_quantizer": e.get("bias_quantizer") if cfg["use_bias"] else None,
         "state_quantizer": e.get("state_quantizer"),
         "activation": e.get("activation_quantizer") or qact(cfg.get("activation"), bits)}
  if cls in ("LSTM", "GRU") and e.get("recurrent_activation_quantizer"):
    out["recurrent_activation"] = e["recurrent_activation_quantizer"]
  return out


def expected(l, qc, bits, prefer):
  """(expected class name, {config key: expected value}, deleted keys) or None when the layer is
  not selected and must be left as it was.  Only meaningful for well-formed dictionaries and
  without folding."""
  cls, cfg = l["class_name"], l["config"]
  name = cfg["name"]
  k = kind_of(cls)
  if k == "conv":
    e = entry_for(qc, name, "Q" + cls)
    kk = "kernel_quantizer" if cls in DENSE_LIKE else "depthwise_quantizer"
    if not isinstance(e, dict) or e.get(kk) is None:
      return None
    q = {kk: e[kk], "bias_quantizer": e.get("bias_quantizer") if cfg["use_bias"] else None,
         "activation": e.get("activation_quantizer") or qact(cfg.get("activation"), bits)}
    if cls in SEPARABLE:      # the quantized class takes a depthwise and a pointwise quantizer
      q["pointwise_quantizer"] = e.get("pointwise_quantizer")
    return ("Q" + cls, q, [])
  if k == "rnn":
    q = expect_rnn(entry_for(qc, name, "Q" + cls), cfg, cls, bits)
    return None if q is None else ("Q" + cls, q, [])
  if k == "bidir":
    # "The specified configuration will be used for both forward and backwards layer": each direction
    # is a layer of its own (own name, class, use_bias, activation) converted with the wrapper's entry
    e = entry_for(qc, name, "QBidirectional")
    sides = {}
    for side in ("layer", "backward_layer"):
      if side in cfg:
        inner = cfg[side]
        q = expect_rnn(e, inner["config"], inner["class_name"], bits)
        if q is None:
          return None
        sides[side] = ("Q" + inner["class_name"], q)
    return ("QBidirectional", {"__inner__": sides}, [])
  if k == "act":
    order = ["QAdaptiveActivation", "QActivation"] if prefer else ["QActivation", "QAdaptiveActivation"]
    for qk in order:
      e = entry_for(qc, name, qk)
      if e is not None:
        break
    else:
      return None
    if isinstance(e, dict):
      e = e.get(cfg["activation"])
      if not e:
        return None
    if qk == "QAdaptiveActivation":
      return (qk, {"activation": e.split("(")[0], "total_bits": int("".join(c for c in e if c.isdigit()))}, [])
    return (qk, {"activation": e}, [])
  if k == "relu":
    e = entry_for(qc, name, "QActivation")
    if e is None:
      return None
    slope = cfg["alpha"] if cls == "LeakyReLU" else cfg["negative_slope"]
    if isinstance(e, dict):
      e = e.get("leakyrelu" if slope > 0 else "relu")
      if not e:
        return None
    dels = ["alpha"] if cls == "LeakyReLU" else ["max_value", "negative_slope", "threshold"]
    return ("QActivation", {"activation": e}, dels)
  if k == "bn":
    if name not in qc and "QBatchNormalization" not in qc:
      return None
    e = entry_for(qc, name, "QBatchNormalization") or {}
    return ("QBatchNormalization", {q: e.get(q) for q in QKEYS["bn"]}, [])
  if k == "pool":
    e = entry_for(qc, name, "Q" + cls)
    if not isinstance(e, dict) or e.get("average_quantizer") is None:
      return None
    q = {"average_quantizer": e["average_quantizer"]}
    if e.get("activation_quantizer"):
      q["activation"] = e["activation_quantizer"]
    return ("Q" + cls, q, [])
  return None


def strip_reg(l):
  """a layer dict without a null `registered_name` (the loop pops it; Keras reads it with .get)"""
  l = dict(l)
  if l.get("registered_name", None) is None:
    l.pop("registered_name", None)
  return l


# ----------------------------------------------------------------------------------------------

class Env:
  """real-code side: patched capture points"""

  def __init__(self):
    import qkeras.utils as qu
    self.qu = qu
    self.orig_from_json = qu.quantized_model_from_json
    self.orig_fold = qu.convert_to_folded_model
    self.captured = None
    self.fold = None

    def from_json(json_string, custom_objects=None):
      self.captured = json.loads(json_string)
      return self.orig_from_json(json_string, custom_objects)

    def fold(model):
      r = self.orig_fold(model)
      self.fold = r
      self.captured = None      # convert_to_folded_model clones through quantized_model_from_json
      return r

    self._a, self._b = from_json, fold

  def __enter__(self):
    self.qu.quantized_model_from_json = self._a
    self.qu.convert_to_folded_model = self._b
    return self

  def __exit__(self, *a):
    self.qu.quantized_model_from_json = self.orig_from_json
    self.qu.convert_to_folded_model = self.orig_fold

  def reset(self):
    self.captured = None
    self.fold = None


def err_name(e):
  if isinstance(e, KeyError):
    return "KeyError:%s" % (e.args[0] if e.args else "")
  return type(e).__name__


def to_jsonable(cfg):
  """a layer config as Keras' own to_json would print it"""
  from tf_keras.src.saving.legacy.saved_model import json_utils
  return json.loads(json.dumps(cfg, default=json_utils.get_json_type))


def reference_config(qcls, cfg, qvals, dels):
  """config of the layer that the quantized class `qcls` itself builds from the source
  hyper-parameters plus the configured quantizer strings (the property's "quantizers that this
  quantized layer class builds from the configured strings")"""
  import qkeras
  c = {k: copy.deepcopy(v) for k, v in cfg.items() if k not in dels}
  for k, v in qvals.items():
    c[k] = v
  with contextlib.redirect_stdout(io.StringIO()):
    ref = getattr(qkeras, qcls).from_config(c)
  return to_jsonable(ref.get_config())


def run(run: core.Run, tier: str):
  core.assert_repo_import()
  import tensorflow as tf
  from tensorflow import keras
  from qkeras.utils import model_quantize  # noqa: F401  (looked up through the module below)
  import qkeras.utils as qu

  rng = np.random.default_rng(run.seed)
  g = Gen(rng)
  n_main = 130 if tier == "quick" else 900
  n_fold = 14 if tier == "quick" else 80
  run.extra["rule"] = (
      "model spec = random family (dense vector / 2-D conv / sequence-recurrent), sequential or "
      "functional with an optional two-arm branch merged by Add/Concatenate, layer names drawn from "
      "class-key-colliding names with prob 0.12; dictionary = per-class entries (p .55 per occurring "
      "class key), per-name entries (p .3 per layer, 10% of them None), partial entries, activation "
      "strings / maps, 3% malformed entries; activation_bits in {2,3,4,6,8}; transfer_weights, "
      "prefer_qadaptiveactivation random; separate stream with enable_bn_folding on Conv2D/Depthwise+BN "
      "models; wrapper stream (own generator): Bidirectional with the backward direction derived / "
      "explicit with its own name and the same or another use_bias, activation, class, units x the "
      "wrapper addressed by class entry / name entry / name None / only entries under the wrapped "
      "layers' names and classes / an entry without kernel_quantizer, each converted twice. "
      "non-trivial = distinct (model spec, dictionary, flags) whose conversion selected at "
      "least one layer or raised")

  cases = []
  for i in range(n_main):
    spec = g.model_spec()
    adaptive = g.p(0.25)
    flags = {"activation_bits": int(g.ch([2, 3, 4, 6, 8])), "transfer_weights": g.p(0.5),
             "prefer_qadaptiveactivation": bool(adaptive and g.p(0.6)), "enable_bn_folding": False}
    cases.append(("main", spec, gen_qc(g, spec, adaptive), flags))
  for i in range(n_fold):
    spec = fold_spec(g)
    flags = {"activation_bits": int(g.ch([4, 8])), "transfer_weights": g.p(0.5),
             "prefer_qadaptiveactivation": False, "enable_bn_folding": True}
    cases.append(("fold", spec, gen_fold_qc(g, spec), flags))
  cases += fixed_cases()
  n_bidir = len(cases)
  cases += bidir_cases(run.seed, tier)
  n_bidir = len(cases) - n_bidir

  results = []
  lines = []
  with Env() as env:
    for ci, (stream, spec, qc, flags) in enumerate(cases):
      keras.backend.clear_session()
      tf.random.set_seed(run.seed * 100003 + ci)
      try:
        model = build_model(keras, spec) if "custom" not in spec else build_custom(keras, spec)
      except Exception:  # pylint: disable=broad-except
        run.count("generator_spec_unbuildable")     # a spec Keras itself rejects (deterministic)
        continue
      randomize_weights(model, [run.seed, ci, 12])
      res = execute(env, qu, model, qc, flags)
      if stream == "bidir" and spec["bidir"][1] in ("class", "inner_only"):
        # history: the same source model and dictionary converted a second time in the same process
        # must give the same rewritten JSON and the same converted model
        res2 = execute(env, qu, model, qc, flags)
        res["repeat_same"] = all(res2.get(k) == res.get(k) for k in ("err", "captured", "qjm", "q_inner"))
      res.update({"stream": stream, "spec": spec, "qc": qc, "flags": flags, "ci": ci})
      lines.append({"op": "rewrite", "layers": res["src_layers"], "qc": qc,
                    "act_bits": str(flags["activation_bits"]),
                    "prefer_adaptive": flags["prefer_qadaptiveactivation"],
                    "folding": res["folding"], "to_fold": res["to_fold"]})
      results.append(res)
  outs = core.run_driver("C12", lines)

  for res, line, o in zip(results, lines, outs):
    judge(run, res, line, o)
  run.extra["streams"] = {"main": n_main, "fold": n_fold, "fixed": len(cases) - n_main - n_fold - n_bidir,
                          "bidir": n_bidir}


# ----------------------------------------------------------------------------------------------
# folding stream and fixed cases

def fold_spec(g):
  body = []
  for _ in range(int(g.rng.integers(1, 3))):
    c = g.conv2d_like()
    if c["t"] == "SeparableConv2D":
      c["t"] = "Conv2D"
    c["kw"]["activation"] = None
    body.append(c)
    if g.p(0.8):
      body.append({"t": "BatchNormalization", "kw": {}})
    if g.p(0.5):
      body.append({"t": "ReLU", "kw": {}})
  body.append({"t": "Flatten", "kw": {}})
  body.append(g.dense())
  m = {"input": [6, 6, 2], "body": body, "family": "fold", "functional": g.p(0.5)}
  names = g.names(1 + len(body))
  m["input_name"] = names[0]
  for l, n in zip(body, names[1:]):
    l["name"] = n
  return m


def gen_fold_qc(g, spec):
  qc = {}
  for c in ["Conv2D", "DepthwiseConv2D"]:
    kk = "depthwise_quantizer" if c == "DepthwiseConv2D" else "kernel_quantizer"
    e = {kk: g.ch(W_Q[:3]), "bias_quantizer": g.ch(W_Q[:3])}
    r = g.rng.random()
    if r < 0.4:
      qc["Q" + c + "Batchnorm"] = dict(e, **({"folding_mode": g.ch(["ema_stats_folding", "batch_stats_folding"])} if g.p(0.5) else {}),
                                       **({"ema_freeze_delay": int(g.ch([5, 10]))} if g.p(0.4) else {}))
    elif r < 0.8:
      qc["Q" + c] = e
    # else: not selected at all
  for l in spec["body"]:
    if l["t"] in ("Conv2D", "DepthwiseConv2D") and g.p(0.2):
      kk = "depthwise_quantizer" if l["t"] == "DepthwiseConv2D" else "kernel_quantizer"
      qc[l["name"]] = {kk: g.ch(W_Q[:3]), "bias_quantizer": g.ch(W_Q[:3])}
  if g.p(0.5):
    qc["QDense"] = {"kernel_quantizer": g.ch(W_Q[:3]), "bias_quantizer": g.ch(W_Q[:3])}
  if g.p(0.5):
    qc["QActivation"] = g.ch(A_Q[:2])
  return qc


# backward-layer variants x ways the dictionary addresses the wrapper: the lattice of the wrapper stream
BIDIR_BACK = ["default", "same", "other_bias", "other_act", "other_class", "other_units"]
BIDIR_SEL = ["class", "name"]
BIDIR_UNSEL = [("same", "name_none"), ("other_class", "inner_only"), ("same", "no_kernel"), ("default", "inner_only")]


def bidir_case(g, back, sel):
  """one model around a Bidirectional wrapper.  `back`: how the backward direction is given (default =
  derived by Keras from the forward layer; otherwise an explicit `backward_layer=` with its OWN name and
  the same / another use_bias, activation, class, number of units).  `sel`: how the dictionary
  addresses the wrapper (class entry / name entry beside a different class entry / name entry None /
  only entries under the wrapped layers' names and classes / an entry without kernel_quantizer)."""
  seq = g.p(0.6)
  inner = g.rnn(seq)
  merge = g.ch(["concat", "sum", "concat"])
  b = {"t": "Bidirectional", "inner": inner, "kw": {"merge_mode": merge}}
  if back != "default":
    bw = copy.deepcopy(inner)
    bw["kw"]["go_backwards"] = True
    if back == "other_bias":
      bw["kw"]["use_bias"] = not inner["kw"]["use_bias"]
    elif back == "other_act":
      bw["kw"]["activation"] = {"tanh": "relu", "relu": "sigmoid", "sigmoid": "tanh"}[inner["kw"]["activation"]]
    elif back == "other_class":
      bw["t"] = {"SimpleRNN": "LSTM", "LSTM": "GRU", "GRU": "SimpleRNN"}[inner["t"]]
      bw["kw"].pop("recurrent_activation", None)
      bw["kw"].pop("reset_after", None)
      if bw["t"] == "GRU":
        bw["kw"]["reset_after"] = False
    elif back == "other_units":
      bw["kw"]["units"] = inner["kw"]["units"] + 1
      b["kw"]["merge_mode"] = "concat"
    b["backward"] = bw
  body = []
  if g.p(0.3):
    body.append(g.rnn(True))
  body.append(b)
  if seq and g.p(0.5):
    # a second wrapper of the other form in the same model
    b2 = {"t": "Bidirectional", "inner": g.rnn(g.p(0.5)), "kw": {"merge_mode": "concat"}}
    if back == "default":
      bw2 = copy.deepcopy(b2["inner"])
      bw2["kw"]["go_backwards"] = True
      b2["backward"] = bw2
    body.append(b2)
    seq = b2["inner"]["kw"]["return_sequences"]
  if seq:
    body.append(g.rnn(False) if g.p(0.5) else {"t": "Flatten", "kw": {}})
  body.append(g.dense())
  m = {"input": [4, 3], "body": body, "family": "bidir", "functional": g.p(0.5), "bidir": [back, sel]}
  n_inner = sum((2 if "backward" in l else 1) for l in body if l["t"] == "Bidirectional")
  it = iter(g.names(1 + len(body) + n_inner))
  m["input_name"] = next(it)
  for l in body:
    l["name"] = next(it)
    if l["t"] == "Bidirectional":
      l["inner"]["name"] = next(it)
      if "backward" in l:
        l["backward"]["name"] = next(it)
  # dictionary
  qc = {}
  wname = b["name"]
  if sel in ("class", "name", "name_none"):
    e = gen_entry(g, "Bidirectional", False)
    e["kernel_quantizer"] = g.ch(W_Q[:3] + W_Q[6:7])
    e.setdefault("recurrent_quantizer", g.ch(W_Q[:3]))
    e.setdefault("bias_quantizer", g.ch(W_Q[:3]))       # so that bias-less directions show
    qc["QBidirectional"] = e
  if sel == "name":
    e2 = gen_entry(g, "Bidirectional", False)
    e2["kernel_quantizer"] = g.ch([q for q in W_Q[:3] if q != qc["QBidirectional"]["kernel_quantizer"]])
    e2.setdefault("recurrent_quantizer", g.ch(W_Q[:3]))
    e2["bias_quantizer"] = g.ch(W_Q[:3])
    qc[wname] = e2
  elif sel == "name_none":
    qc[wname] = None
  elif sel == "no_kernel":
    qc[g.ch([wname, "QBidirectional"])] = {"recurrent_quantizer": g.ch(W_Q[:3]), "bias_quantizer": g.ch(W_Q[:3])}
  # entries under the wrapped layers' own names and classes: they address no top-level layer of
  # that name, and must not reach into the wrapper (with p .75 each; always for `inner_only`)
  for l in body:
    if l["t"] != "Bidirectional":
      continue
    for part in [l["inner"]] + ([l["backward"]] if "backward" in l else []):
      if sel == "inner_only" or g.p(0.4):
        qc.setdefault(part["name"], gen_entry(g, part["t"], False))
      # the name Keras gives the live object
      if g.p(0.2):
        qc.setdefault(("forward_" if part is l["inner"] else "backward_") + part["name"],
                      gen_entry(g, part["t"], False))
      if sel == "inner_only" or g.p(0.4):
        qc.setdefault("Q" + part["t"], gen_entry(g, part["t"], False))
  if g.p(0.5):
    qc["QDense"] = gen_entry(g, "Dense", False)
  flags = {"activation_bits": int(g.ch([2, 3, 4, 6, 8])), "transfer_weights": g.p(0.6),
           "prefer_qadaptiveactivation": False, "enable_bn_folding": False}
  return ("bidir", m, qc, flags)


def bidir_cases(seed, tier):
  """the wrapper stream: every backward-layer variant x {class entry, name entry} selected, plus the
  unselected forms; own generator, so the other streams do not move"""
  g = Gen(np.random.default_rng([seed, 1210]))
  out = []
  for rep in range(1 if tier == "quick" else 4):
    for back in BIDIR_BACK:
      for sel in BIDIR_SEL:
        out.append(bidir_case(g, back, sel))
    for back, sel in BIDIR_UNSEL:
      out.append(bidir_case(g, back, sel))
  return out


def fixed_cases():
  """deterministic cases aimed at single branches (always run)"""
  fl = {"activation_bits": 4, "transfer_weights": True, "prefer_qadaptiveactivation": False,
        "enable_bn_folding": False}
  out = []
  # name entry beats class entry, with different values; biasless dense
  spec = {"input": [4], "family": "vec", "functional": True, "input_name": "in0", "body": [
      {"t": "Dense", "name": "d0", "kw": {"units": 3, "use_bias": False, "activation": "relu"}},
      {"t": "Dense", "name": "d1", "kw": {"units": 2, "use_bias": True, "activation": "tanh"}},
      {"t": "Activation", "name": "QDense", "kw": {"activation": "sigmoid"}}]}
  qc = {"QDense": {"kernel_quantizer": "quantized_bits(4,0,1)", "bias_quantizer": "quantized_bits(4)"},
        "d1": {"kernel_quantizer": "ternary()", "bias_quantizer": "quantized_bits(8,2,1)",
               "activation_quantizer": "quantized_tanh(5)"},
        "QActivation": {"sigmoid": "quantized_sigmoid(4)"}}
  out.append(("fixed", spec, qc, dict(fl)))
  # LeakyReLU selected by a plain QActivation string
  spec = {"input": [4], "family": "vec", "functional": False, "input_name": "in0", "body": [
      {"t": "Dense", "name": "d0", "kw": {"units": 3, "use_bias": True, "activation": None}},
      {"t": "LeakyReLU", "name": "lr", "kw": {}},
      {"t": "Dense", "name": "d1", "kw": {"units": 2, "use_bias": True, "activation": None}}]}
  out.append(("fixed", spec, {"QActivation": "quantized_relu(4)"}, dict(fl)))
  out.append(("fixed", spec, {"QActivation": {"relu": "quantized_relu(4)"}}, dict(fl)))
  # Bidirectional not selected by anything
  spec = {"input": [4, 3], "family": "seq", "functional": True, "input_name": "in0", "body": [
      {"t": "Bidirectional", "name": "bi", "kw": {"merge_mode": "concat"},
       "inner": {"t": "LSTM", "name": "ls", "kw": {"units": 2, "use_bias": True, "return_sequences": False}}},
      {"t": "Dense", "name": "d1", "kw": {"units": 2, "use_bias": True, "activation": None}}]}
  out.append(("fixed", spec, {"QDense": {"kernel_quantizer": "quantized_bits(4,0,1)"}}, dict(fl)))
  out.append(("fixed", spec, {"bi": {"kernel_quantizer": "quantized_bits(4,0,1)",
                                      "recurrent_quantizer": "quantized_bits(4,0,1)",
                                      "bias_quantizer": "quantized_bits(4)"}}, dict(fl)))
  # layers with a registered (custom) class name next to converted layers, and with nothing selected
  for first in (False, True):
    out.append(("fixed", {"custom": True, "first": first, "family": "custom", "functional": True},
                {"QDense": {"kernel_quantizer": "quantized_bits(4,0,1)"}}, dict(fl)))
  out.append(("fixed", {"custom": True, "first": True, "family": "custom", "functional": True}, {}, dict(fl)))
  # separable convolutions: the entry AutoQKeras writes (class entry / name entry, bias-less), an
  # entry with the depthwise quantizer only, and a `kernel_quantizer`-only entry (selects nothing)
  sep_e = {"depthwise_quantizer": "quantized_bits(4,0,1)", "pointwise_quantizer": "quantized_bits(3,0,1)",
           "bias_quantizer": "quantized_bits(4)"}
  spec = {"input": [6, 6, 2], "family": "img", "functional": True, "input_name": "in0", "body": [
      {"t": "SeparableConv2D", "name": "s0", "kw": {"filters": 2, "kernel_size": 2, "use_bias": True,
                                                     "activation": "relu", "padding": "same"}},
      {"t": "SeparableConv2D", "name": "s1", "kw": {"filters": 3, "kernel_size": 1, "use_bias": False,
                                                     "activation": None, "padding": "valid"}},
      {"t": "Flatten", "name": "fl", "kw": {}},
      {"t": "Dense", "name": "d1", "kw": {"units": 2, "use_bias": True, "activation": None}}]}
  out.append(("fixed", spec, {"QSeparableConv2D": sep_e}, dict(fl)))
  out.append(("fixed", spec, {"s1": dict(sep_e, activation_quantizer="quantized_relu(6,2)"),
                              "QSeparableConv2D": {"depthwise_quantizer": "ternary()"}}, dict(fl)))
  out.append(("fixed", spec, {"QSeparableConv2D": {"kernel_quantizer": "quantized_bits(4,0,1)"}}, dict(fl)))
  spec = {"input": [4, 3], "family": "seq", "functional": False, "input_name": "in0", "body": [
      {"t": "SeparableConv1D", "name": "s0", "kw": {"filters": 2, "kernel_size": 2, "use_bias": True,
                                                     "activation": "tanh", "padding": "same"}},
      {"t": "Flatten", "name": "fl", "kw": {}},
      {"t": "Dense", "name": "d1", "kw": {"units": 2, "use_bias": True, "activation": None}}]}
  out.append(("fixed", spec, {"QSeparableConv1D": sep_e}, dict(fl)))
  return out


def randomize_weights(model, seed_seq):
  """a "trained" source model: no weight of any layer (trainable or not: kernels, biases, BN affine
  parameters and moving statistics, recurrent kernels) is left at the value a fresh layer of the
  same configuration would start from.  Values in [0.25, 0.75] (valid for variances)."""
  rng = np.random.default_rng(seed_seq)
  for layer in model.layers:
    ws = layer.get_weights()
    if ws:
      layer.set_weights([rng.uniform(0.25, 0.75, size=w.shape).astype(w.dtype) for w in ws])


def build_custom(keras, spec):
  L = keras.layers

  @keras.saving.register_keras_serializable(package="qkv")
  class Twice(L.Layer):
    def call(self, x):
      return x * 2.0

  x = i = L.Input((4,), name="in0")
  if spec["first"]:
    x = Twice(name="tw")(x)
    x = L.Dense(3, name="d1")(x)
  else:
    x = L.Dense(3, name="d1")(x)
    x = Twice(name="tw")(x)
  return keras.Model(i, x, name="src")


# ----------------------------------------------------------------------------------------------

def execute(env, qu, model, qc, flags):
  """run the real model_quantize, capturing what the rewriting produced"""
  src_json = model.to_json()
  src_weights = [np.array(w) for w in model.get_weights()]
  qc_before = copy.deepcopy(qc)
  co = {"marker": "caller-owned"}
  co_before = copy.deepcopy(co)
  env.reset()
  res = {"err": None, "stage": None, "qmodel": None, "base": None}
  try:
    with contextlib.redirect_stdout(io.StringIO()):     # QAdaptiveActivation prints warnings
      qm = qu.model_quantize(model, qc, flags["activation_bits"], custom_objects=co,
                             transfer_weights=flags["transfer_weights"],
                             prefer_qadaptiveactivation=flags["prefer_qadaptiveactivation"],
                             enable_bn_folding=flags["enable_bn_folding"])
    res["qmodel"] = qm
  except Exception as e:  # pylint: disable=broad-except
    res["err"] = err_name(e)
    res["err_msg"] = str(e)[:300]
    res["err_full"] = str(e)
    if env.captured is not None:
      res["stage"] = "deserialize"
    elif flags["enable_bn_folding"] and env.fold is None:
      res["stage"] = "fold"
    else:
      res["stage"] = "rewrite"
  # the model whose JSON is rewritten
  if flags["enable_bn_folding"] and env.fold is not None:
    base, to_fold = env.fold
    res["folding"] = len(to_fold) > 0
    res["to_fold"] = list(to_fold)
  else:
    base = model
    res["folding"] = False
    res["to_fold"] = []
  res["base"] = base
  res["src_jm"] = json.loads(base.to_json())
  res["src_layers"] = res["src_jm"]["config"]["layers"]
  res["captured"] = env.captured
  # non-mutation evidence
  res["src_json_same"] = (model.to_json() == src_json)
  after = model.get_weights()
  res["src_weights_same"] = (len(after) == len(src_weights) and
                             all(np.array_equal(a, b) for a, b in zip(after, src_weights)))
  res["qc_same"] = (qc == qc_before and json.dumps(qc, sort_keys=True, default=str) ==
                    json.dumps(qc_before, sort_keys=True, default=str))
  res["co_same"] = (co == co_before)
  # everything the judge needs from the live objects (they are dropped afterwards)
  res["base_names"] = [l.name for l in base.layers]
  res["base_shapes"] = [str(l.output_shape) for l in base.layers]
  qm = res.pop("qmodel")
  res.pop("base")
  res["converted"] = qm is not None
  if qm is not None:
    res["qjm"] = json.loads(qm.to_json())
    res["q_names"] = [l.name for l in qm.layers]
    res["q_shapes"] = [str(l.output_shape) for l in qm.layers]
    res["q_types"] = {l.name: type(l).__name__ for l in qm.layers}
    # every weight of every layer, trainable and non-trainable (get_weights() = trainable_weights +
    # non_trainable_weights, wrapped layers included), by position
    wc = []
    for bl, ql in zip(base.layers, qm.layers):
      a = bl.get_weights()
      if a:
        b = ql.get_weights()
        same = len(a) == len(b) and all(x.shape == y.shape and np.array_equal(x, y) for x, y in zip(a, b))
        wc.append((type(bl).__name__, same, len(bl.trainable_weights), len(bl.non_trainable_weights)))
    res["weights_cmp"] = wc
    # the live wrapped layers of every (Q)Bidirectional: with the default (derived) backward layer the
    # JSON has no `backward_layer` entry, so only the runtime objects show what the backward direction is
    res["src_inner"] = {bl.name: inner_view(bl) for bl in base.layers if hasattr(bl, "forward_layer")}
    res["q_inner"] = {ql.name: inner_view(ql) for ql in qm.layers if hasattr(ql, "forward_layer")}
  return res


def inner_view(wrapper):
  out = {}
  for side, x in (("layer", wrapper.forward_layer), ("backward_layer", wrapper.backward_layer)):
    c = to_jsonable(x.get_config())
    out[side] = {"class": type(x).__name__, "quant": {k: c.get(k, "<absent>") for k in QKEYS["rnn"]},
                 "go_backwards": c.get("go_backwards"), "units": c.get("units")}
  return out


def sel_summary(src_layers, qc):
  """which layer classes are selected (by name / by class) — for keys and the histogram"""
  out = []
  for l in src_layers:
    cls, name = l["class_name"], l["config"].get("name")
    how = None
    if name in qc:
      how = "name"
    elif any(k in qc for k in qkeys_of(cls)):
      how = "class"
    out.append((cls, name, how))
  return out


def judge(run, res, line, o):
  spec, qc, flags = res["spec"], res["qc"], res["flags"]
  src_layers = res["src_layers"]
  bits = str(flags["activation_bits"])
  sel = sel_summary(src_layers, qc)
  wf = well_formed(qc, src_layers, flags["prefer_qadaptiveactivation"])
  case_id = {"stream": res["stream"], "ci": res["ci"]}
  sample = {"spec": spec, "qc": qc, "flags": flags}
  detail = {"spec": spec, "qc": qc, "flags": flags, "layers": [(c, n) for c, n, _ in sel],
            "replay": "build the model of `spec` (harness/qkv/props/c12.py build_model) and call "
                      "qkeras.utils.model_quantize(model, qc, **flags)"}
  run.count("stream_" + res["stream"])
  run.count("functional" if spec.get("functional") else "sequential")
  run.count("wellformed_dict" if wf else "malformed_dict")

  # ---- correspondence: rewriting result / error kind
  impl_layers = res["captured"]["config"]["layers"] if res["captured"] is not None else None
  mirrored = True
  run.compared += 1
  if res["stage"] == "fold":
    run.count("fold_stage_error")
    run.case(json.dumps(sample, sort_keys=True, default=str), nontrivial=False)
    return
  if impl_layers is None:
    impl_view = {"err": res["err"]}
    if o.get("err") != res["err"]:
      mirrored = False
      run.disagree("rewrite-error", {"case": case_id, "line": line}, impl_view, o)
    run.count("err_" + str(res["err"]))
  else:
    if "err" in o:
      mirrored = False
      run.disagree("rewrite", {"case": case_id, "line": line}, {"layers": "ok"}, o)
    else:
      ml = o["layers"]
      if len(ml) != len(impl_layers):
        mirrored = False
        run.disagree("rewrite", {"case": case_id, "line": line}, {"n": len(impl_layers)}, {"n": len(ml)})
      else:
        for i, (a, b) in enumerate(zip(impl_layers, ml)):
          if a != b:
            mirrored = False
            run.disagree("rewrite", {"case": case_id, "layer": i, "src": src_layers[i], "qc": qc,
                                     "flags": flags}, a, b)
            break
  n_changed = 0
  if impl_layers is not None:
    for s, a in zip(src_layers, impl_layers):
      if strip_reg(s) != strip_reg(a):
        n_changed += 1
        run.count("rewritten_" + s["class_name"])
      else:
        run.count("kept_" + s["class_name"])
  run.case(json.dumps(sample, sort_keys=True, default=str),
           nontrivial=(n_changed > 0 or res["err"] is not None), sample=sample)
  for c, n, how in sel:
    if how:
      run.count("selected_by_%s" % how)

  # ---- clause oracle on the real behaviour -----------------------------------------------
  # purity
  for k, what in (("src_json_same", "source model config"), ("src_weights_same", "source model weights"),
                  ("qc_same", "quantizer_config"), ("co_same", "custom_objects")):
    if not res[k]:
      run.violate("not_modified", {"what": what}, detail, mirrored=False)

  if res.get("repeat_same") is False:
    run.violate("repeatable", {"what": "second conversion of the same model and dictionary differs"}, detail,
                mirrored=False)
  if "bidir" in spec:
    run.count("bidir_back_%s_sel_%s" % tuple(spec["bidir"]))
  has_leaky_sel = any(c == "LeakyReLU" and how for c, n, how in sel)
  if res["err"] is not None:
    if wf:
      key = {"stage": res["stage"], "error": res["err"], "folding": bool(res["folding"]),
             "leakyrelu_selected": has_leaky_sel,
             "custom_registered": any(l.get("registered_name") for l in src_layers)}
      mm = re.search(r"deserializing class '([A-Za-z0-9_]+)'", res.get("err_msg") or "")
      key["deser_class"] = mm.group(1) if mm else None
      if res["stage"] == "deserialize" and "array_ops' has no attribute 'unstack'" in (res.get("err_full") or ""):
        # QGRUCell.call uses array_ops.unstack, which the pinned TensorFlow no longer has: the
        # converted layer cannot be built in this sandbox whatever model_quantize does
        run.count("env_qgru_unbuildable")
        return
      if res["stage"] == "deserialize" and impl_layers is not None:
        # which unconverted layer carries keys its class cannot take?
        bad = [s["class_name"] for s, a in zip(src_layers, impl_layers)
               if a["class_name"] == s["class_name"] and set(a["config"]) - set(s["config"])]
        key["unconverted_with_new_keys"] = sorted(set(bad))
        key["registered_name_changed"] = any(
            s.get("registered_name") and a.get("registered_name") != s.get("registered_name")
            for s, a in zip(src_layers, impl_layers))
      run.violate("converts", key, dict(detail, error=res["err"], message=res.get("err_msg")), mirrored=mirrored)
    return

  qjm = res["qjm"]
  qj_layers = qjm["config"]["layers"]
  # topology / names / shapes
  if (len(res["q_names"]) != len(res["base_names"]) or len(impl_layers) != len(src_layers)
      or len(qj_layers) != len(src_layers)):
    run.violate("topology", {"what": "layer count"}, detail, mirrored=mirrored)
    return
  if res["q_names"] != res["base_names"]:
    run.violate("topology", {"what": "layer names/order"}, detail, mirrored=mirrored)
  if [s.get("inbound_nodes") for s in src_layers] != [s.get("inbound_nodes") for s in qj_layers]:
    run.violate("topology", {"what": "inbound_nodes"}, detail, mirrored=mirrored)
  if res["q_shapes"] != res["base_shapes"]:
    run.violate("topology", {"what": "output shapes"}, detail, mirrored=mirrored)
  rest_src = {k: v for k, v in res["src_jm"]["config"].items() if k != "layers"}
  rest_out = {k: v for k, v in res["captured"]["config"].items() if k != "layers"}
  if rest_src != rest_out:
    run.violate("topology", {"what": "model-level config"}, detail, mirrored=mirrored)

  # weights
  if flags["transfer_weights"] and not res["folding"]:
    for lcls, same, n_tr, n_ntr in res["weights_cmp"]:
      run.count("weights_transferred_layers")
      run.count("weights_transferred_tensors_trainable", n_tr)
      run.count("weights_transferred_tensors_non_trainable", n_ntr)
      if n_tr == 0:
        run.count("weights_transferred_layers_without_trainable_weights")
      if not same:
        run.violate("transfer_weights", {"what": "weights differ", "layer_class": lcls,
                                         "has_trainable_weights": n_tr > 0}, detail, mirrored=False)

  if not wf or res["folding"]:
    run.count("clauses_skipped_malformed_or_folding")
    return

  by_name = res["q_types"]
  for i, (s, a, qj) in enumerate(zip(src_layers, impl_layers, qj_layers)):
    cls, cfg = s["class_name"], s["config"]
    ql = by_name.get(cfg["name"])
    if ql is None:        # the InputLayer of a Sequential model is in the JSON only
      if cls != "InputLayer":
        run.violate("topology", {"what": "layer missing in converted model"}, detail, mirrored=mirrored)
      continue
    exp = expected(s, qc, bits, flags["prefer_qadaptiveactivation"])
    lkey = {"layer_class": cls}
    ldet = dict(detail, layer=i, name=cfg["name"], src=s, out=a)
    if exp is None:
      run.count("clause_untouched")
      if strip_reg(a) != strip_reg(s):
        ch = "class_name->%s" % a["class_name"] if a["class_name"] != cls else "config"
        run.violate("untouched", dict(lkey, changed=ch,
                                      registered=bool(s.get("registered_name"))), ldet, mirrored=mirrored)
      elif ql != cls:
        run.violate("untouched", dict(lkey, changed="runtime class %s" % ql), ldet,
                    mirrored=mirrored)
      elif cls == "Bidirectional":
        sv, qv = res["src_inner"].get(cfg["name"], {}), res["q_inner"].get(cfg["name"], {})
        for side in ("layer", "backward_layer"):
          if sv.get(side) != qv.get(side):
            run.violate("untouched", dict(lkey, changed="runtime %s" % side), dict(ldet, src=sv, got=qv),
                        mirrored=mirrored)
      continue
    qcls, qvals, dels = exp
    run.count("clause_selected_" + kind_of(cls))
    if ql != qcls or a["class_name"] != qcls:
      run.violate("selected_class", dict(lkey, got=ql), ldet, mirrored=mirrored)
      continue
    written = set(QKEYS[kind_of(cls)])
    check_quant(run, lkey, ldet, mirrored, qcls, cfg, a["config"], qj["config"], qvals, dels)
    if cls == "Bidirectional":
      # runtime: both live directions are the quantized class; a derived backward layer carries the
      # quantizers of the forward layer it is derived from, reversed
      sides = qvals["__inner__"]
      qv = res["q_inner"].get(cfg["name"], {})
      want_b = sides.get("backward_layer", sides["layer"])[0]
      for side, want in (("layer", sides["layer"][0]), ("backward_layer", want_b)):
        got = qv.get(side, {}).get("class")
        if got != want:
          run.violate("selected_class", dict(lkey, inner=side, where="runtime",
                                             explicit_backward="backward_layer" in cfg, got=got),
                      dict(ldet, expected=want, runtime=qv), mirrored=mirrored)
      if "backward_layer" not in cfg and qv and qv["layer"]["class"] == qv["backward_layer"]["class"]:
        run.count("clause_selected_bidir_derived_backward")
        if qv["layer"]["quant"] != qv["backward_layer"]["quant"]:
          run.violate("selected_quantizer", dict(lkey, inner="derived backward_layer", where="runtime"),
                      dict(ldet, runtime=qv), mirrored=mirrored)
        if qv["backward_layer"]["go_backwards"] == qv["layer"]["go_backwards"]:
          run.violate("hyperparams", dict(lkey, inner="derived backward_layer", key="go_backwards",
                                          where="runtime"), dict(ldet, runtime=qv), mirrored=mirrored)
    # hyper-parameters: everything outside the quantizer keys is what it was
    for k, v in cfg.items():
      if k in written or k in dels:   # the ReLU-specific keys are removed on purpose (checked below)
        continue
      if a["config"].get(k, "<absent>") != v:
        run.violate("hyperparams", dict(lkey, key=k, where="rewritten json"), ldet, mirrored=mirrored)
      if k not in QCLASS_OWN and qj["config"].get(k, "<absent>") != v:
        run.violate("hyperparams", dict(lkey, key=k, where="converted model"), ldet, mirrored=mirrored)
    for k in dels:
      if k in a["config"]:
        run.violate("hyperparams", dict(lkey, key=k, where="not deleted"), ldet, mirrored=mirrored)


def check_quant(run, lkey, ldet, mirrored, qcls, cfg, acfg, qcfg, qvals, dels):
  """quantizer keys: the rewritten JSON carries the configured string (name entry before class
  entry, None for bias-less layers); the converted layer carries what the Q class builds from it"""
  qvals = dict(qvals)
  inner = qvals.pop("__inner__", None)
  if inner is not None:
    # a wrapper: the explicit backward layer exists afterwards iff it existed before, and every
    # direction is judged as a recurrent layer of its own
    for side in ("layer", "backward_layer"):
      for where, c in (("rewritten json", acfg), ("converted model", qcfg)):
        if (side in c) != (side in cfg):
          run.violate("hyperparams", dict(lkey, key=side, where=where,
                                          what="appeared" if side in c else "dropped"), ldet, mirrored=mirrored)
    for side, (icls, iq) in inner.items():
      if side not in acfg or side not in qcfg:
        continue
      skey = dict(lkey, inner=side, inner_class=cfg[side]["class_name"],
                  own_name=cfg[side]["config"]["name"] != cfg["layer"]["config"]["name"])
      if acfg[side]["class_name"] != icls or qcfg[side]["class_name"] != icls:
        run.violate("selected_class", dict(skey, got=acfg[side]["class_name"]),
                    dict(ldet, expected=icls, got_json=acfg[side]["class_name"],
                         got_model=qcfg[side]["class_name"]), mirrored=mirrored)
        continue
      run.count("clause_selected_bidir_" + side)
      icfg = cfg[side]["config"]
      check_quant(run, skey, ldet, mirrored, icls, icfg, acfg[side]["config"], qcfg[side]["config"], iq, [])
      # hyper-parameters of the wrapped layer (name, units, go_backwards, return_sequences, ...)
      for k, v in icfg.items():
        if k in QKEYS["rnn"]:
          continue
        if acfg[side]["config"].get(k, "<absent>") != v:
          run.violate("hyperparams", dict(skey, key=k, where="rewritten json"), ldet, mirrored=mirrored)
        if k not in QCLASS_OWN and qcfg[side]["config"].get(k, "<absent>") != v:
          run.violate("hyperparams", dict(skey, key=k, where="converted model"), ldet, mirrored=mirrored)
    return
  bad = False
  for k, v in qvals.items():
    if acfg.get(k, "<absent>") != v:
      clause = "biasless" if (k == "bias_quantizer" and not cfg.get("use_bias", True)) else "selected_quantizer"
      run.violate(clause, dict(lkey, key=k, where="rewritten json"), dict(ldet, expected=v), mirrored=mirrored)
      bad = True
  if bad:
    return
  try:
    ref = reference_config(qcls, cfg, qvals, dels)
  except Exception as e:  # pylint: disable=broad-except
    run.count("reference_layer_unbuildable")
    return
  for k in qvals:
    if qcfg.get(k, "<absent>") != ref.get(k, "<absent>"):
      clause = "biasless" if (k == "bias_quantizer" and not cfg.get("use_bias", True)) else "selected_quantizer"
      run.violate(clause, dict(lkey, key=k, where="converted model"),
                  dict(ldet, expected=ref.get(k), got=qcfg.get(k)), mirrored=mirrored)
  if "use_bias" in cfg and not cfg["use_bias"] and qcfg.get("bias_quantizer", None) is not None:
    run.violate("biasless", dict(lkey, key="bias_quantizer", where="converted model"), ldet, mirrored=mirrored)
