"""C18 — bit widths reported for a concrete model bound the values it really produces
(DESIGN.md §4 C18).

Three streams, all on REAL qkeras objects, on every analysis ROUTE (is_inference False / True with re-quantized or
stored constants / False again on the same model):
  types  : random small quantized chains -> QTools(...)._layer_map vs the Lean `chainTypes` / `chainTypesInf`
  values : the same models are RUN (layer by layer, eagerly) on random and extremal inputs; every
           layer input, effective weight, bias, pre-activation and activation value is judged by
           the Lean `Val` predicate of the type the REAL qtools reported for it
  est    : analyze_accumulator(model, ranges) vs the Lean `analyzeAccumulator`, and vs the measured
           max |output| on extremal inputs inside the range
"""
import contextlib
import io
import json
import os

import numpy as np

from .. import core, qtypes
from .c16 import conv_case

INTERM = "quantized_bits(8, 0, 1)"     # config_public default_interm_quantizer after cfg.update
PO2_MAX_VALUES = [1.5, 3.0, 5.0, 6.0]  # non-power-of-two po2 max_value: frac(log2) >= 1/2 (1.5, 3, 6) and < 1/2 (5)


# --------------------------------------------------------------------------- quantizer specs

@contextlib.contextmanager
def quiet():
  """qkeras prints progress / warnings to stdout and stderr; keep the check's output clean"""
  with open(os.devnull, "w") as dn, contextlib.redirect_stdout(io.StringIO()), contextlib.redirect_stderr(dn):
    yield


def mk(spec):
  """spec = (class name, kwargs) -> fresh qkeras quantizer object.  The reserved key `_form` selects the ARGUMENT FORM
  of the numeric options (same values): "np" = np.int64 / np.float32 scalars, "arr" = 0-d arrays / np.float64"""
  if spec is None:
    return None
  from qkeras import quantizers as Q
  kw = {k: v for k, v in spec[1].items() if k != "_form"}
  form = spec[1].get("_form")
  if form:
    for k, v in list(kw.items()):
      if isinstance(v, bool) or v is None or isinstance(v, str):
        continue
      if isinstance(v, int):
        if form in ("np", "arr"):
          kw[k] = np.int64(v) if form == "np" else np.array(v, dtype=np.int32)
      elif isinstance(v, float):
        kw[k] = np.float32(v) if form.startswith("np") else np.array(v, dtype=np.float64)
  return getattr(Q, spec[0])(**kw)


def label(spec):
  if spec is None:
    return "None"
  return "%s(%s)" % (spec[0], ",".join("%s=%s" % kv for kv in sorted(spec[1].items())))


def with_form(rng, spec, p=0.2, ints=True):
  """a seeded fraction of the quantizers is built from numpy scalars / 0-d arrays instead of python numbers.
  `ints=False` (kernel / bias quantizers): only the float options — qlayers.QInitializer computes
  `2**-quantizer.bits`, which numpy refuses for an np.int64 `bits` (layer construction fails; outside C18's anchors,
  see notes/C18.md)"""
  if spec is None or rng.random() >= p:
    return spec
  return (spec[0], dict(spec[1], _form=["np", "arr"][int(rng.integers(0, 2))] + ("" if ints else "f")))


def qk_json(q):
  """the Lean QKerasQ of a real quantizer object (what convert_qkeras_quantizer reads)"""
  if q is None:
    return None
  d = conv_case("", q)
  d.pop("op")
  return d


def qb(bits, integer, symmetric=0, keep_negative=True, alpha=1):
  kw = dict(bits=bits, integer=integer, symmetric=symmetric, keep_negative=keep_negative)
  if alpha is not None:
    kw["alpha"] = alpha
  return ("quantized_bits", kw)


def weight_specs(rng, want):
  """weight quantizer spec of the requested kind; a tuple (class name, kwargs) is an explicit spec"""
  if isinstance(want, tuple):
    return (want[0], dict(want[1]))
  if want == "fixed":
    return qb(int(rng.choice([2, 3, 4])), int(rng.choice([0, 0, 1])), symmetric=int(rng.integers(0, 2)))
  if want == "fixed_mostneg":
    return qb(int(rng.choice([2, 3])), 0, symmetric=0)
  if want == "fixed40":
    return qb(4, 0, symmetric=0)
  if want == "ternary":
    return ("ternary", dict(alpha=1))
  if want == "binary":
    return ("binary", dict(alpha=1))
  if want == "po2":
    return ("quantized_po2", dict(bits=int(rng.choice([3, 4]))))
  if want in ("auto_po2", "auto_po2_small", "auto_po2_large"):
    # _small / _large: every per-channel po2 scale far below / far above 1 (see raw_weights)
    return qb(int(rng.choice([3, 4])), 0, symmetric=1, alpha=None)
  if want == "po2_mv":
    # max_value that is not a power of two: log2 with fractional part below (5) and above (1.5, 3, 6) one half —
    # the real quantizer ROUNDS log2(max_value), qtools' get_exp takes the ceiling
    return ("quantized_po2", dict(bits=int(rng.choice([3, 4])), max_value=float(rng.choice(PO2_MAX_VALUES))))
  if want == "ternary_auto":
    return ("ternary", dict())
  if want == "binary_auto":
    return ("binary", dict())
  # every other registered quantizer class as a KERNEL quantizer (QuantizerFactory.quantizer_lookup): the alias
  # spellings that share a mode / value set with ternary, binary (stochastic_*, bernoulli = binary(use_01)),
  # the unsigned / renamed fixed-point classes, the unsigned po2 class, and no quantizer at all
  if want == "stochastic_ternary":
    return ("stochastic_ternary", dict(alpha=1))
  if want == "stochastic_binary":
    return ("stochastic_binary", dict(alpha=1))
  if want == "bernoulli":
    return ("bernoulli", dict(alpha=1))
  if want == "binary01":
    return ("binary", dict(use_01=True, alpha=1))
  if want == "stochastic_ternary_auto":
    return ("stochastic_ternary", dict())
  if want == "stochastic_binary_auto":
    return ("stochastic_binary", dict())
  if want == "relu_po2":
    return ("quantized_relu_po2", dict(bits=int(rng.choice([3, 4]))))
  if want == "relu_po2_mv":
    return ("quantized_relu_po2", dict(bits=int(rng.choice([3, 4])), max_value=float(rng.choice(PO2_MAX_VALUES))))
  if want == "po2_4":
    return ("quantized_po2", dict(bits=4))
  if want == "relu":
    b = int(rng.choice([2, 3, 4]))
    return ("quantized_relu", dict(bits=b, integer=int(rng.choice([0, 1]))))
  if want == "tanh":
    return ("quantized_tanh", dict(bits=int(rng.choice([3, 4]))))
  if want == "none":
    return None
  raise ValueError(want)


ALIAS_WKINDS = ["stochastic_ternary", "stochastic_binary", "bernoulli", "binary01", "relu_po2", "relu", "tanh", "none"]


def act_specs(rng, want):
  if isinstance(want, tuple):               # explicit (class name, kwargs)
    return (want[0], dict(want[1]))
  if want == "relu":
    b = int(rng.choice([2, 3, 4]))
    return ("quantized_relu", dict(bits=b, integer=int(rng.choice([0, 1, min(2, b)]))))
  if want == "relu11":
    return ("quantized_relu", dict(bits=1, integer=1))
  if want == "relu1":
    # a ONE-bit relu whose `integer` is not 1: two levels {0, 2^(integer-1)} — only (1, 1) is the 0/1 "and-gate" operand
    return ("quantized_relu", dict(bits=1, integer=int(rng.choice([0, 2, 3]))))
  if want == "bits":
    return qb(int(rng.choice([2, 3, 4])), int(rng.choice([0, 1])), symmetric=int(rng.integers(0, 2)), alpha=None)
  if want == "ternary":
    return ("ternary", dict())
  if want == "binary":
    return ("binary", dict())
  if want == "binary01":
    return ("binary", dict(use_01=True))
  if want == "relu_po2":
    return ("quantized_relu_po2", dict(bits=3))
  if want == "po2":
    return ("quantized_po2", dict(bits=3))
  if want == "po2_mv1":
    return ("quantized_po2", dict(bits=3, max_value=1))
  if want == "po2_mv":
    return ("quantized_po2", dict(bits=int(rng.choice([3, 4])), max_value=float(rng.choice(PO2_MAX_VALUES))))
  if want == "relu_po2_mv":
    return ("quantized_relu_po2", dict(bits=int(rng.choice([3, 4])), max_value=float(rng.choice(PO2_MAX_VALUES))))
  if want == "tanh":
    return ("quantized_tanh", dict(bits=int(rng.choice([3, 4]))))
  if want == "ulaw":
    return ("quantized_ulaw", dict(bits=int(rng.choice([3, 4])), integer=int(rng.choice([0, 1]))))
  if want == "bernoulli":
    return ("bernoulli", dict(alpha=1))
  if want == "stochastic_binary":
    return ("stochastic_binary", dict(alpha=1))
  if want == "stochastic_ternary":
    return ("stochastic_ternary", dict(alpha=1))
  raise ValueError(want)


UNIT_PRES = ["ternary", "stochastic_ternary", "binary", "stochastic_binary", "bernoulli", "binary01", "po2", "relu_po2"]


def bias_specs(rng, want):
  if want == "none":
    return None
  if want == "fixed":
    return qb(int(rng.choice([3, 4])), int(rng.choice([0, 1])), symmetric=int(rng.integers(0, 2)), alpha=None)
  if want == "fixed40":
    return qb(4, 0, symmetric=0, alpha=None)
  if want == "wide_int":
    # more integer bits than a kernel accumulator scaled down by a small po2 scale
    b, i = [(8, 5), (7, 4), (6, 3)][int(rng.integers(0, 3))]
    return qb(b, i, symmetric=int(rng.integers(0, 2)), alpha=None)
  if want == "wide_frac":
    # more fraction bits than a kernel accumulator scaled up by a large po2 scale
    b, i = [(8, 1), (7, 0), (6, 0)][int(rng.integers(0, 3))]
    return qb(b, i, symmetric=int(rng.integers(0, 2)), alpha=None)
  if want in ("po2", "unused_po2"):
    return ("quantized_po2", dict(bits=3))
  if want == "unused_fixed":
    return qb(4, 0, alpha=None)
  if want == "unused_ternary":
    return ("ternary", dict(alpha=1))
  # every other registered class as a BIAS quantizer; "none_q" = a bias without quantizer (default type)
  if want == "ternary":
    return ("ternary", dict(alpha=1))
  if want == "binary":
    return ("binary", dict(alpha=1))
  if want == "stochastic_ternary":
    return ("stochastic_ternary", dict(alpha=1))
  if want == "stochastic_binary":
    return ("stochastic_binary", dict(alpha=1))
  if want == "bernoulli":
    return ("bernoulli", dict(alpha=1))
  if want == "relu_po2":
    return ("quantized_relu_po2", dict(bits=3))
  if want == "relu":
    return ("quantized_relu", dict(bits=3, integer=int(rng.choice([0, 1]))))
  if want == "none_q":
    return None
  raise ValueError(want)


ALIAS_BKINDS = ["ternary", "binary", "stochastic_ternary", "stochastic_binary", "bernoulli", "relu_po2", "relu", "none_q"]
UNUSED_BKINDS = ["unused_po2", "unused_fixed", "unused_ternary"]    # use_bias=False, bias_quantizer given anyway


# --------------------------------------------------------------------------- model specs

def gen_specs(rng, tier):
  """model-directed: every covered operand pair x bias kind x family, the uncovered pairs, N a power
  of two and not, depthwise with depth multiplier, auto_po2 scales, pass-through nodes, tanh / po2
  max_value<=1 activations; then random chains."""
  specs = []
  fams = ["dense", "conv1d", "conv2d", "depthwise"]
  wkinds = ["fixed", "fixed_mostneg", "ternary", "binary", "po2", "auto_po2"]
  pres = [None, "relu", "bits", "ternary", "binary", "binary01", "relu_po2", "po2", "relu11"]
  biases = ["none", "fixed", "po2"]
  k = 0
  # (a) operand-pair grid, single layer
  for wk in wkinds * (1 if tier == "quick" else 4):
    for pre in pres:
      if tier == "quick" and (k % 2 == 1) and wk not in ("fixed", "fixed_mostneg") and pre not in (None, "relu"):
        k += 1
        continue
      k += 1
      fam = fams[int(rng.integers(0, 4))]
      specs.append(dict(stream="grid", family=fam, pre=pre, layers=[dict(w=wk, b=biases[int(rng.integers(0, 3))],
                                                                          act=None, act_mode=None)]))
  # (b) most-negative x most-negative aimed cases: N = 1, 2, 3, 4 terms, no pre-activation
  for n in (1, 2, 3, 4):
    specs.append(dict(stream="mostneg", family="dense", pre=None, n_in=n, src=("s", 3, 0),
                      layers=[dict(w="fixed_mostneg", b="none", act=None, act_mode=None, units=1, raw="allmin")]))
  # (c) known-finding streams (default-alpha ternary/binary kernels, po2 max_value<=1) and regression streams
  #     of repaired findings (tanh int_bits, Flatten after tanh / ulaw / bernoulli / stochastic_binary)
  for wk in ("ternary_auto", "binary_auto"):
    specs.append(dict(stream="unit_auto", family="dense", pre=None,
                      layers=[dict(w=wk, b="none", act=None, act_mode=None)]))
  specs.append(dict(stream="tanh", family="dense", pre="tanh",
                    layers=[dict(w="fixed", b="fixed", act=None, act_mode=None)]))
  specs.append(dict(stream="tanh_flatten", family="conv2d", pre="tanh", flatten_first=True,
                    layers=[dict(w="fixed", b="none", act=None, act_mode=None, kind="dense")]))
  # the other qtools classes whose record is re-made on an edge behind a pass-through layer
  # (quantized_ulaw emits companded, non-uniform levels by design — its qtools record only counts them — so that
  #  model is compared on TYPES only; its values are outside C18_tensor_fits, see notes/C18.md)
  for pre in ("ulaw", "bernoulli", "stochastic_binary"):
    specs.append(dict(stream="remake_" + pre, family="conv2d", pre=pre, flatten_first=True, types_only=pre == "ulaw",
                      layers=[dict(w="fixed", b="none", act=None, act_mode=None, kind="dense")]))
  specs.append(dict(stream="po2_mv1", family="dense", pre="po2_mv1",
                    layers=[dict(w="fixed", b="none", act=None, act_mode=None)]))
  # auto_po2 depthwise kernel with depth_multiplier 2: QTools asserts (the model must reject it too)
  specs.append(dict(stream="dw_auto_dm2", family="depthwise", pre=None,
                    layers=[dict(w="auto_po2", b="fixed", act=None, act_mode=None, dm=2)]))
  specs.append(dict(stream="dw_auto_dm1", family="depthwise", pre="relu",
                    layers=[dict(w="auto_po2", b="fixed", act=None, act_mode=None, dm=1)]))
  # auto_po2 kernels whose per-channel scales are ALL far from 1, with a bias wider than the scaled products:
  # the bias is not scaled, so the fused accumulator must add it AFTER the shift (integer bits of the bias survive a
  # small scale, fraction bits of the bias survive a large scale)
  for fam in fams:
    specs.append(dict(stream="autopo2_bias", family=fam, pre=[None, "relu", "bits"][int(rng.integers(0, 3))],
                      layers=[dict(w="auto_po2_small", b="wide_int", act=None, act_mode=None, dm=1)]))
    specs.append(dict(stream="autopo2_bias", family=fam, pre=[None, "relu", "bits"][int(rng.integers(0, 3))],
                      layers=[dict(w="auto_po2_large", b="wide_frac", act=None, act_mode=None, dm=1)]))
  # po2 kernels / activations with a non-power-of-two max_value; aimed: every weight at the top power of two,
  # all-max inputs, term count a power of two and not — the reported multiplier / accumulator must hold the sum
  for i, n_in in enumerate((1, 2, 3, 4)):
    specs.append(dict(stream="po2_mv_top", family="dense", pre=None, n_in=n_in,
                      layers=[dict(w="po2_mv", b=["none", "fixed"][i % 2], act=None, act_mode=None, units=2,
                                   raw="allmax")]))
  for fam in fams:
    specs.append(dict(stream="po2_mv", family=fam, pre=[None, "relu", "bits"][int(rng.integers(0, 3))],
                      layers=[dict(w="po2_mv", b=biases[int(rng.integers(0, 3))], act=None, act_mode=None)]))
  for pre in ("po2_mv", "relu_po2_mv"):
    for wk in ("fixed", "po2_mv"):
      specs.append(dict(stream="po2_mv_act", family=fams[int(rng.integers(0, 4))], pre=pre,
                        layers=[dict(w=wk, b=biases[int(rng.integers(0, 3))], act=None, act_mode=None)]))
  # estimator regression (repaired loop bound): depthwise kernels with several input channels AND a depth
  # multiplier > 1 and a per-channel bias — output channel c*dm + m must be paired with k[:, :, c, m] and b[c*dm + m]
  for dm in (2, 3):
    specs.append(dict(stream="est_dw", family="depthwise", pre=None, cin=int(rng.choice([2, 3])),
                      layers=[dict(w="fixed", b="fixed", act=None, act_mode=None, dm=dm)]))
  # aimed: 1x1 kernel, 2 input channels, depth multiplier 2, range (-1, 1).  Output channel 1 = (c=0, m=1) has weight
  # 7/8 and bias 7/8 (bound 14/8, estimate 1); pairing the slices in the order m*cin + c instead of c*dm + m puts the
  # bias 7/8 on the weight 1/8 (largest bound 1, estimate 0 < log2 of the real output 14/8)
  specs.append(dict(stream="est_dw", family="depthwise", pre=None, cin=2, ksize=(1, 1), est_range=(-1.0, 1.0),
                    layers=[dict(w="fixed40", b="fixed40", act=None, act_mode=None, dm=2,
                                 set_w=([[[[0.125, 0.875], [0.125, 0.125]]]], [0.0, 0.875, 0.0, 0.0]))]))
  # (c2) EVERY registered quantizer class as kernel / bias / activation quantizer.  qtools dispatches on `mode` in the
  #      factory tables but on substrings of `.name` inside Mux / AndGate / Adder ("binary", "ternary", "po2"): classes
  #      that share a mode under another name (stochastic_ternary, stochastic_binary, bernoulli) must get the widths of
  #      the plain spelling.  Each alias kernel class in front of a fixed-point source, a quantized_relu and a
  #      quantized_bits activation (always), and of one unit / po2 activation
  off = int(rng.integers(0, 4))
  src_forms = [None, "tuple", "default"]
  for i, wk in enumerate(ALIAS_WKINDS):
    for j, pre in enumerate([None, "relu", "bits"]):
      specs.append(dict(stream="alias", family=fams[(i + j + off) % 4], pre=pre,
                        src_form=src_forms[(i + j) % 3] if pre is None else None,
                        layers=[dict(w=wk, b=biases[(i + j) % 3], act=None, act_mode=None)]))
    specs.append(dict(stream="alias_unit", family=fams[(i + off + 3) % 4], pre=UNIT_PRES[int(rng.integers(0, len(UNIT_PRES)))],
                      layers=[dict(w=wk, b=biases[int(rng.integers(0, 3))], act=None, act_mode=None)]))
  for i, bk in enumerate(ALIAS_BKINDS):
    specs.append(dict(stream="alias_bias", family=fams[(i + off) % 4], pre=[None, "relu", "bits"][i % 3],
                      layers=[dict(w=["fixed", "stochastic_ternary", "po2", "ternary", "stochastic_binary"][i % 5], b=bk,
                                   act=None, act_mode=None)]))
  # aimed (finding C18-unit-bias-intbits): a ternary / +-1 bias under a kernel accumulator WITHOUT fraction bits
  # (source quantized_bits(2, 2): values -4, -2, 0, 2) — the bias adder reads the unit record with -1 fraction bits
  for i, bk in enumerate(["binary", "stochastic_ternary"]):
    specs.append(dict(stream="unit_bias", family="dense", pre=None, n_in=1 + i, src=("s", 2, 2),
                      layers=[dict(w=["ternary", "stochastic_binary"][i], b=bk, act=None, act_mode=None, units=2)]))
  # a bias QUANTIZER on a layer built with use_bias=False (e.g. one quantizer configuration applied to every layer)
  for i, bk in enumerate(UNUSED_BKINDS):
    specs.append(dict(stream="unused_bias", family=fams[(i + off) % 4], pre=[None, "relu"][i % 2],
                      layers=[dict(w=["fixed", "po2", "ternary"][i % 3], b=bk, act=None, act_mode=None)]))
  for wk in ("stochastic_ternary_auto", "stochastic_binary_auto"):
    specs.append(dict(stream="unit_auto", family="dense", pre=None,
                      layers=[dict(w=wk, b="none", act=None, act_mode=None)]))
  # alias activations as layer.activation / QActivation behind an alias kernel
  for i, act in enumerate(["stochastic_ternary", "stochastic_binary", "bernoulli"]):
    specs.append(dict(stream="alias_act", family=fams[(i + off) % 4], pre=[None, "relu", "bits"][i % 3], flatten_between=True,
                      layers=[dict(w=["stochastic_binary", "fixed", "stochastic_ternary"][i], b=biases[i % 3], act=act,
                                   act_mode=["attr", "layer", "attr"][i]),
                              dict(w=["fixed", "stochastic_ternary", "po2"][i], b="none", act=None, act_mode=None, kind="dense")]))
  # the third substring test, `"po2" in name` (Mux / AndGate copy max_val_po2 from the operand whose NAME contains po2):
  # the unsigned class quantized_relu_po2 with a max_value as kernel in front of every unit class, and as activation
  # in front of unit kernels
  for i, pre in enumerate(["ternary", "stochastic_ternary", "binary", "stochastic_binary", "bernoulli", "binary01"]):
    specs.append(dict(stream="alias_po2name", family=fams[(i + off) % 4], pre=pre,
                      layers=[dict(w=["relu_po2_mv", "po2_mv"][i % 2], b=biases[i % 3], act=None, act_mode=None)]))
  for i, wk in enumerate(["ternary", "stochastic_binary", "bernoulli"]):
    specs.append(dict(stream="alias_po2name", family=fams[(i + off + 1) % 4], pre="relu_po2_mv",
                      layers=[dict(w=wk, b=biases[i % 3], act=None, act_mode=None)]))
  # (c3) the is_inference=True route (every model takes it once, see run()); aimed: power-of-two kernels / biases whose
  #      entry of largest MAGNITUDE is negative only / positive only / attained with both signs, at and below the top
  #      exponent of the type — the reported weight type must contain every constant, whatever its sign
  k = 0
  for top in ("neg", "pos", "tied"):
    for wk in ("po2_4", "po2", "po2_mv"):
      fam = ["dense", "conv2d", "depthwise", "conv1d"][(k + off) % 4]
      specs.append(dict(stream="inf_po2", family=fam, pre=[None, "relu", "bits"][k % 3], cin=2, n_in=[2, 3, 4][k % 3],
                        inference="both",
                        layers=[dict(w=wk, b=["none", "po2", "fixed"][k % 3], act=None, act_mode=None,
                                     raw="top_" + top, braw="top_" + ["neg", "pos", "tied"][(k // 3 + k) % 3],
                                     below_top=k % 2)]))
      k += 1
  for top in ("pos", "tied"):
    specs.append(dict(stream="inf_po2", family=fams[(k + off) % 4], pre=None, cin=2, n_in=3, inference="both",
                      layers=[dict(w="relu_po2", b="relu_po2", act=None, act_mode=None, raw="top_" + top, braw="top_neg",
                                   below_top=k % 2)]))
    k += 1
  # (c5) power-of-two ACTIVATION in front of a power-of-two KERNEL (the po2 x po2 multiplier `Adder`: exponents add, the two
  #      max_value caps multiply, and the product has NO cap as soon as one operand has none).  All combinations
  #      {no max_value, max_value > 1, max_value <= 1} of the activation x the kernel, both po2 classes as activation,
  #      two different caps when both are capped, python int / float caps; the uncapped side is driven ABOVE 1 (source
  #      lattice up to 15.75, kernels saturated at their top power of two) and below 1 (lattice steps of 1/4, random po2
  #      kernels).  With a cap <= 1 on the activation the source stays >= 1/4 so that the activation tensor fits the
  #      type qtools reports for it (finding C18-po2-maxvalue-le1 would otherwise hide the pre-activation clause).
  caps = {None: [None, None], "hi": [2, 4.0], "lo": [1, 0.5]}
  raws = ["allmax", "top_tied", "top_neg", "top_pos"]
  k = 0
  for a_cap in (None, "hi", "lo"):
    for w_cap in (None, "hi", "lo"):
      for rep in range(2):
        a_cls = ["quantized_relu_po2", "quantized_po2"][(k + rep) % 2]
        w_cls = ["quantized_po2", "quantized_po2", "quantized_relu_po2"][(k + off) % 3]
        akw = dict(bits=[4, 3][(k // 2) % 2 if a_cap is None else 0])
        wkw = dict(bits=4 if w_cap is None else [4, 3][k % 2])
        if a_cap:
          akw["max_value"] = caps[a_cap][rep]
        if w_cap:
          wkw["max_value"] = caps[w_cap][1 - rep]
        fam = "dense" if rep == 0 else fams[(k + off) % 4]
        specs.append(dict(stream="po2po2_caps", family=fam, pre=(a_cls, akw), n_in=[3, 2, 5][k % 3], cin=[1, 3][k % 2],
                          src=("s", 6, 4, a_cap != "lo"), in_lo_code=1 if a_cap == "lo" else None,
                          layers=[dict(w=(w_cls, wkw), b=biases[k % 3], act=None, act_mode=None, units=2,
                                       raw=raws[k % 4] if (w_cap == "lo" or k % 2 == 0) else "random", below_top=0)]))
        k += 1
  # (c4) one quantizer OBJECT serving two layers (kernel quantizer and activation), the model analysed repeatedly
  for i, wk in enumerate(["fixed", "stochastic_ternary", "po2"]):
    specs.append(dict(stream="shared_objects", family=fams[(i + off) % 4], pre=[None, "relu", "bits"][i % 3], share=True,
                      flatten_between=True, history=True,
                      layers=[dict(w=wk, b=biases[i % 3], act="relu", act_mode="layer"),
                              dict(w=wk, b="none", act="relu", act_mode="layer", kind="dense")]))
  # (d) chains: layer.activation vs separate QActivation, Flatten between conv and dense
  n_chain = 8 if tier == "quick" else 120
  for _ in range(n_chain):
    fam = fams[int(rng.integers(0, 4))]
    acts = ["relu", "bits", "relu", "ternary", "relu_po2"]
    l1 = dict(w=wkinds[int(rng.integers(0, len(wkinds)))], b=biases[int(rng.integers(0, 3))],
              act=acts[int(rng.integers(0, len(acts)))], act_mode=["attr", "layer"][int(rng.integers(0, 2))])
    l2 = dict(w=["fixed", "ternary", "po2", "fixed"][int(rng.integers(0, 4))], b=biases[int(rng.integers(0, 3))],
              act=[None, "relu", "bits"][int(rng.integers(0, 3))], act_mode="attr", kind="dense")
    specs.append(dict(stream="chain", family=fam, pre=[None, "relu", "bits"][int(rng.integers(0, 3))],
                      layers=[l1, l2], flatten_between=fam != "dense"))
  # (e) more random single layers
  n_rand = 10 if tier == "quick" else 400
  for _ in range(n_rand):
    specs.append(dict(stream="random", family=fams[int(rng.integers(0, 4))],
                      pre=pres[int(rng.integers(0, len(pres)))],
                      layers=[dict(w=wkinds[int(rng.integers(0, len(wkinds)))], b=biases[int(rng.integers(0, 3))],
                                   act=None, act_mode=None)]))
  # (f) LAYER GEOMETRY x STATED INPUT RANGE (strengthening round, seed C18-10).  Every layer above is built with the
  #     default padding="valid", strides 1, dilation 1 — each output position sees every tap on a real input element.
  #     Under padding="same" / "causal" the border positions see a sub-rectangle of the taps (the rest is multiplied by
  #     padded ZEROS, which lie outside a stated range that excludes zero); strides / dilation move the taps.  Kernels
  #     whose sign is decided by the tap position (one row / column / corner against the rest) put the cancelling taps on
  #     the padding; every model is sized for a list of ranges (containing / touching / excluding zero, degenerate
  #     points, both signs; see EST_RANGES) and judged on the exact worst-case input of every output element.
  geoms = {"conv1d": [("same", 1, 1), ("causal", 1, 1), ("same", 2, 1), ("same", 1, 2), ("causal", 1, 2), ("valid", 1, 1),
                      ("valid", 2, 1), ("valid", 1, 2)],
           "conv2d": [("same", 1, 1), ("same", 1, 1), ("same", 2, 1), ("same", 1, 2), ("valid", 1, 1), ("valid", 2, 1),
                      ("valid", 1, 2)],
           "depthwise": [("same", 1, 1), ("same", 1, 1), ("same", 2, 1), ("same", 1, 2), ("valid", 1, 1), ("valid", 2, 1),
                         ("valid", 1, 2)]}
  ksizes = [(3, 3), (2, 2), (3, 2), (2, 3), (3, 1), (1, 3)]
  gw = ["fixed40", "fixed40", "ternary", "fixed40", "po2_4", "binary", "fixed"]
  k = int(rng.integers(0, 1000))
  for rep in range(1 if tier == "quick" else 4):
    for fam in ("conv2d", "conv1d", "depthwise"):
      for (pad, st, dil) in geoms[fam]:
        pat = SIGN_PATTERNS[k % len(SIGN_PATTERNS)] + ("/flip" if (k // 3) % 2 else "")
        if rep == 0 and pad == "causal":
          pat = ["first_neg", "first_pos"][k % 2]                                # causal pads at the beginning
        elif rep == 0 and pad == "same":
          pat = ["first_neg", "last_neg", "first_pos", "last_pos"][k % 4]        # aimed at the padded rows (even sizes: the end)
        ks = ksizes[k % len(ksizes)] if (rep or pad == "valid" or k % 3) else (3, 3)
        if fam == "conv1d":
          ks = (max(ks), 1)
        specs.append(dict(stream="est_geom", family=fam, pre=None, cin=1 + k % 2, ksize=ks, grow=1 + k % 2,
                          geom=dict(padding=pad, strides=st, dilation=dil), est_ranges=True,
                          layers=[dict(w=gw[k % len(gw)] if rep or k % 4 else "fixed40", b=["none", "fixed40"][(k // 2) % 2],
                                       act=None, act_mode=None, dm=1 + (k % 5 == 0), signs=pat)]))
        k += 1
    for n_in in (3, 6):
      specs.append(dict(stream="est_geom", family="dense", pre=None, n_in=n_in, est_ranges=True,
                        layers=[dict(w="fixed40", b=["none", "fixed40"][k % 2], act=None, act_mode=None,
                                     signs=SIGN_PATTERNS[k % len(SIGN_PATTERNS)] + "/flip")]))
      k += 1
  # (g) ONE-BIT quantized_relu activations / kernels (strengthening round, seed C18-11).  convert_qkeras_quantizer classifies
  #     quantized_relu(1, 1) — levels {0, 1} — as the 0/1 operand (mode 4, AndGate, product as wide as the other operand);
  #     every other 1-bit relu has the levels {0, 2^(integer-1)} (1/2, 2, 4): the product needs one more fraction / integer
  #     bit.  Every `integer` in 0..3 x kernel class x family, as QActivation in front of the layer, as the activation of a
  #     first layer feeding a second one (attribute and separate layer), and as KERNEL quantizer; the source reaches 7.875 so
  #     that every level is emitted, and ONE-HOT inputs (a single element on) expose each single product w * level.
  r1w = ["fixed40", "fixed", "po2_4", "fixed40", "ternary", "fixed", "fixed40", "po2"]
  k = off                 # (no further draw here: the models of the older streams keep their per-seed weights / shapes)
  for i, integer in enumerate([0, 2, 3, 1, 0, 2, 0, 2]):
    specs.append(dict(stream="relu_1bit", family=fams[(i + k) % 4], pre=("quantized_relu", dict(bits=1, integer=integer)),
                      src=("s", 6, 3), one_hot=True, cin=1 + i % 2, n_in=[3, 2, 4][i % 3],
                      layers=[dict(w=r1w[i], b=biases[i % 3], act=None, act_mode=None, dm=1)]))
  for i, integer in enumerate([0, 2, 3]):
    specs.append(dict(stream="relu_1bit_chain", family=fams[(i + k + 1) % 4], pre=[None, "bits", "relu"][i], src=("s", 6, 3),
                      one_hot=True, flatten_between=True, cin=1,
                      layers=[dict(w=["fixed40", "fixed", "fixed40"][i], b=biases[(i + 1) % 3],
                                   act=("quantized_relu", dict(bits=1, integer=integer)), act_mode=["attr", "layer", "attr"][i], dm=1),
                              dict(w=["fixed40", "fixed40", "fixed"][i], b=biases[i % 3], act=None, act_mode=None, kind="dense")]))
  for i, integer in enumerate([0, 2]):
    specs.append(dict(stream="relu_1bit_kernel", family=fams[(i + k) % 4], pre=[None, "bits"][i], one_hot=True,
                      layers=[dict(w=("quantized_relu", dict(bits=1, integer=integer)), b=biases[i % 3], act=None, act_mode=None,
                                   dm=1)]))
  # (h) GROUPED convolutions (strengthening round, seed C18-12): `groups` > 1 — the Keras kernel is (k.., cin / groups, filters),
  #     its axis -2 is ALREADY the per-group fan-in, every output channel sums k.. * cin / groups products.  Fan-ins that are a
  #     power of two (tight accumulator) and not, cin / groups = 1 (depthwise-like) and > 1, saturated kernels (all most
  #     negative / all largest code) under all-max / all-min inputs, and random kernels; QConv1D and QConv2D.
  grp = [("conv2d", 4, 2, 2, (1, 1)), ("conv2d", 8, 2, 4, (1, 1)), ("conv1d", 4, 2, 2, (1, 1)), ("conv2d", 8, 4, 4, (1, 2)),
         ("conv1d", 6, 3, 3, (2, 1)), ("conv2d", 6, 2, 2, (2, 2)), ("conv1d", 8, 2, 2, (1, 1)), ("conv2d", 4, 4, 4, (2, 1)),
         ("conv1d", 8, 4, 8, (1, 1)), ("conv2d", 8, 2, 2, (1, 1))]
  graw = ["allmin", "allmax", "allmin", "random", "allmax", "allmin", "random", "allmin", "allmax", "random"]
  gwk = ["fixed40", "fixed40", "fixed", "fixed", "fixed40", "ternary", "po2", "fixed40", "fixed", "fixed40"]
  k = off % 3
  for i, (fam, cin, groups, filters, ks) in enumerate(grp):
    specs.append(dict(stream="grouped", family=fam, pre=[None, "bits", "relu"][(i + k) % 3], cin=cin, ksize=ks,
                      # (a bias adder adds one integer bit of head-room: the saturated kernels come without bias so that
                      #  the kernel accumulator itself is tight)
                      layers=[dict(w=gwk[i], b="none" if (graw[i] != "random" and i != 4) else biases[(i + k) % 3], act=None,
                                   act_mode=None, groups=groups, filters=filters, raw=graw[i])]))
  return specs


# stated input ranges of the estimator: containing zero, touching zero from either side, strictly positive, strictly
# negative, degenerate points (what analyze_accumulator_from_sample derives from an all-max sample), zero-width at zero
EST_RANGES = [(-1.0, 1.0), (0.0, 2.0), (-1.0, 0.0), (0.75, 1.0), (1.0, 1.0), (-1.0, -0.75), (0.25, 3.0), (-2.0, -2.0),
              (0.5, 0.5), (-0.25, 1.0), (-3.0, -0.5), (0.0, 0.0)]


def range_class(xmin, xmax):
  if xmin == xmax:
    return "point_" + ("zero" if xmin == 0 else "positive" if xmin > 0 else "negative")
  if xmin > 0:
    return "positive"
  if xmax < 0:
    return "negative"
  if xmin == 0 or xmax == 0:
    return "touches_zero"
  return "contains_zero"


def range_form(xmin, xmax, form):
  """the same stated range in another argument form: tuple / list / ndarray / numpy scalars / python ints"""
  if form == 1:
    return [xmin, xmax]
  if form == 2:
    return np.array([xmin, xmax], dtype=np.float64)
  if form == 3:
    return (np.float32(xmin), np.float32(xmax))
  if form == 4 and float(xmin).is_integer() and float(xmax).is_integer():
    return (int(xmin), int(xmax))
  return (xmin, xmax)


def lattice(bits, integer, signed):
  """(lo, hi, step) of a fixed-point type as exact python numbers"""
  nsb = bits - (1 if signed else 0)
  step = 2.0 ** (integer - nsb)
  lo = -(2 ** nsb) if signed else 0
  hi = 2 ** nsb - 1
  return lo, hi, step


def raw_weights(rng, spec, shape, mode, wkind=None, below_top=0):
  """raw (pre-quantization) kernel: lattice points incl. both saturation ends, as short dyadics"""
  if spec is None:                          # no quantizer: constants on the default (8, 0, signed) lattice
    return (rng.integers(-128, 128, size=shape) / 128.0).astype(np.float32)
  name, kw = spec
  n_out = shape[-1]
  if name == "quantized_bits":
    lo, hi, step = lattice(kw["bits"], kw["integer"], kw.get("keep_negative", True))
    if mode == "allmin":
      codes = np.full(shape, lo - 1)
    elif mode == "allmax":
      codes = np.full(shape, hi + 1)
    else:
      codes = rng.integers(lo - 1, hi + 2, size=shape)
      ext = rng.random(shape)
      codes = np.where(ext < 0.15, lo, np.where(ext > 0.85, hi, codes))
    w = codes * step
    if kw.get("alpha", None) is None:       # auto_po2: spread the channels over several scales
      lo_e, hi_e = {"auto_po2_small": (-8, -5), "auto_po2_large": (3, 6)}.get(wkind, (-3, 3))
      sc = 2.0 ** rng.integers(lo_e, hi_e, size=n_out)
      w = w * sc.reshape((1,) * (len(shape) - 1) + (n_out,))
    return w.astype(np.float32)
  if name in ("ternary", "binary", "stochastic_ternary", "stochastic_binary", "bernoulli"):
    w = rng.choice(np.array([-1.0, -0.5, -0.1, 0.0, 0.1, 0.5, 1.0]), size=shape)
    if "alpha" not in kw:
      sc = 2.0 ** rng.integers(-3, 2, size=n_out)
      w = w * sc.reshape((1,) * (len(shape) - 1) + (n_out,))
    return w.astype(np.float32)
  if name in ("quantized_po2", "quantized_relu_po2"):
    if mode == "allmax":                    # every weight saturates at the quantizer's top power of two
      return np.full(shape, 64.0, dtype=np.float32)
    if mode.startswith("top_"):
      return po2_top(rng, name, kw, shape, mode[4:], below_top)
    e = rng.integers(-5, 5, size=shape)
    s = rng.choice(np.array([-1.0, 1.0]), size=shape)
    w = s * 2.0 ** e
    w = np.where(rng.random(shape) < 0.1, 0.0, w)
    return w.astype(np.float32)
  if name == "quantized_relu":
    lo, hi, step = lattice(kw["bits"], kw["integer"], False)
    codes = rng.integers(lo - 1, hi + 2, size=shape)
    return (codes * step).astype(np.float32)
  if name == "quantized_tanh":
    return (rng.integers(-16, 17, size=shape) / 8.0).astype(np.float32)
  raise ValueError(name)


def po2_top(rng, name, kw, shape, top, below_top):
  """power-of-two constants that are fixed points of the quantizer: the entry of largest magnitude 2^E is negative only
  ("neg"), positive only ("pos") or attained with both signs ("tied"); every other entry has a smaller exponent.
  E = the top exponent of the type, or one below it (`below_top`)"""
  signed = name == "quantized_po2"
  nsb = kw["bits"] - (1 if signed else 0)
  emax = 2 ** (nsb - 1) - 1
  mv = kw.get("max_value")
  if mv:
    emax = min(emax, int(np.round(np.log2(mv))))        # the real quantizer rounds log2(max_value)
  emin = -(2 ** (nsb - 1))
  e_top = max(emin + 1, emax - (1 if below_top else 0))
  n = int(np.prod(shape))
  e = rng.integers(max(emin, e_top - 3), e_top, size=n)
  sg = rng.choice(np.array([-1.0, 1.0]), size=n) if signed else np.ones(n)
  w = sg * 2.0 ** e
  pos = rng.permutation(n)
  if not signed:
    w[pos[0]] = 2.0 ** e_top
  elif top == "neg":
    w[pos[0]] = -(2.0 ** e_top)
  elif top == "pos":
    w[pos[0]] = 2.0 ** e_top
  else:
    w[pos[0]] = -(2.0 ** e_top)
    w[pos[-1]] = 2.0 ** e_top          # a one-element tensor stays "pos"
  return w.reshape(shape).astype(np.float32)


SIGN_PATTERNS = ["first_neg", "last_neg", "first_pos", "last_pos", "first_col_neg", "last_col_pos", "corner_neg",
                 "center_pos", "checker", "chan_alt"]


def sign_by_tap(rng, w, pattern, cls):
  """kernel with the magnitudes of `w` (zeros replaced by the smallest non-zero magnitude) and the SIGN decided by the
  tap POSITION: the taps of one kernel row / column / corner against all the others.  Under padding="same" / "causal" the
  border output positions see exactly such a sub-rectangle of the taps (the others are multiplied by padded zeros), under
  dilation / strides the taps land on different input elements — the cancelling taps can be made to fall on the padding.
  dense kernels (n_in, units): the "row" is the input index.  "chan_alt": sign by input-channel parity.  A suffix
  "/flip" negates the pattern on every second output channel (most positive and most negative sums both occur)."""
  flip = pattern.endswith("/flip")
  pattern = pattern.split("/")[0]
  a = np.abs(np.asarray(w, dtype=np.float64))
  nz = a[a > 0]
  a = np.where(a > 0, a, nz.min() if nz.size else 0.5)
  nsp = max(a.ndim - 2, 1)                                    # number of spatial axes (dense: the input index)
  idx = np.indices(a.shape)
  r = idx[0]
  c = idx[1] if nsp > 1 else np.zeros_like(r)
  last_r, last_c = a.shape[0] - 1, (a.shape[1] - 1 if nsp > 1 else 0)
  if pattern in ("first_neg", "first_pos"):
    neg = (r == 0)
  elif pattern in ("last_neg", "last_pos"):
    neg = (r == last_r)
  elif pattern == "first_col_neg":
    neg = (c == 0) if nsp > 1 else (r == 0)
  elif pattern == "last_col_pos":
    neg = (c == last_c) if nsp > 1 else (r == last_r)
  elif pattern == "corner_neg":
    neg = (r == 0) & (c == 0)
  elif pattern == "center_pos":
    neg = ~((r == a.shape[0] // 2) & (c == (a.shape[1] // 2 if nsp > 1 else 0)))
  elif pattern == "checker":
    neg = ((r + c) % 2 == 0)
  elif pattern == "chan_alt":
    neg = (idx[max(a.ndim - 2, 0)] % 2 == 1)
  else:
    raise ValueError(pattern)
  if pattern in ("first_pos", "last_pos", "last_col_pos"):
    neg = ~neg
  sgn = np.where(neg, -1.0, 1.0)
  if flip:
    sgn = sgn * np.where(idx[-1] % 2 == 1, -1.0, 1.0)
  return (a * sgn).astype(np.float32)


def raw_bias(rng, spec, n, mode="random", below_top=0):
  if spec is None:                          # a bias without quantizer: the default (8, 0, signed) lattice
    return (rng.integers(-128, 128, size=n) / 128.0).astype(np.float32)
  name, kw = spec
  if name in ("quantized_bits", "quantized_relu"):
    lo, hi, step = lattice(kw["bits"], kw["integer"], name == "quantized_bits")
    codes = rng.integers(lo - 1, hi + 2, size=n)
    return (codes * step).astype(np.float32)
  if name in ("ternary", "binary", "stochastic_ternary", "stochastic_binary", "bernoulli"):
    return rng.choice(np.array([-1.0, -0.5, 0.0, 0.5, 1.0]), size=n).astype(np.float32)
  if mode.startswith("top_"):
    return po2_top(rng, name, kw, (n,), mode[4:], below_top)
  e = rng.integers(-3, 3, size=n)
  return (rng.choice(np.array([-1.0, 1.0]), size=n) * 2.0 ** e).astype(np.float32)


# --------------------------------------------------------------------------- one model

class Built:
  pass


def build(rng, spec, idx):
  """build the real model described by `spec`; returns Built (model, layers info, lean nodes)"""
  import tensorflow.keras as keras
  from qkeras import QActivation, QDense, QConv1D, QConv2D, QDepthwiseConv2D
  fam = spec["family"]
  b = Built()
  b.spec = spec
  # ---- source type and input shape
  if "src" in spec:
    sb, si = spec["src"][1], spec["src"][2]
    b.src_spec = qb(sb, si, symmetric=0, alpha=None, keep_negative=spec["src"][3] if len(spec["src"]) > 3 else True)
  else:
    b.src_spec = qb(int(rng.choice([2, 3, 4, 6])), int(rng.choice([0, 0, 1, 2])),
                    keep_negative=bool(rng.random() < 0.8), alpha=None)
  kh, kw_ = int(rng.choice([1, 2, 3])), int(rng.choice([1, 2, 3]))
  cin = int(rng.choice([1, 2, 3]))
  cin = spec.get("cin", cin)
  kh, kw_ = spec.get("ksize", (kh, kw_))
  # layer geometry (strengthening round, seed C18-10): padding / strides / dilation decide WHICH taps an output position
  # sees; no reported type and no estimate may depend on it, but border positions of a padded layer see zeros
  geom = dict(padding="valid", strides=1, dilation=1)
  geom.update(spec.get("geom") or {})
  b.geom = geom
  grow = int(spec.get("grow", 0))

  def span(kk):
    return max(kk + grow, (kk - 1) * geom["dilation"] + 1)
  if fam == "dense":
    n_in = spec.get("n_in", int(rng.choice([1, 2, 3, 4, 5, 8, 9])))
    ishape = (n_in,)
  elif fam == "conv1d":
    ishape = (span(kh) + int(rng.integers(0, 2)), cin)
  else:
    ishape = (span(kh) + int(rng.integers(0, 2)), span(kw_) + int(rng.integers(0, 2)), cin)
  b.ishape = ishape
  # how the source type reaches QTools: a list (default), a tuple, or not at all (cfg.default_source_quantizer)
  b.src_form = spec.get("src_form")
  if b.src_form == "default":
    b.src_spec = qb(8, 0, alpha=None)
  x = x_in = keras.layers.Input(ishape, name="in%d" % idx)
  b.nodes = []      # lean chain nodes
  b.items = []      # per keras layer: dict(kind=..., layer=..., ...)
  names = iter("L%d_%d" % (idx, i) for i in range(100))

  def add_qact(x, aspec):
    q = mk(aspec)
    lyr = QActivation(q, name=next(names))
    b.nodes.append({"t": "qact", "q": qk_json(q)})
    b.items.append(dict(kind="qact", layer=lyr, spec=aspec))
    return lyr(x)

  def add_pass(x, what):
    lyr = keras.layers.Flatten(name=next(names)) if what == "flatten" else keras.layers.MaxPooling2D((1, 1), name=next(names))
    b.nodes.append({"t": "pass"})
    b.items.append(dict(kind="pass", layer=lyr))
    return lyr(x)

  if spec.get("pre"):
    x = add_qact(x, with_form(rng, act_specs(rng, spec["pre"])))
  if spec.get("flatten_first"):
    x = add_pass(x, "flatten")
  shared = {}
  for li, ls in enumerate(spec["layers"]):
    kind = ls.get("kind", fam)
    if li > 0 and spec.get("flatten_between") and len(x.shape) > 2:
      x = add_pass(x, "flatten")
    wspec = with_form(rng, weight_specs(rng, ls["w"]), ints=False)
    has_bias = ls["b"] != "none" and ls["b"] not in UNUSED_BKINDS
    bq_spec = None if ls["b"] == "none" else with_form(rng, bias_specs(rng, ls["b"]), ints=False)   # the quantizer handed to the layer
    bspec = bq_spec if has_bias else None
    aspec = with_form(rng, act_specs(rng, ls["act"])) if ls.get("act") else None
    kq, act_obj = mk(wspec), (mk(aspec) if aspec is not None else None)
    if spec.get("share"):                   # ONE quantizer object for the kernels / activations of all layers
      if li == 0:
        shared.update(wspec=wspec, kq=kq, aspec=aspec, act=act_obj)
      else:
        wspec, kq, aspec, act_obj = shared["wspec"], shared["kq"], shared["aspec"], shared["act"]
    attr_act = act_obj if (aspec is not None and ls.get("act_mode") == "attr") else None
    common = dict(use_bias=has_bias, bias_quantizer=mk(bq_spec), activation=attr_act, name=next(names))
    groups = int(ls.get("groups", 1)) if kind in ("conv1d", "conv2d") else 1
    grp_kw = dict(groups=groups) if groups > 1 else {}      # the argument is only passed when it is used
    if kind == "dense":
      if len(x.shape) > 2:
        x = add_pass(x, "flatten")
      lyr = QDense(ls.get("units", int(rng.choice([1, 2, 3]))), kernel_quantizer=kq, **common)
      cls = "QDense"
    elif kind == "conv1d":
      lyr = QConv1D(ls.get("filters") or int(rng.choice([1, 2, 3])), kh, kernel_quantizer=kq, padding=geom["padding"],
                    strides=geom["strides"], dilation_rate=geom["dilation"], **grp_kw, **common)
      cls = "QConv1D"
    elif kind == "conv2d":
      lyr = QConv2D(ls.get("filters") or int(rng.choice([1, 2, 5])), (kh, kw_), kernel_quantizer=kq, padding=geom["padding"],
                    strides=geom["strides"], dilation_rate=geom["dilation"], **grp_kw, **common)
      cls = "QConv2D"
    else:
      lyr = QDepthwiseConv2D((kh, kw_), depth_multiplier=ls.get("dm", int(rng.choice([1, 1, 2]))),
                             depthwise_quantizer=kq, padding=geom["padding"], strides=geom["strides"],
                             dilation_rate=geom["dilation"], **common)
      cls = "QDepthwiseConv2D"
    x = lyr(x)
    it = dict(kind="layer", cls=cls, layer=lyr, wspec=wspec, bspec=bspec, has_bias=has_bias,
              unused_bspec=None if has_bias else bq_spec, bkind=ls["b"],
              aspec=aspec if attr_act is not None else None,
              raw=ls.get("raw", "random"), braw=ls.get("braw", "random"), below_top=ls.get("below_top", 0),
              wkind=ls["w"] if isinstance(ls["w"], str) else ls["w"][0], set_w=ls.get("set_w"),
              geom=geom if kind == fam else dict(padding="valid", strides=1, dilation=1), signs=ls.get("signs"),
              groups=groups)
    b.items.append(it)
    b.nodes.append(None)      # filled after the weights are known (kernel shape, auto_po2 scales)
    if aspec is not None and attr_act is None:
      if spec.get("share"):
        lyr2 = QActivation(act_obj, name=next(names))
        b.nodes.append({"t": "qact", "q": qk_json(act_obj)})
        b.items.append(dict(kind="qact", layer=lyr2, spec=aspec))
        x = lyr2(x)
      else:
        x = add_qact(x, aspec)
  b.model = keras.Model(x_in, x)
  # ---- weights
  for it in b.items:
    if it["kind"] != "layer":
      continue
    lyr = it["layer"]
    ws = lyr.get_weights()
    new = [raw_weights(rng, it["wspec"], ws[0].shape, it["raw"], it["wkind"], it["below_top"])]
    if it["has_bias"]:
      new.append(raw_bias(rng, it["bspec"], ws[1].shape[0], it["braw"], it["below_top"]))
    if it["set_w"] is not None:
      new = [np.asarray(v, dtype=np.float32) for v in it["set_w"]][: len(ws)]
    if it["signs"] is not None:
      new[0] = sign_by_tap(rng, new[0], it["signs"], it["cls"])
    lyr.set_weights(new)
    it["kshape"] = [int(v) for v in ws[0].shape]
  return b


def inputs_for(rng, b, first_kernel):
  """random and extremal inputs on the source lattice: all-max, all-min, sign-aligned and
  anti-aligned with every output channel of the first layer's effective kernel"""
  kw = b.src_spec[1]
  lo, hi, step = lattice(kw["bits"], kw["integer"], kw["keep_negative"])
  if b.spec.get("in_lo_code") is not None:   # keep the inputs at or above a lattice code (see stream po2po2_caps)
    lo = int(b.spec["in_lo_code"])
  shp = b.ishape
  xs = [np.full(shp, hi * step), np.full(shp, lo * step)]
  tags = ["all-max", "all-min"]
  if first_kernel is not None:
    k, cls = first_kernel
    n_out = k.shape[-1]
    for c in range(min(n_out, 5)):
      pat = k[..., c]                         # depthwise: (kh, kw, cin) of depth-multiplier slice c
      if pat.shape == tuple(shp):
        sgn = pat
      else:
        # kernel patch at the top-left corner, the rest follows the first kernel entry's sign
        sgn = np.ones(shp) * (1 if pat.flat[0] >= 0 else -1)
        try:
          sgn[tuple(slice(0, s) for s in pat.shape)] = pat
        except Exception:  # pylint: disable=broad-except
          pass
      full = np.where(sgn > 0, hi * step, lo * step)
      xs.append(full)
      tags.append("aligned")
      xs.append(np.where(sgn > 0, lo * step, hi * step))
      tags.append("anti-aligned")
  if b.spec.get("one_hot"):
    # a single element at the top of the source lattice, every other at its bottom (or 0 when that is a lattice point):
    # each product w * (one activation level) shows up on its own
    n = int(np.prod(shp))
    off_v = 0.0 if lo <= 0 <= hi else lo * step
    for j in sorted(set(list(range(min(n, 6))) + [n - 1])):
      v = np.full(shp, off_v)
      v.flat[j] = hi * step
      xs.append(v)
      tags.append("one-hot")
  for _ in range(3):
    xs.append(rng.integers(lo, hi + 1, size=shp) * step)
    tags.append("random")
  return np.stack(xs).astype(np.float32), tags


def uniq(a, cap=400):
  v = np.unique(np.asarray(a, dtype=np.float64).ravel())
  if len(v) > cap:
    v = np.concatenate([v[: cap // 2], v[-cap // 2:]])
  return v


def eff_weights(lyr):
  """the weights the layer really uses: quantizer(kernel) evaluated eagerly"""
  import tensorflow as tf
  qs = lyr.get_quantizers()
  vars_ = lyr.weights
  k = qs[0](tf.convert_to_tensor(vars_[0])).numpy() if qs[0] is not None else vars_[0].numpy()
  bias = None
  if lyr.use_bias:
    bias = qs[1](tf.convert_to_tensor(vars_[1])).numpy() if qs[1] is not None else vars_[1].numpy()
  return k, bias


def expand_groups(k, groups):
  """the dense-convolution kernel (k.., cin, filters) equivalent to a grouped kernel (k.., cin / groups, filters): zeros
  outside the group of each output channel"""
  if groups <= 1:
    return k
  ci, fo = k.shape[-2], k.shape[-1] // groups
  full = np.zeros(k.shape[:-2] + (ci * groups, k.shape[-1]), dtype=k.dtype)
  for o in range(k.shape[-1]):
    g = o // fo
    full[..., g * ci:(g + 1) * ci, o] = k[..., o]
  return full


def run_layers(b, x):
  """run the REAL layers one by one, eagerly; record input / pre-activation / output per layer"""
  import tensorflow as tf
  h = tf.convert_to_tensor(x)
  for it in b.items:
    lyr = it["layer"]
    it["x"] = h.numpy()
    if it["kind"] == "layer" and it["aspec"] is not None:
      saved = lyr.activation
      lyr.activation = None
      try:
        it["pre"] = lyr(h).numpy()
      finally:
        lyr.activation = saved
      h = lyr(h)
    else:
      h = lyr(h)
      if it["kind"] == "layer":
        it["pre"] = h.numpy()
    it["y"] = h.numpy()


def ref_preact(it, k, bias):
  """float64 recomputation of the pre-activation (exact in the generated regime), with the layer's padding / strides /
  dilation written out ("causal" = left padding of dilation * (k - 1), then "valid")"""
  import tensorflow as tf
  x = tf.constant(it["x"], tf.float64)
  kk = tf.constant(k, tf.float64)
  cls = it["cls"]
  g = it.get("geom") or dict(padding="valid", strides=1, dilation=1)
  pad, st, dil = g["padding"].upper(), int(g["strides"]), int(g["dilation"])
  groups = int(it.get("groups", 1) or 1)
  if groups > 1:
    # grouped convolution written out: group g maps input channels [g*ci, (g+1)*ci) to output channels [g*fo, (g+1)*fo)
    ci, fo = int(kk.shape[-2]), int(kk.shape[-1]) // groups
    if pad == "CAUSAL":
      x = tf.pad(x, [[0, 0], [dil * (int(kk.shape[0]) - 1), 0], [0, 0]])
      pad = "VALID"
    conv = ((lambda a, w: tf.nn.conv1d(a, w, stride=st, padding=pad, dilations=dil)) if cls == "QConv1D" else
            (lambda a, w: tf.nn.conv2d(a, w, strides=st, padding=pad, dilations=dil)))
    y = tf.concat([conv(x[..., g * ci:(g + 1) * ci], kk[..., g * fo:(g + 1) * fo]) for g in range(groups)], axis=-1)
  elif cls == "QDense":
    y = tf.matmul(x, kk)
  elif cls == "QConv1D":
    if pad == "CAUSAL":
      x = tf.pad(x, [[0, 0], [dil * (int(kk.shape[0]) - 1), 0], [0, 0]])
      pad = "VALID"
    y = tf.nn.conv1d(x, kk, stride=st, padding=pad, dilations=dil)
  elif cls == "QConv2D":
    y = tf.nn.conv2d(x, kk, strides=st, padding=pad, dilations=dil)
  else:
    y = tf.nn.depthwise_conv2d(x, kk, strides=[1, st, st, 1], padding=pad, dilations=[dil, dil])
  if bias is not None:
    y = y + tf.constant(bias, tf.float64)
  return y.numpy()


def layer_extremal_masks(lyr, ish, cap=400):
  """geometry-agnostic worst-case inputs of an affine layer, measured on the REAL layer: the output element `o` is
  y0[o] + sum_j J[j, o] x_j with J[j, o] = layer(e_j)[o] - layer(0)[o] (unit impulses; exact for short dyadic constants), so
  on the box [xmin, xmax]^n its maximum is attained at x_j = xmax where J[j, o] > 0 and xmin elsewhere, its minimum at
  the complementary corner.  Returns the distinct boolean corner masks (one per output element, deduplicated): whatever
  padding / strides / dilation / data layout the layer uses, every (output position, output channel) — border positions
  whose taps fall on the padding included — gets its own extremal input."""
  import tensorflow as tf
  n = int(np.prod(ish))
  basis = np.zeros((n + 1,) + tuple(ish), np.float32)
  for j in range(n):
    basis[j + 1].flat[j] = 1.0
  y = lyr(tf.constant(basis)).numpy().astype(np.float64)
  jac = (y[1:] - y[0]).reshape(n, -1)
  masks = np.unique((jac > 0).T, axis=0)
  if len(masks) > cap:
    masks = masks[np.linspace(0, len(masks) - 1, cap).astype(int)]
  return masks.reshape((-1,) + tuple(ish)), jac


# --------------------------------------------------------------------------- the check

def rec_of(item, key):
  from qkeras.qtools import qtools_util
  v = qtools_util.get_val(item, key)
  if v is None:
    return None
  if hasattr(v, "output"):
    return qtypes.to_rec(v.output)
  return qtypes.to_rec(v)


def recs_differ(impl, model):
  if impl is None or model is None:
    return None if (impl is None and model is None) else {"presence": (impl, model)}
  if impl["is_floating_point"] or model["is_floating_point"]:
    d = {k: (impl[k], model[k]) for k in ("bits", "is_floating_point") if impl[k] != model[k]}
  else:
    d = qtypes.rec_eq(impl, model)
  return d or None


def run(run: core.Run, tier: str):
  core.assert_repo_import()
  import tensorflow as tf
  from qkeras import quantizers as Q
  from qkeras.qtools import run_qtools, qtools_util
  from qkeras.utils import model_save_quantized_weights
  from qkeras.estimate import analyze_accumulator, analyze_accumulator_from_sample
  from absl import logging as absl_logging
  absl_logging.set_verbosity(absl_logging.FATAL)
  tf.get_logger().setLevel("ERROR")         # Model.predict of many small models: "tf.function retracing" warnings
  rng = np.random.default_rng(run.seed)
  tf.random.set_seed(int(run.seed))         # bernoulli samples in every call; keep the run reproducible
  run.extra["rule"] = (
      "models: grid of (weight kind x preceding activation kind) single dense/conv1d/conv2d/depthwise layers "
      "with none/fixed/po2 bias, aimed most-negative cases with N=1..4 terms, default-alpha ternary/binary "
      "kernels, tanh / po2(max_value=1) activations, Flatten after tanh / ulaw / bernoulli / stochastic_binary, "
      "auto_po2 kernels with all scales << 1 / >> 1 under a bias wider than the scaled products, po2 kernels / "
      "activations with non-power-of-two max_value (1.5, 3, 5, 6; aimed: all weights at the top power of two), "
      "depthwise estimator cases with depth multiplier > 1, random 2-layer chains with "
      "layer.activation or separate QActivation; EVERY registered quantizer class as kernel / bias / activation "
      "quantizer (stochastic_ternary, stochastic_binary, bernoulli, binary(use_01), quantized_relu_po2, quantized_relu, "
      "quantized_tanh, no quantizer) in front of fixed-point and unit / po2 inputs; bias quantizers on use_bias=False "
      "layers; source quantizers as list / tuple / default; a seeded fraction of quantizers built from numpy scalars / "
      "0-d arrays; one quantizer object shared by two layers; ROUTES per model: QTools(is_inference=False), "
      "QTools(is_inference=True) with model_weights_already_quantized False (re-quantized) or True (constants stored "
      "quantized), and is_inference=False again on the same model (must equal the first); aimed inference cases: po2 "
      "kernels / biases whose largest-magnitude constant is negative only / positive only / tied, at and below the "
      "type's top exponent; ESTIMATOR: stream est_geom = single layers with padding same / causal / valid, strides 2, "
      "dilation 2, odd / even kernel sizes, kernels whose sign follows the tap position, sized by analyze_accumulator for "
      "12 stated ranges (containing / touching / excluding zero, degenerate points, both signs; tuple / list / ndarray / "
      "numpy-scalar / int forms), every other estimator model additionally for two zero-excluding ranges; measured on the "
      "exact worst-case corner of every output element (from the real layer's impulse responses); "
      "analyze_accumulator_from_sample(conservative and sampled) on batches whose first sample spans / does not span the batch range, "
      "with one and with two quantized layers; ONE-BIT quantized_relu (integer 0..3; only (1,1) is the 0/1 and-gate operand) "
      "as QActivation, as activation of a first layer (attribute / separate layer) and as kernel quantizer, with one-hot "
      "inputs; GROUPED QConv1D / QConv2D (groups 2, 3, 4; cin / groups = 1 and > 1; fan-in a power of two and not; kernels "
      "saturated at the most negative / largest code, bias-free, and random kernels); "
      "inputs: all-max, all-min, sign-aligned and anti-aligned with "
      "each output channel's effective kernel, random lattice points; non-trivial = distinct (stream, family, "
      "weight/bias/activation quantizers, kernel shape); every tensor value is judged by Lean Val on the type "
      "the REAL QTools reported")
  specs = gen_specs(rng, tier)
  chain_lines, chain_meta = [], []
  judge_lines, judge_meta = [], []
  est_lines, est_meta = [], []
  fs_lines, fs_meta = [], []
  pop_lines, pop_meta = [], []
  inexact = 0
  n_pre = 0

  judge_cache = {}

  def judge(rec, vals, meta):
    """queue `vals` for the Lean value predicate of record `rec`; identical (record, values) requests — the same tensor
    judged against the same reported type on another route — share one driver line"""
    if rec is None or rec["is_floating_point"]:
      return
    vals = np.asarray(vals, dtype=np.float64)
    ck = (json.dumps(rec, sort_keys=True), vals.tobytes())
    li = judge_cache.get(ck)
    if li is None:
      li = judge_cache[ck] = len(judge_lines)
      judge_lines.append({"op": "judge", "q": rec, "vals": core.enc_list(vals)})
    judge_meta.append((meta, li))

  for idx, spec in enumerate(specs):
    b = build(rng, spec, idx)
    model = b.model
    layers = [it for it in b.items if it["kind"] == "layer"]
    # effective weights of the first q-layer (for input alignment) — evaluates the quantizers eagerly
    first = layers[0]
    k0, _ = eff_weights(first["layer"])
    first_is_input = b.items[0] is first or (b.items[0]["kind"] == "qact" and len(b.items) > 1 and b.items[1] is first)
    x, tags = inputs_for(rng, b, (expand_groups(k0, first.get("groups", 1)), first["cls"]) if first_is_input else None)
    run_layers(b, x)
    # ---- auto_po2 scales (concrete after the eager run) and the Lean nodes of the layers
    ni = 0
    for it in b.items:
      if it["kind"] == "layer":
        lyr = it["layer"]
        kq, bq_obj = lyr.get_quantizers()[0], lyr.get_quantizers()[1]
        k, bias = eff_weights(lyr)
        it["k"], it["bias"] = k, bias
        scales = None
        if it["wspec"] is not None and it["wspec"][0] == "quantized_bits" and getattr(kq, "alpha", None) == "auto_po2":
          sc = qtools_util.get_scale_from_quantized_bits_with_auto_po2(kq)
          if sc is not None:
            scales = [float(v) for v in np.asarray(sc).ravel()]
        if getattr(kq, "alpha", None) == "auto_po2" and hasattr(kq.scale, "numpy"):
          it["scale"] = np.asarray(kq.scale.numpy(), dtype=np.float64)
        else:
          it["scale"] = None
        it["scales"] = scales
        # a slot without quantizer gets cfg.default_interm_quantizer; `b` is null exactly when use_bias=False
        node = {"t": "layer", "kind": it["cls"], "w": qk_json(kq) if kq is not None else INTERM,
                "b": (qk_json(bq_obj) if bq_obj is not None else INTERM) if lyr.use_bias else None,
                "shape": it["kshape"], "act": qk_json(lyr.activation) if it["aspec"] is not None else None,
                "scales": core.enc_list(scales) if scales else None}
        # the constants `qtools_util.get_weights` hands to update_inference_values (po2 classes read them), and the
        # quantizer object sitting in get_quantizers()[1] of a layer WITHOUT bias
        it["inf_fields"] = {
            "wvals": core.enc_list(k.ravel()) if "po2" in type(kq).__name__ else None,
            "bvals": core.enc_list(bias.ravel()) if (bias is not None and "po2" in type(bq_obj).__name__) else None,
            "unused_b": None if lyr.use_bias else (qk_json(bq_obj) if bq_obj is not None else None)}
        while b.nodes[ni] is not None:
          ni += 1
        b.nodes[ni] = node
        it["node_index"] = ni
    # ---- stream 1: the real QTools, on every route: is_inference=False; is_inference=True with the constants
    #      re-quantized by QTools (model_weights_already_quantized=False) or stored quantized in the layers; and
    #      is_inference=False AGAIN on the same model (the k-th analysis must equal the first)
    src_q = mk(b.src_spec)
    src_arg = {None: [src_q], "tuple": (src_q,), "default": None}[b.src_form]
    src_json = INTERM if b.src_form == "default" else qk_json(src_q)
    any_auto = any(it["scale"] is not None for it in layers)
    inf = spec.get("inference") or ("requant" if idx % 2 == 0 else "stored")
    routes = [("plain", False, True)]
    if inf in ("requant", "both") or any_auto:
      routes.append(("inf_requant", True, False))
    if inf in ("stored", "both") and not any_auto:
      routes.append(("inf_stored", True, True))
    if spec.get("history") or idx % 4 == 0:
      routes.append(("plain_again", False, True))
    key = (spec["stream"], spec["family"], label(b.src_spec) + (b.src_form or ""),
           tuple((it["kind"], it.get("cls"), label(it.get("wspec")), label(it.get("bspec")) if it.get("has_bias", True) else
                  "unused:" + label(it.get("unused_bspec")),
                  label(it.get("aspec") or it.get("spec")), tuple(it.get("kshape", ())),
                  "groups=%d" % it["groups"] if it.get("groups", 1) > 1 else None) for it in b.items))
    first_reports = None
    for route, is_inf, already in routes:
      saved = None
      if route == "inf_stored":
        saved = [(it["layer"], it["layer"].get_weights()) for it in layers]
        for it in layers:
          it["layer"].set_weights([it["k"]] + ([it["bias"]] if it["bias"] is not None else []))
      err = None
      try:
        with quiet():
          qt = run_qtools.QTools(model, process="horowitz", source_quantizers=src_arg, is_inference=is_inf,
                                 weights_path=None, keras_quantizer="fp32", keras_accumulator="fp32",
                                 for_reference=False, model_weights_already_quantized=already)
      except Exception as e:  # pylint: disable=broad-except
        # AssertionError: adjust_accumulator_for_auto_po2 "depth_multiplier must be 1" — the model must reject it too
        err = type(e).__name__
      finally:
        if saved:
          for lyr_, ws_ in saved:
            lyr_.set_weights(ws_)
      nodes = b.nodes
      if is_inf:
        nodes = [dict(n) for n in b.nodes]
        for it in layers:
          nodes[it["node_index"]].update(it["inf_fields"])
      if err is not None:
        run.case(("rejected", route, spec["stream"], spec["family"], idx))
        run.count("qtools_raises_" + err)
        if route != "plain_again":
          chain_lines.append({"op": "chain", "src": src_json, "nodes": nodes, "inference": is_inf})
          chain_meta.append((idx, route, spec, ("rejected", err), None, b))
        continue
      lmap = qt._layer_map["layer_data_type_map"]
      run.case(key + (route,), sample={"stream": spec["stream"], "route": route, "layers": [str(k_) for k_ in key[3]],
                                       "json": {n: dict(v) if hasattr(v, "items") else v
                                                for n, v in list(qt._output_dict.items())[1:2]}}
               if len(run.samples) < 4 else None)
      run.count("route_" + route)
      if route == "plain":
        run.count("stream_" + spec["stream"])
        run.count("family_" + spec["family"])
        if b.src_form:
          run.count("source_quantizers_as_" + b.src_form)
      impl_reports = []
      for it in b.items:
        item = lmap[it["layer"]]
        il = qtools_util.get_val(item, "input_quantizer_list")
        rep = {"input": qtypes.to_rec(il[0]), "output": rec_of(item, "output_quantizer")}
        if it["kind"] == "layer":
          rep["types"] = {k_: rec_of(item, k_) for k_ in ("multiplier", "accumulator", "fused_accumulator")}
          rep["types"]["weight"] = rec_of(item, "weight_quantizer")
          rep["types"]["bias"] = rec_of(item, "bias_quantizer")
          rep["types"]["impl"] = qtools_util.get_val(item, "multiplier").implemented_as()
          # the one field update_inference_values writes (PowerOfTwo.__init__: -1; absent on the other classes)
          rep["counts"] = [int(getattr(qtools_util.get_val(item, k_), "inference_value_counts", -1))
                           for k_ in ("weight_quantizer", "bias_quantizer")]
        impl_reports.append(rep)
      if route == "plain":
        first_reports = impl_reports
      if route == "plain_again":
        # history on one model / one set of quantizer objects: the k-th analysis reports what the first one did
        run.compared += 1
        if impl_reports != first_reports:
          run.disagree("qtools_history", {"model": idx, "stream": spec["stream"], "routes": [r_[0] for r_ in routes]},
                       impl_reports, first_reports)
        continue
      # interface.map_to_json: every record of the layer map against its _output_dict entry
      for it in b.items:
        item = lmap[it["layer"]]
        jd = qt._output_dict[it["layer"].name]
        pairs = [(qtools_util.get_val(item, "input_quantizer_list")[0], jd["input_quantizer_list"][0]),
                 (qtools_util.get_val(item, "output_quantizer"), jd.get("output_quantizer"))]
        if it["kind"] == "layer":
          for k_ in ("weight_quantizer", "bias_quantizer"):
            pairs.append((qtools_util.get_val(item, k_), jd.get(k_)))
          for k_ in ("multiplier", "accumulator", "fused_accumulator"):
            pairs.append((qtools_util.get_val(item, k_).output, jd.get(k_)))
        for qobj, jq in pairs:
          if qobj is None and not jq:
            continue
          pop_lines.append({"op": "populate", "q": qtypes.to_rec(qobj)})
          pop_meta.append((idx, it["layer"].name, {k_: int(v) for k_, v in (jq or {}).items()
                                                   if k_ in ("bits", "int_bits", "is_signed")}))
      chain_lines.append({"op": "chain", "src": src_json, "nodes": nodes, "inference": is_inf})
      chain_meta.append((idx, route, spec, key, impl_reports, b))

      # ---- stream 2: values vs the types reported on this route (judged later in one driver call)
      for pos, (it, rep) in enumerate(zip(b.items, impl_reports)):
        if spec.get("types_only"):
          run.count("values_not_judged(types_only)")
          break
        base = {"model": idx, "route": route, "pos": pos, "stream": spec["stream"], "family": spec["family"]}
        judge(rep["input"], uniq(it["x"]), dict(base, site="layer_input", kindof=it["kind"], cls=it.get("cls"),
                                                 prev=(b.items[pos - 1]["kind"] if pos else "source"),
                                                 prev_cls=(b.items[pos - 1].get("spec") or (None,))[0] if pos else None,
                                                 in_name=rep["input"]["name"]))
        if it["kind"] == "qact":
          aspec = it["spec"]
          judge(rep["output"], uniq(it["y"]),
                dict(base, site="activation", cls=aspec[0], max_value_le1=bool((aspec[1].get("max_value") or 2) <= 1)))
        elif it["kind"] == "pass":
          judge(rep["output"], uniq(it["y"]), dict(base, site="passthrough", in_name=rep["input"]["name"],
                                                   out_name=rep["output"]["name"]))
        else:
          t = rep["types"]
          k, bias, scale = it["k"], it["bias"], it["scale"]
          wname = (it["wspec"] or ("None",))[0]
          if wname in ("quantized_ulaw",):
            continue
          alpha = "auto_po2" if scale is not None else "const"
          kcodes = k / scale if scale is not None else k
          judge(t["weight"], uniq(kcodes), dict(base, site="weight", cls=wname, alpha=alpha))
          if bias is not None:
            judge(t["bias"], uniq(bias), dict(base, site="bias", cls=(it["bspec"] or ("None",))[0]))
          if "pre64" not in it:
            ref = ref_preact(it, k, bias)
            pre = it["pre"].astype(np.float64)
            it["pre64"] = pre
            n_pre += pre.size
            if "bernoulli" in (wname, (it["bspec"] or ("None",))[0]):
              # bernoulli draws a fresh 0/1 sample at EVERY call (also outside training): the kernel the layer used is
              # not the one eff_weights saw; each sample is judged on its own, the recomputation is not comparable
              run.count("preact_recomputation_not_comparable(bernoulli constants are resampled per call)")
            elif not np.array_equal(ref, pre):
              inexact += int(np.sum(ref != pre))
              run.count("preact_float32_inexact_models")
              run.count("preact_float32_inexact_%s_%s_x%s" % (spec["stream"], wname, label(b.src_spec)))
          pre = it["pre64"]
          n_terms = int(np.prod(it["kshape"][:-1])) if it["cls"] != "QDepthwiseConv2D" else int(np.prod(it["kshape"][:-2]))
          acc_key = "fused_accumulator" if (scale is not None) else "accumulator"
          xin = it["x"]
          wrec, xrec = t["weight"], rep["input"]
          # is the worst case most-negative x most-negative everywhere?
          meta = dict(base, site="preactivation", entry=acc_key, w_cls=wname, w_alpha=alpha, w_mode=wrec["mode"],
                      x_mode=xrec["mode"], m_mode=t["multiplier"]["mode"], m_is_po2=bool(t["multiplier"]["is_po2"]),
                      b_mode=(t["bias"]["mode"] if t["bias"] else None), n_terms=n_terms,
                      n_is_pow2=(n_terms & (n_terms - 1)) == 0, cls=it["cls"], groups=it.get("groups", 1))
          meta["_pre"] = pre
          meta["_x"] = xin
          meta["_k"] = k
          meta["_tags"] = tags
          judge(t[acc_key], uniq(pre), meta)
          if it["aspec"] is not None:
            judge(rep["output"], uniq(it["y"]), dict(base, site="activation", cls=it["aspec"][0], max_value_le1=False))
          else:
            # without an activation the layer's output tensor is reported with `accumulator.output`
            judge(rep["output"], uniq(it["y"]), dict(base, site="layer_output", w_alpha=alpha, w_cls=wname))
          if route == "plain":
            run.count("pair_w%d_x%d" % (wrec["mode"], xrec["mode"]))
            run.count("bias_%s" % ("none" if t["bias"] is None else "mode%d" % t["bias"]["mode"]))
            run.count("kernel_class_" + wname)
            if t["bias"] is not None:
              run.count("bias_class_" + (it["bspec"] or ("None",))[0])
            elif it["unused_bspec"] is not None:
              run.count("unused_bias_quantizer_" + it["unused_bspec"][0])

    # ---- stream 3: the estimator, single q-layer models whose kernel re-quantizes idempotently
    resampled = any("bernoulli" in ((it["wspec"] or ("",))[0], (it["bspec"] or ("",))[0]) for it in layers)
    if (len(layers) == 1 and layers[0]["scale"] is None and not resampled
        and spec["stream"] in ("grid", "random", "mostneg", "est_dw", "alias", "est_geom")):
      it = layers[0]
      lyr = it["layer"]
      try:
        with quiet():
          model_save_quantized_weights(model)
      except Exception as e:  # pylint: disable=broad-except
        run.count("save_quantized_weights_error_" + type(e).__name__)
        continue
      ws = lyr.get_weights()
      k = ws[0].astype(np.float64)
      bvec = ws[1].astype(np.float64) if lyr.use_bias else np.zeros((k.shape[-1],))
      if not np.array_equal(k, it["k"].astype(np.float64)):
        run.count("est_saved_kernel_differs_from_effective")
      # the estimator reads the STORED constants, the layer applies its quantizers to them once more: the two only
      # talk about the same numbers when the quantizers are idempotent on the stored values (bernoulli maps 0 to 1,
      # quantized_tanh squashes again)
      k_now, b_now = eff_weights(lyr)
      if not np.array_equal(k_now.astype(np.float64), k) or (lyr.use_bias and not np.array_equal(
          b_now.astype(np.float64), ws[1].astype(np.float64))):
        run.count("est_skipped_quantizer_not_idempotent_" + (it["wspec"] or ("None",))[0])
        tf.keras.backend.clear_session()
        continue
      # the range of the tensor feeding the layer, from the values actually seen, widened a little
      xin = it["x"]
      choices = [(float(xin.min()), float(xin.max())), (-1.0, 1.0), (-0.5, 0.5), (0.0, 1.0), (-2.0, 0.25), (-1.0, 2.0)]
      xmin, xmax = choices[int(rng.integers(0, len(choices)))]
      if xmin > xmax or xmin == xmax:
        xmin, xmax = -1.0, 1.0
      if "est_range" in spec:
        xmin, xmax = spec["est_range"]
      # every model is ALSO sized for stated ranges that exclude zero (one strictly positive, one strictly negative or a
      # degenerate point); the geometry stream takes the whole list
      if spec.get("est_ranges"):
        ranges = list(EST_RANGES)
      else:
        zx = [r_ for r_ in EST_RANGES if r_[0] > 0 or r_[1] < 0]
        ranges = [(xmin, xmax), zx[idx % len(zx)], zx[(idx // len(zx) + idx + 3) % len(zx)]]
      # one flattened kernel slice per OUTPUT channel, from the layer semantics (not from the implementation's
      # indexing): dense / conv: k[..., o]; depthwise (kh, kw, cin, dm): output channel c*dm + m <- k[:, :, c, m]
      if it["cls"] == "QDepthwiseConv2D":
        cin_, dm_ = k.shape[-2], k.shape[-1]
        chan = [k[:, :, c, m] for c in range(cin_) for m in range(dm_)]
      else:
        chan = [k[..., o] for o in range(k.shape[-1])]
      if not lyr.use_bias:
        bvec = np.zeros((len(chan),))
      slices = [core.enc_list(c_.ravel()) for c_ in chan]
      ish = tuple(xin.shape[1:])
      # exact worst-case corners of every output element, from the REAL layer's impulse responses
      masks, jac = layer_extremal_masks(lyr, ish)
      padded = bool(np.any((jac != 0).sum(axis=0) < (jac != 0).sum(axis=0).max())) if jac.size else False
      g = it["geom"]
      for ri, (xmin, xmax) in enumerate(ranges):
        form = (idx + ri) % 5
        try:
          with np.errstate(all="ignore"), quiet():
            res = analyze_accumulator(model, {lyr.name: range_form(xmin, xmax, form)})
          impl = {"ok": int(res[lyr.name])}
        except (OverflowError, IndexError, ValueError) as e:
          impl = {"err": type(e).__name__}
        est_lines.append({"op": "est", "slices": slices, "bias": core.enc_list(bvec),
                          "xmin": core.rj(xmin), "xmax": core.rj(xmax)})
        # measured max |output| of the REAL layer on extremal inputs inside [xmin, xmax]
        n_out = k.shape[-1]
        pats = []
        for c in range(n_out):
          pat = k[..., c]
          sgn = np.ones(ish)
          if pat.shape == ish:
            sgn = np.where(pat > 0, 1.0, -1.0)
          else:
            try:
              sgn[tuple(slice(0, s) for s in pat.shape)] = np.where(pat > 0, 1.0, -1.0)
            except Exception:  # pylint: disable=broad-except
              pass
          if it["cls"] == "QDepthwiseConv2D" and k.ndim == 4:
            sgn = np.ones(ish)
            blk = np.where(k[..., c] > 0, 1.0, -1.0)          # (kh, kw, cin)
            sgn[: blk.shape[0], : blk.shape[1], :] = blk
          pats.append(np.where(sgn > 0, xmax, xmin))
          pats.append(np.where(sgn > 0, xmin, xmax))
        pats.append(np.full(ish, xmax))
        pats.append(np.full(ish, xmin))
        pats.extend(np.where(masks, xmax, xmin))
        pats.extend(np.where(masks, xmin, xmax))
        xb = np.stack(pats).astype(np.float32)
        yb = lyr(tf.constant(xb)).numpy().astype(np.float64)
        flat = np.abs(yb).reshape(-1, yb.shape[-1])
        per_chan = flat.max(axis=0)
        worst = int(np.argmax(flat.max(axis=1))) // max(1, int(np.prod(yb.shape[1:-1])))
        est_meta.append(dict(model=idx, family=spec["family"], cls=it["cls"], impl=impl, xmin=xmin, xmax=xmax,
                             shape=[int(v) for v in k.shape], per_chan=[float(v) for v in per_chan],
                             bias_nonzero=bool(np.any(bvec != 0)), wlabel=label(it["wspec"]),
                             padding=g["padding"], strides=int(g["strides"]), dilation=int(g["dilation"]),
                             range_class=range_class(xmin, xmax), range_form=form, border_taps_on_padding=padded,
                             input_shape=list(ish), kernel=[float(v) for v in k.ravel()[:64]],
                             bias=[float(v) for v in bvec], worst_input=[float(v) for v in xb[worst].ravel()[:100]]))
        run.count("est_range_" + range_class(xmin, xmax))
        run.count("est_geom_%s_s%d_d%d" % (g["padding"], int(g["strides"]), int(g["dilation"])))
        if padded and (xmin > 0 or xmax < 0):
          run.count("est_padded_border_with_zero_excluding_range")
      # ---- route analyze_accumulator_from_sample(mode="conservative"): the stated range is DERIVED from a sample batch
      #      at the layer's input.  Design "spans": the first sample already holds the batch minimum and maximum; design
      #      "narrow": the first sample is constant, the extremes come later in the batch.  Each on the model itself (ONE
      #      quantized layer: predict returns a bare array, which the function has to wrap — repaired finding
      #      C18-from-sample-single-layer, fix round R) and, for "narrow", on a twin with a second quantized layer beside
      #      it (predict returns a list per layer there).  Judged against the range of the WHOLE batch: its own samples
      #      and the exact corners.  No known entry absorbs a failure here any more: a size derived from the first
      #      sample only is a VIOLATION (and a model / implementation disagreement).  mode="sampled" is judged too.
      if spec.get("est_ranges") and b.items[0] is it and (idx % 2 == 0 or tier != "quick"):
        zr = [r_ for r_ in EST_RANGES if r_ != (0.0, 0.0)]
        lo_, hi_ = zr[(idx // 2) % len(zr)]
        mid_ = lo_ + (hi_ - lo_) * 0.25
        smp = [np.full(ish, mid_), np.full(ish, hi_), np.full(ish, lo_),
               np.where(masks[len(masks) // 2], hi_, lo_), np.where(masks[0], lo_, hi_)]
        spans = [np.where(np.arange(int(np.prod(ish))).reshape(ish) % 2 == 0, hi_, lo_)] + smp[1:]
        twin = None
        for design, batch, single in (("spans", spans, True), ("narrow", smp, True), ("narrow", smp, False)):
          xb = np.stack(batch).astype(np.float32)
          mdl = model
          if not single:
            x2 = tf.keras.layers.Input(ish, name="in%d_twin" % idx)
            l2 = lyr.__class__.from_config(lyr.get_config())
            y1 = l2(x2)
            l2.set_weights(lyr.get_weights())
            from qkeras import QDense as _QDense
            y2 = _QDense(1, kernel_quantizer=Q.quantized_bits(4, 0, 1, alpha=1), use_bias=False,
                         name="L%d_extra" % idx)(tf.keras.layers.Flatten(name="L%d_flat" % idx)(x2))
            mdl = twin = tf.keras.Model(x2, [y1, y2])
          try:
            with np.errstate(all="ignore"), quiet():
              res = analyze_accumulator_from_sample(mdl, xb, mode="conservative")
            impl = {"ok": int(res[lyr.name])}
          except (OverflowError, IndexError, ValueError) as e:
            impl = {"err": type(e).__name__}
          # mode="sampled" (the other predict call of the function, same batch): its stated range is the sample itself
          try:
            with np.errstate(all="ignore"), quiet():
              res_s = analyze_accumulator_from_sample(mdl, xb, mode="sampled")
            impl_s = {"ok": int(res_s[lyr.name])}
          except (OverflowError, IndexError, ValueError, KeyError) as e:
            impl_s = {"err": type(e).__name__}
          fs_lines.append({"op": "from_sample", "single": single, "slices": slices, "bias": core.enc_list(bvec),
                           "samples": [core.enc_list(v.ravel()) for v in xb.astype(np.float64)]})
          pats = list(xb) + list(np.where(masks, hi_, lo_)) + list(np.where(masks, lo_, hi_))
          xw = np.stack(pats).astype(np.float32)
          yb = lyr(tf.constant(xw)).numpy().astype(np.float64)
          flat = np.abs(yb).reshape(len(xw), -1, yb.shape[-1]).max(axis=1)        # (inputs, channels)
          on_sample = flat[: len(xb)].max(axis=0)
          worst = int(np.argmax(flat.max(axis=1)))
          fs_meta.append(dict(model=idx, cls=it["cls"], impl=impl, impl_sampled=impl_s, design=design, single=single, lo=lo_, hi=hi_,
                              shape=[int(v) for v in k.shape], padding=g["padding"], per_chan=[float(v) for v in flat.max(axis=0)],
                              per_chan_on_sample=[float(v) for v in on_sample], range_class=range_class(lo_, hi_),
                              input_shape=list(ish), kernel=[float(v) for v in k.ravel()[:64]], bias=[float(v) for v in bvec],
                              first_sample=[float(v) for v in xb[0].ravel()[:50]],
                              worst_input=[float(v) for v in xw[worst].ravel()[:100]], worst_is_sample=worst < len(xb)))
          run.count("from_sample_%s_%s" % (design, "one_qlayer" if single else "two_qlayers"))
      run.count("est_" + it["cls"])
    tf.keras.backend.clear_session()

  # ------------------------------------------------------------------ Lean: types
  outs = core.run_driver("C18", chain_lines)
  mirrored = {}
  for (idx, route, spec, key, impl_reports, b), line, o in zip(chain_meta, chain_lines, outs):
    run.compared += 1
    ok = True
    if impl_reports is None:
      # the real QTools raised.  The depthwise auto_po2 assert is a documented refusal; anything else means the
      # data-type map the property talks about is not produced at all for a valid model
      exc = key[1]
      agree = o.get("err") == exc
      if not agree:
        run.disagree("chain_types", {"model": idx, "route": route, "nodes": line["nodes"]}, {"err": exc}, o)
      if exc != "AssertionError":
        lyrs = [it for it in b.items if it["kind"] == "layer"]
        run.violate("qtools_reports_types",
                    {"site": "qtools_raises", "exc": exc, "is_inference": line["inference"],
                     "unused_bias_is_po2": any("po2" in (it["unused_bspec"] or ("",))[0] for it in lyrs)},
                    {"model": idx, "route": route, "stream": spec["stream"], "family": spec["family"],
                     "layers": [(it["cls"], label(it["wspec"]), "use_bias=%s" % it["has_bias"],
                                 "bias_quantizer=" + label(it["bspec"] if it["has_bias"] else it["unused_bspec"]))
                                for it in lyrs]}, mirrored=agree)
      continue
    if "err" in o:
      run.disagree("chain_types", {"model": idx, "route": route, "key": str(key)}, impl_reports, o)
      mirrored[(idx, route)] = False
      continue
    counts = o.get("counts")
    for pos, (ir, mr) in enumerate(zip(impl_reports, o["reports"])):
      diffs = {}
      for f in ("input", "output"):
        d = recs_differ(ir[f], mr[f])
        if d:
          diffs[f] = d
      if "types" in ir:
        mt = mr["types"]
        for f in ("weight", "bias", "multiplier", "accumulator", "fused_accumulator"):
          d = recs_differ(ir["types"][f], mt[f])
          if d:
            diffs[f] = d
        if ir["types"]["impl"] != mt["impl"]:
          diffs["impl"] = (ir["types"]["impl"], mt["impl"])
        mc = [int(v) for v in counts[pos]] if counts is not None else [-1, -1]
        if ir["counts"] != mc:
          diffs["inference_value_counts"] = (ir["counts"], mc)
      run.compared += 1
      if diffs:
        ok = False
        run.disagree("chain_types", {"model": idx, "route": route, "pos": pos, "stream": spec["stream"],
                                     "nodes": line["nodes"], "diffs": diffs}, ir, mr)
    mirrored[(idx, route)] = ok

  outs = core.run_driver("C18", pop_lines)
  for (idx, lname, jd), line, o in zip(pop_meta, pop_lines, outs):
    run.compared += 1
    if {k_: int(v) for k_, v in o.items()} != jd:
      run.disagree("output_dict", {"model": idx, "layer": lname, "record": line["q"]}, jd, o)
  run.count("output_dict_entries", len(pop_lines))

  # ------------------------------------------------------------------ Lean: clause oracle on values
  outs = core.run_driver("C18", judge_lines)
  n_vals = sum(o["n"] for o in outs)
  failed = {}
  for meta, li in judge_meta:
    o = outs[li]
    run.count("judged_" + meta["site"])
    if o["bad"]:
      failed[(meta["model"], meta["route"], meta["pos"], meta["site"])] = True
  reports_of = {(idx, route): impl_reports for (idx, route, _, _, impl_reports, _) in chain_meta if impl_reports is not None}
  config_of = {idx: {"source": key_[2], "nodes": [" / ".join(str(v) for v in k_ if v not in (None, "None", ())) for k_ in key_[3]]}
               for (idx, _, _, key_, impl_reports, _) in chain_meta if impl_reports is not None}
  for meta, li in judge_meta:
    o, line = outs[li], judge_lines[li]
    if not o["bad"]:
      continue
    bad = o["bad"][0]
    why = bad["why"]
    v = core.unrj(bad["v"])
    site = meta["site"]
    mi, route, pos = meta["model"], meta["route"], meta["pos"]
    keyd = {"site": site, "why": why, "route": route}
    detail = {"model": mi, "pos": pos, "stream": meta["stream"], "family": meta["family"],
              "reported_type": line["q"], "value": str(v), "n_bad_shown": len(o["bad"]),
              "config": config_of.get(mi)}
    if site == "preactivation":
      # C18_preactivation's hypotheses: inputs, weights and bias are values of their reported types.
      # Where they are not (an upstream finding), the pre-activation failure is its consequence.
      if any(failed.get((mi, route, pos, s_)) for s_ in ("layer_input", "weight", "bias")):
        run.count("preactivation_failure_with_failed_hypothesis(skipped)")
        continue
      pre, xin, k = meta["_pre"], meta["_x"], meta["_k"]
      tags = meta["_tags"]
      # which input produced it, and was every product most-negative x most-negative?
      loc = np.argwhere(pre == float(v))
      bi = int(loc[0][0]) if len(loc) else -1
      allneg = False
      if bi >= 0:
        kmin = float(k.min())
        xmin_ = float(xin.min())
        co = int(loc[0][-1])
        if meta["cls"] == "QDepthwiseConv2D":
          dm = k.shape[-1]
          kc = k[:, :, co // dm, co % dm]
        else:
          kc = k[..., co]
        allneg = bool(np.all(kc == kmin) and np.all(xin[bi] == xmin_) and kmin < 0 and xmin_ < 0 and float(v) > 0)
      keyd.update({"entry": meta["entry"], "w_cls": meta["w_cls"], "w_alpha": meta["w_alpha"], "w_mode": meta["w_mode"],
                   "x_mode": meta["x_mode"], "m_mode": meta["m_mode"], "m_is_po2": meta["m_is_po2"],
                   "b_mode": meta["b_mode"], "n_is_pow2": meta["n_is_pow2"], "all_mostneg": allneg})
      detail.update({"layer": meta["cls"], "n_terms": meta["n_terms"], "input_tag": tags[bi] if 0 <= bi < len(tags) else "?",
                     "groups": meta.get("groups", 1), "kernel_shape": [int(v_) for v_ in k.shape],
                     "failing_input_flat": [float(v_) for v_ in xin[bi].ravel()[:64]] if bi >= 0 else None,
                     "output_channel": co if bi >= 0 else None,
                     "kernel_slice_flat": [float(v_) for v_ in kc.ravel()[:64]] if bi >= 0 else None})
    elif site == "activation":
      keyd.update({"cls": meta["cls"], "max_value_le1": meta["max_value_le1"]})
    elif site == "layer_output":
      if failed.get((mi, route, pos, "preactivation")) and meta["w_alpha"] != "auto_po2":
        run.count("layer_output_same_as_preactivation_failure(skipped)")
        continue
      keyd.update({"w_alpha": meta["w_alpha"], "w_cls": meta["w_cls"]})
    elif site == "weight":
      keyd.update({"cls": meta["cls"], "alpha": meta["alpha"]})
    elif site == "bias":
      keyd.update({"cls": meta["cls"]})
    elif site == "passthrough":
      if failed.get((mi, route, pos, "layer_input")) and meta["in_name"] == meta["out_name"]:
        run.count("passthrough_same_as_input_failure(skipped)")
        continue
      keyd.update({"in_name": meta["in_name"], "out_name": meta["out_name"]})
    elif site == "layer_input":
      # the consumer-side view of the producer's output tensor: same tensor, same reported type
      reps = reports_of[(mi, route)]
      if pos > 0 and not recs_differ(reps[pos]["input"], reps[pos - 1]["output"]) and any(
          failed.get((mi, route, pos - 1, s_)) for s_ in ("activation", "passthrough", "layer_output")):
        run.count("layer_input_same_as_producer_failure(skipped)")
        continue
      keyd.update({"prev": meta["prev"], "prev_cls": meta["prev_cls"], "in_name": meta["in_name"]})
    run.violate("value_fits_reported_type", keyd, detail, mirrored=mirrored.get((mi, route), False))
  for m, _ in judge_meta:
    for k_ in ("_pre", "_x", "_k", "_tags"):
      m.pop(k_, None)
  run.extra["values_judged"] = n_vals
  run.extra["value_requests"] = len(judge_meta)
  run.extra["preactivation_elements"] = n_pre
  run.extra["preactivation_elements_float32_inexact"] = inexact

  # ------------------------------------------------------------------ Lean: estimator
  outs = core.run_driver("C18", est_lines)
  for meta, line, o in zip(est_meta, est_lines, outs):
    run.compared += 1
    mres = o["result"]
    agree = (mres == meta["impl"])
    if not agree:
      run.disagree("analyze_accumulator", {k_: meta[k_] for k_ in ("model", "cls", "shape", "xmin", "xmax", "wlabel", "padding",
                                                                   "range_class", "range_form")},
                   meta["impl"], mres)
    rank = len(meta["shape"])
    if "err" in meta["impl"]:
      run.count("est_raises_" + meta["impl"]["err"])
      # the estimator cannot size a valid layer: only acceptable when every output channel is identically zero
      # on the range (OverflowError on log2 0, Props.C18.C18_estimator_overflow_only_zero)
      nonzero = any(v > 0 for v in meta["per_chan"])
      if meta["impl"]["err"] != "OverflowError" or nonzero:
        run.violate("estimator_bounds_output",
                    {"site": "estimator", "exc": meta["impl"]["err"], "cls": meta["cls"], "rank": rank},
                    {"layer": meta["cls"], "kernel_shape": meta["shape"], "range": [meta["xmin"], meta["xmax"]],
                     "max_abs_output_per_channel": meta["per_chan"]}, mirrored=agree)
      continue
    est = meta["impl"]["ok"]
    bound = 2.0 ** est
    badc = [c for c, v in enumerate(meta["per_chan"]) if v > bound]
    run.count("est_ok")
    run.count("est_ok_bias_nonzero" if meta["bias_nonzero"] else "est_ok_bias_zero")
    if badc:
      run.violate("estimator_bounds_output",
                  {"site": "estimator", "exc": None, "cls": meta["cls"], "rank": rank,
                   "bias_nonzero": meta["bias_nonzero"], "padding": meta["padding"], "range_class": meta["range_class"]},
                  {"layer": meta["cls"], "kernel": meta["wlabel"], "kernel_shape": meta["shape"],
                   "padding": meta["padding"], "strides": meta["strides"], "dilation_rate": meta["dilation"],
                   "range": [meta["xmin"], meta["xmax"]], "range_form": meta["range_form"], "estimate": est,
                   "max_abs_output_per_channel": meta["per_chan"], "channels_over": badc,
                   "input_shape": meta["input_shape"], "kernel_values_flat": meta["kernel"], "bias_values": meta["bias"],
                   "failing_input_flat": meta["worst_input"], "model_estimate": mres},
                  mirrored=agree)

  # ------------------------------------------------------------------ Lean: estimator from a sample
  outs = core.run_driver("C18", fs_lines)
  for meta, line, o in zip(fs_meta, fs_lines, outs):
    run.compared += 1
    mres = o["result"]
    agree = (mres == meta["impl"])
    if not agree:
      run.disagree("analyze_accumulator_from_sample",
                   {k_: meta[k_] for k_ in ("model", "cls", "shape", "design", "single", "lo", "hi", "padding")},
                   meta["impl"], {"result": mres, "range": [float(core.unrj(v)) for v in o["range"]]})
    key = {"site": "estimator_from_sample", "cls": meta["cls"], "one_quantized_layer": meta["single"],
           "first_sample_spans_batch_range": meta["design"] == "spans", "padding": meta["padding"]}
    detail = {"layer": meta["cls"], "kernel_shape": meta["shape"], "padding": meta["padding"],
              "sample_batch_range": [meta["lo"], meta["hi"]], "first_sample_flat": meta["first_sample"],
              "result": meta["impl"], "model_result": mres, "model_derived_range": [float(core.unrj(v)) for v in o["range"]],
              "max_abs_output_per_channel_on_the_sample": meta["per_chan_on_sample"],
              "max_abs_output_per_channel_on_the_batch_range": meta["per_chan"], "input_shape": meta["input_shape"],
              "kernel_values_flat": meta["kernel"], "bias_values": meta["bias"],
              "failing_input_flat": meta["worst_input"], "failing_input_is_a_sample": meta["worst_is_sample"]}
    # mode="sampled": 2^size bounds every output of every sample of the batch (no model: judged on the real outputs)
    run.compared += 1
    ims = meta["impl_sampled"]
    top = max(meta["per_chan_on_sample"]) if meta["per_chan_on_sample"] else 0.0
    if "err" in ims or top > 2.0 ** ims["ok"]:
      run.violate("estimator_bounds_output", dict(key, mode="sampled", exc=ims.get("err")),
                  dict(detail, result=ims, model_result=None), mirrored=False)
    else:
      run.count("from_sample_sampled_ok")
    if "err" in meta["impl"]:
      run.count("from_sample_raises_" + meta["impl"]["err"])
      if meta["impl"]["err"] != "OverflowError" or any(v > 0 for v in meta["per_chan"]):
        run.violate("estimator_bounds_output", dict(key, exc=meta["impl"]["err"]), detail, mirrored=agree)
      continue
    bound = 2.0 ** meta["impl"]["ok"]
    badc = [c for c, v in enumerate(meta["per_chan"]) if v > bound]
    run.count("from_sample_ok")
    if badc:
      run.violate("estimator_bounds_output", dict(key, exc=None), dict(detail, channels_over=badc), mirrored=agree)

  # ------------------------------------------------------------------ po2 real exponent range vs model
  lines, meta = [], []
  xs = np.array([0.0, 1e-30, 1e-9, 2.0 ** -20, 1e-3, 0.3, 1.0, 3.0, 100.0, 2.0 ** 20, -1e-30, -0.3, -2.0 ** 20], np.float32)
  for bits in (2, 3, 4, 5):
    for mv in (None, 0.25, 0.5, 1, 2, 4, 8, 1.5, 3, 5, 6):
      for relu in (False, True):
        q = (Q.quantized_relu_po2 if relu else Q.quantized_po2)(bits, mv)
        y = q(tf.constant(xs)).numpy().astype(np.float64)
        es = np.log2(np.abs(y))
        lines.append({"op": "po2range", "bits": bits, "is_relu": relu, "max_value": None if mv is None else core.rj(mv)})
        meta.append((bits, mv, relu, int(es.min()), int(es.max()), y))
  outs = core.run_driver("C18", lines)
  jl, jm = [], []
  from qkeras.qtools.quantized_operators import quantizer_factory
  qf = quantizer_factory.QuantizerFactory()
  for (bits, mv, relu, emin, emax, y), o in zip(meta, outs):
    run.compared += 1
    run.case(("po2range", bits, mv, relu))
    if (o["min_exp"], o["max_exp"]) != (emin, emax):
      run.disagree("po2_real_range", {"bits": bits, "max_value": mv, "relu": relu}, [emin, emax], [o["min_exp"], o["max_exp"]])
    q = (Q.quantized_relu_po2 if relu else Q.quantized_po2)(bits, mv)
    jl.append({"op": "judge", "q": qtypes.to_rec(qf.make_quantizer(q)), "vals": core.enc_list(uniq(y))})
    jm.append((bits, mv, relu, (o["min_exp"], o["max_exp"]) == (emin, emax)))
  outs = core.run_driver("C18", jl)
  for (bits, mv, relu, agree), o in zip(jm, outs):
    if o["bad"]:
      run.violate("value_fits_reported_type",
                  {"site": "quantizer_output", "cls": "quantized_relu_po2" if relu else "quantized_po2",
                   "max_value_le1": bool(mv is not None and mv <= 1), "why": o["bad"][0]["why"]},
                  {"bits": bits, "max_value": mv, "value": str(core.unrj(o["bad"][0]["v"]))}, mirrored=agree)

  # ------------------------------------------------------------------ for_reference / plain Keras layers
  import tensorflow.keras as keras
  from qkeras import QDense, QConv2D
  lines, meta = [], []
  for ref_case in range(4 if tier == "quick" else 12):
    kq = [None, "int8", "fp16", "int16"][ref_case % 4]
    ka = [None, "int16", "fp32", "int32"][ref_case % 4]
    use_bias = bool(ref_case % 2 == 0)
    x_in = keras.layers.Input((3, 3, 2) if ref_case % 2 else (4,), name="rin%d" % ref_case)
    if ref_case % 2:
      lyr = QConv2D(2, (2, 3), kernel_quantizer=mk(qb(4, 0)), bias_quantizer=mk(qb(4, 0, alpha=None)),
                    use_bias=use_bias, name="rl%d" % ref_case)
      kind = "QConv2D"
    else:
      lyr = (keras.layers.Dense(3, use_bias=use_bias, name="rl%d" % ref_case) if ref_case % 4 == 0 else
             QDense(3, kernel_quantizer=mk(qb(4, 0)), bias_quantizer=mk(qb(4, 0, alpha=None)), use_bias=use_bias,
                    name="rl%d" % ref_case))
      kind = "QDense"
    model = keras.Model(x_in, lyr(x_in))
    src = Q.quantized_bits(4, 0, 0)
    # a plain Keras layer takes the same path without for_reference
    for_ref = hasattr(lyr, "get_quantizers")
    with quiet():
      qt = run_qtools.QTools(model, process="horowitz", source_quantizers=[src], is_inference=False, weights_path=None,
                             keras_quantizer=kq, keras_accumulator=ka, for_reference=for_ref)
    item = qt._layer_map["layer_data_type_map"][lyr]
    impl = {k_: rec_of(item, k_) for k_ in ("multiplier", "accumulator", "fused_accumulator", "weight_quantizer",
                                            "bias_quantizer")}
    lines.append({"op": "layer_ref", "x": qk_json(src), "kind": kind, "shape": [int(v) for v in lyr.get_weights()[0].shape],
                  "use_bias": use_bias, "interm": INTERM, "keras_quantizer": kq, "keras_accumulator": ka})
    meta.append((ref_case, kind, kq, ka, use_bias, for_ref, impl))
    tf.keras.backend.clear_session()
  outs = core.run_driver("C18", lines)
  for (ref_case, kind, kq, ka, use_bias, for_ref, impl), o in zip(meta, outs):
    run.compared += 1
    run.case(("layer_ref", kind, kq, ka, use_bias, for_ref))
    run.count("for_reference_or_keras_layer")
    if "err" in o:
      run.disagree("layer_ref", {"case": ref_case}, impl, o)
      continue
    mt = o["types"]
    diffs = {}
    for f, g in (("multiplier", "multiplier"), ("accumulator", "accumulator"), ("fused_accumulator", "fused_accumulator"),
                 ("weight_quantizer", "weight"), ("bias_quantizer", "bias")):
      d = recs_differ(impl[f], mt[g])
      if d:
        diffs[f] = d
    if diffs:
      run.disagree("layer_ref", {"case": ref_case, "kind": kind, "keras_quantizer": kq, "keras_accumulator": ka,
                                 "use_bias": use_bias, "for_reference": for_ref, "diffs": diffs}, impl, mt)

  run.assumptions.append(
      "real layers run in float32; the generated weights/inputs are short dyadics (<= 6+8 bits, fan-in <= 54) so "
      "every pre-activation is exact — checked per model against a float64 recomputation "
      "(preactivation_elements_float32_inexact in the evidence)")
  run.assumptions.append(
      "graph construction (qgraph.CreateGraph on Keras tensors) is exercised, not modelled: the Lean chain model "
      "covers sequential models with one predecessor per node")
  run.assumptions.append(
      "np.log2 / np.ceil in analyze_accumulator are tied to the exact ceil(log2 .) on short-dyadic bounds only")
