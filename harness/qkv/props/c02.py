"""C02 — fixed-point quantization is the nearest-code projection (round, clip, monotone)."""
from fractions import Fraction as F

import numpy as np

from .. import core, fixedq


KERAS3_PASS = True   # thorough tier repeats the tie under the pinned Keras 3


def _judge_sign(run, r, key0):
  """the clauses of the property on a two-code format {lo, hi} (quantized_linear(1, keep_negative=1): +-qs/2;
  quantized_bits(1, keep_negative=1): +-alpha), judged on the real outputs in exact arithmetic, independent of
  the model (Props.C02: C02_linear_sign_codes / _never_zero / _nearest / _is_code_nearest / _saturate,
  C02_bits_sign_codes / _nearest):
    code_set  every output is one of the two codes (in particular never 0: "otherwise the binary quantizer
              would have three output values")
    nearest   no code is strictly closer to the input (in range: at most half the code distance away)
    saturate  at and beyond a code: that code
  Band device (DESIGN 3.2) for quantized_linear only: for -qs*2^-24 <= x < 0 the float32 sum x/qs - 1/2 is
  exactly -1/2 and tf.round(-1/2) = -0, so the real code may take the upper code there: `nearest` gets the
  slack qs*2^-24 (the input is that close to the tie at 0)."""
  codes = fixedq.sign_codes(r.kind, r.cfg)
  if codes is None:
    run.count("sign_format_unjudged")      # 0-bit unsigned quantized_bits: never generated
    return
  lo, hi, gain = codes
  span = hi - lo
  tol = span / 2 ** 24 if r.kind == "qlinear" else F(0)
  key = dict(key0, format="sign-1bit")
  run.count("sign_records")
  for x, y in zip(r.xs, r.ys):
    yy = y / gain
    run.count("sign_points")
    if x == 0:
      run.count("sign_points_at_zero")
    if yy != lo and yy != hi:
      run.violate("code_set", dict(key, why="zero-output" if y == 0 else "not-a-code",
                                   at="zero-input" if x == 0 else "nonzero-input"),
                  {"config": r.label, "x": str(x), "y": str(y), "codes": [str(lo * gain), str(hi * gain)]},
                  mirrored=r.mirrored)
      continue
    if x >= hi or x <= lo:
      want = hi if x >= hi else lo
      if yy != want:
        run.violate("saturate", dict(key, region="high" if x >= hi else "low"),
                    {"config": r.label, "x": str(x), "y": str(y), "expected": str(want * gain)},
                    mirrored=r.mirrored)
    else:
      run.count("in_range")
      best = min(abs(lo - x), abs(hi - x))
      if abs(yy - x) > best + tol or abs(yy - x) > span / 2 + tol:
        run.violate("nearest", dict(key, region="in-range", why="other-code-closer"),
                    {"config": r.label, "x": str(x), "y": str(y), "codes": [str(lo * gain), str(hi * gain)]},
                    mirrored=r.mirrored)


def run(run: core.Run, tier: str):
  import tensorflow as tf
  recs = fixedq.collect(run, tier, "C02")
  run.extra["rule"] = (
      "same configuration sample and breakpoint-complete input stream as C01 (every code's lattice point and "
      "rounding breakpoint +-1,2 ulp, saturation edges, zeros, +-(2^24-1) steps, random); per point the real "
      "output is judged against the exact rational reference: nearest code (half a step, +2^-24 slack for the "
      "float hard-sigmoid surrogates), end code outside the range, monotone over the sorted stream, and "
      "q(q(x)) = q(x) for linear / scale-free bits / plain ReLU; non-trivial = distinct (configuration, input); "
      "PLUS the strengthening families of C01 (per-channel alpha tensors, quantized_relu x is_quantized_clip x "
      "relu_upper_bound x slope judged against the float activation x_u, the module-level _sigmoid switch: "
      "mode at construction x mode at call judged against the surrogate of the CALL-time mode, "
      "construct-with-decoy-then-assign, and the histories on ONE object of fixedq_hist: every call of a history "
      "is judged for nearest / saturate / monotone / idempotent against the format of the attributes the object "
      "has at THAT call; after _set_trainable_parameter() given the data-dependent scale the object reports); "
      "PLUS family stoch-phase: every class with use_stochastic_rounding set (flag as bool / int / np.bool_ / "
      "np.int32, constructor argument or assigned later) called in the inference phase reached by every route "
      "(phase never touched / set_learning_phase(0) / learning_phase_scope(0) / after a training-phase call / "
      "after leaving scope(1) / object constructed in the training phase / through QActivation with and without "
      "training=False / inside a tf.function), and with the flag OFF in the training phase: same model "
      "(QKV.qbitsS etc. with the flag and the phase, arbitrary draws), same clauses nearest / saturate / monotone "
      "/ idempotent, plus `deterministic`: the same call twice gives the same tensor; "
      "PLUS family sign-1bit (round 4): the 1-bit SIGN formats quantized_linear(1, keep_negative=1) (codes +-qs/2) "
      "and quantized_bits(1, keep_negative=1) (codes +-alpha) in EVERY run and judged on their code set (clause "
      "`code_set`: one of the two codes, never 0; `nearest`: no code strictly closer; `saturate`; monotone; "
      "idempotent) wherever they occur (base, per-channel, reassign, stoch-phase, and this family): fresh objects "
      "on the breakpoint stream, ONE object through every form the input zero can take (tensor / numpy / list / "
      "float64 / python scalar / 0-d tensor / ranks 2-5 / all-zero and all-negative-zero tensors / int32 / "
      "tf.Variable / QActivation / tf.function / the text route through get_quantizer / once more), the "
      "stochastic flag x phase routes, per-channel alpha tensors, and alpha='auto' / 'auto_po2' / "
      "_set_trainable_parameter() given the scale the object reports (an all-zero channel included)")
  fixedq.compare(run, recs, with_reporters=False)
  for r in recs:
    if r.train:
      continue     # training-phase calls of the stoch family: C01's clauses only (Props.C02: `_within_step_partial`)
    key0 = r.flags()
    if r.ys_again is not None:
      # ---- use_stochastic_rounding in a deterministic round mode (learning phase off, or flag off): two
      # identical calls give identical results (Props.C02.C02_inference_deterministic)
      run.count("deterministic_checked")
      bad = [(str(x), str(a), str(b)) for x, a, b in zip(r.xs, r.ys, r.ys_again) if a != b]
      if bad:
        run.violate("deterministic", key0, {"config": r.label, "x": bad[0][0], "first call": bad[0][1],
                                            "second call": bad[0][2], "n": len(bad)}, mirrored=r.mirrored)
    lat = fixedq.lattice(r.kind, r.cfg)
    if lat is None:
      # 1-bit SIGN formats (strengthening round 4): two codes one step apart; the clauses are judged on the
      # code set directly (below), then monotonicity and idempotence as for every format
      step = lo = hi = gain = None
      _judge_sign(run, r, key0)
    else:
      step, lo, hi, gain = lat
    leaky = r.kind in ("qrelu", "qrelusig") and r.cfg.get("slope_log") is not None
    slack = fixedq.surrogate_slack(r.kind, r.cfg)
    for i, (x, y) in enumerate(zip(r.xs, r.ys)):
      run.case((r.label, x), nontrivial=True)
      if lat is None:
        continue
      if leaky and (r.kind == "qrelusig" or 2 ** (r.cfg["bits"] - 1) < 2 ** r.cfg["slope_log"]):
        continue   # slope below the lsb: outside the lattice (C01 finding), nearest-code is not defined;
        #            use_sigmoid with a leaky slope has no stated underlying activation (model tie only)
      s = fixedq.surrogate_exact(r.kind, r.cfg, x)
      tol = slack
      if s is None:
        # oracle input: TF's tanh / sigmoid value (use_real_*, or the mode "real" at CALL time)
        tol = F(0)
        if r.kind == "qrelusig":
          s = F(2) ** r.cfg["integer"] * max(2 * r.ps[i] - 1, F(0))
        else:
          s = r.ps[i]
      # quantized_relu(use_sigmoid=1) rounds sigma*m and then doubles: codes two steps apart
      grid = 2 if r.kind == "qrelusig" else 1
      yy = y / gain
      if lo * step <= s <= hi * step:
        run.count("in_range")
        if abs(yy - s) > step / 2 + tol:
          why = "beyond-half-step"
          if grid == 2 and abs(yy - s) <= step + tol:
            why = "two-step-grid"
          run.violate("nearest", dict(key0, region="in-range", why=why),
                      {"config": r.label, "x": str(x), "surrogate": str(s), "y": str(y), "step": str(step)},
                      mirrored=r.mirrored)
      elif s > hi * step:
        run.count("saturated_high")
        if yy != hi * step:
          run.violate("saturate", dict(key0, region="high"),
                      {"config": r.label, "x": str(x), "y": str(y), "expected": str(hi * step * gain)},
                      mirrored=r.mirrored)
      else:
        run.count("saturated_low")
        if yy != lo * step:
          run.violate("saturate", dict(key0, region="low"),
                      {"config": r.label, "x": str(x), "y": str(y), "expected": str(lo * step * gain)},
                      mirrored=r.mirrored)
    # ---- monotone non-decreasing (negative constant scales excluded by the lattice: all gains > 0)
    order = sorted(range(len(r.xs)), key=lambda i: r.xs[i])
    for a, b in zip(order, order[1:]):
      if r.xs[a] < r.xs[b] and r.ys[a] > r.ys[b]:
        run.violate("monotone", key0, {"config": r.label, "x1": str(r.xs[a]), "y1": str(r.ys[a]),
                                       "x2": str(r.xs[b]), "y2": str(r.ys[b])}, mirrored=r.mirrored)
        break
    # ---- idempotence: linear (any constant scale), quantized_bits, plain ReLU
    # (not under a data-dependent scale: re-quantizing the output tensor re-derives the scale)
    if (r.kind in ("qlinear", "qbits") or (r.kind == "qrelu" and not leaky)) and not r.cfg.get("auto"):
      ys32 = np.array([float(v) for v in r.ys], dtype=np.float32)
      yy = fixedq.fr(r.call(ys32))
      run.evaluations += len(yy)
      bad = [(str(a), str(b)) for a, b in zip(r.ys, yy) if a != b]
      if bad:
        alpha = r.cfg.get("alpha")
        run.violate("idempotent", dict(key0, alpha_not_1=bool(alpha not in (None, 1.0))),
                    {"config": r.label, "q(x)": bad[0][0], "q(q(x))": bad[0][1], "n": len(bad)},
                    mirrored=r.mirrored)
  run.extra["configurations"] = len(recs)
