"""C02 — fixed-point quantization is the nearest-code projection (round, clip, monotone)."""
from fractions import Fraction as F

import numpy as np

from .. import core, fixedq


KERAS3_PASS = True   # thorough tier repeats the tie under the pinned Keras 3


def run(run: core.Run, tier: str):
  import tensorflow as tf
  recs = fixedq.collect(run, tier, "C02")
  run.extra["rule"] = (
      "same configuration sample and breakpoint-complete input stream as C01 (every code's lattice point and "
      "rounding breakpoint +-1,2 ulp, saturation edges, zeros, +-(2^24-1) steps, random); per point the real "
      "output is judged against the exact rational reference: nearest code (half a step, +2^-24 slack for the "
      "float hard-sigmoid surrogates), end code outside the range, monotone over the sorted stream, and "
      "q(q(x)) = q(x) for linear / scale-free bits / plain ReLU; non-trivial = distinct (configuration, input); "
      "PLUS the strengthening families of C01 (per-channel alpha tensors, quantized_relu x is_quantized_clip x "
      "relu_upper_bound x slope judged against the float activation x_u, the module-level _sigmoid switch: "
      "mode at construction x mode at call judged against the surrogate of the CALL-time mode, "
      "construct-with-decoy-then-assign, and the histories on ONE object of fixedq_hist: every call of a history "
      "is judged for nearest / saturate / monotone / idempotent against the format of the attributes the object "
      "has at THAT call; after _set_trainable_parameter() given the data-dependent scale the object reports); "
      "PLUS family stoch-phase: every class with use_stochastic_rounding set (flag as bool / int / np.bool_ / "
      "np.int32, constructor argument or assigned later) called in the inference phase reached by every route "
      "(phase never touched / set_learning_phase(0) / learning_phase_scope(0) / after a training-phase call / "
      "after leaving scope(1) / object constructed in the training phase / through QActivation with and without "
      "training=False / inside a tf.function), and with the flag OFF in the training phase: same model "
      "(QKV.qbitsS etc. with the flag and the phase, arbitrary draws), same clauses nearest / saturate / monotone "
      "/ idempotent, plus `deterministic`: the same call twice gives the same tensor")
  fixedq.compare(run, recs, with_reporters=False)
  for r in recs:
    if r.train:
      continue     # training-phase calls of the stoch family: C01's clauses only (Props.C02: `_within_step_partial`)
    key0 = r.flags()
    if r.ys_again is not None:
      # ---- use_stochastic_rounding in a deterministic round mode (learning phase off, or flag off): two
      # identical calls give identical results (Props.C02.C02_inference_deterministic)
      run.count("deterministic_checked")
      bad = [(str(x), str(a), str(b)) for x, a, b in zip(r.xs, r.ys, r.ys_again) if a != b]
      if bad:
        run.violate("deterministic", key0, {"config": r.label, "x": bad[0][0], "first call": bad[0][1],
                                            "second call": bad[0][2], "n": len(bad)}, mirrored=r.mirrored)
    lat = fixedq.lattice(r.kind, r.cfg)
    if lat is None:
      # 1-bit sign formats: only monotonicity and idempotence apply
      step = lo = hi = gain = None
    else:
      step, lo, hi, gain = lat
    leaky = r.kind in ("qrelu", "qrelusig") and r.cfg.get("slope_log") is not None
    slack = fixedq.surrogate_slack(r.kind, r.cfg)
    for i, (x, y) in enumerate(zip(r.xs, r.ys)):
      run.case((r.label, x), nontrivial=True)
      if lat is None:
        continue
      if leaky and (r.kind == "qrelusig" or 2 ** (r.cfg["bits"] - 1) < 2 ** r.cfg["slope_log"]):
        continue   # slope below the lsb: outside the lattice (C01 finding), nearest-code is not defined;
        #            use_sigmoid with a leaky slope has no stated underlying activation (model tie only)
      s = fixedq.surrogate_exact(r.kind, r.cfg, x)
      tol = slack
      if s is None:
        # oracle input: TF's tanh / sigmoid value (use_real_*, or the mode "real" at CALL time)
        tol = F(0)
        if r.kind == "qrelusig":
          s = F(2) ** r.cfg["integer"] * max(2 * r.ps[i] - 1, F(0))
        else:
          s = r.ps[i]
      # quantized_relu(use_sigmoid=1) rounds sigma*m and then doubles: codes two steps apart
      grid = 2 if r.kind == "qrelusig" else 1
      yy = y / gain
      if lo * step <= s <= hi * step:
        run.count("in_range")
        if abs(yy - s) > step / 2 + tol:
          why = "beyond-half-step"
          if grid == 2 and abs(yy - s) <= step + tol:
            why = "two-step-grid"
          run.violate("nearest", dict(key0, region="in-range", why=why),
                      {"config": r.label, "x": str(x), "surrogate": str(s), "y": str(y), "step": str(step)},
                      mirrored=r.mirrored)
      elif s > hi * step:
        run.count("saturated_high")
        if yy != hi * step:
          run.violate("saturate", dict(key0, region="high"),
                      {"config": r.label, "x": str(x), "y": str(y), "expected": str(hi * step * gain)},
                      mirrored=r.mirrored)
      else:
        run.count("saturated_low")
        if yy != lo * step:
          run.violate("saturate", dict(key0, region="low"),
                      {"config": r.label, "x": str(x), "y": str(y), "expected": str(lo * step * gain)},
                      mirrored=r.mirrored)
    # ---- monotone non-decreasing (negative constant scales excluded by the lattice: all gains > 0)
    order = sorted(range(len(r.xs)), key=lambda i: r.xs[i])
    for a, b in zip(order, order[1:]):
      if r.xs[a] < r.xs[b] and r.ys[a] > r.ys[b]:
        run.violate("monotone", key0, {"config": r.label, "x1": str(r.xs[a]), "y1": str(r.ys[a]),
                                       "x2": str(r.xs[b]), "y2": str(r.ys[b])}, mirrored=r.mirrored)
        break
    # ---- idempotence: linear (any constant scale), quantized_bits, plain ReLU
    # (not under a data-dependent scale: re-quantizing the output tensor re-derives the scale)
    if (r.kind in ("qlinear", "qbits") or (r.kind == "qrelu" and not leaky)) and not r.cfg.get("auto"):
      ys32 = np.array([float(v) for v in r.ys], dtype=np.float32)
      yy = fixedq.fr(r.call(ys32))
      run.evaluations += len(yy)
      bad = [(str(a), str(b)) for a, b in zip(r.ys, yy) if a != b]
      if bad:
        alpha = r.cfg.get("alpha")
        run.violate("idempotent", dict(key0, alpha_not_1=bool(alpha not in (None, 1.0))),
                    {"config": r.label, "q(x)": bad[0][0], "q(q(x))": bad[0][1], "n": len(bad)},
                    mirrored=r.mirrored)
  run.extra["configurations"] = len(recs)
