"""C05 — auto-scaled fixed point: quantized_bits(alpha='auto'|'auto_po2', post_training_scale) and
quantized_linear(alpha='auto'|'auto_po2').

Streams (all from run.seed):
  exact / general   real output, q.scale (and quantization_scale) compared BIT FOR BIT with the float32
                    form of the Lean model (every inexact float op rounded once, device 1) unless a
                    po2 rounding fell into the band around sqrt(2)*2^k (device 3; then clause oracle only);
  twins             the same tensor multiplied by 2^k: output and scale must scale by 2^k (away from eps);
  absorb            exponent bounds / frozen scales far below the data: the straight-through sum
                    x + (-x + xq) loses xq (finding);
  history           ONE quantizer object used several times (tensors of other rank / other shape / same shape
                    times 2^k / the identical tensor again / all-zero then data; the data format switched and
                    public attributes re-assigned between calls; a frozen post-training scale; an object used
                    stand-alone with alpha=None and then made trainable): after EVERY call the output, the
                    exposed scale (values AND shape) and the attributes are judged by the same clause oracle,
                    compared with the Lean object model (`qbRun` / `qlRun`) and with a FRESH twin quantizer
                    called on that tensor alone; 2^k twins inside one history are checked on the SAME object;
  argforms          the numeric options as numpy / float / 0-d array / tf.constant and the input as
                    numpy / float64 / tf.Variable / nested list: same value => same output and scale;
  consumer          the quantizers as WEIGHT quantizers of small QDense / QConv2D models (kernel and bias, one object
                    shared by two layers; live 'auto' / 'auto_po2' / quantized_linear, or frozen with the post-training
                    scale given as float32 / float64 ndarray, live.scale.numpy(), tf.constant, np.float32, 0-d array,
                    nested list, python float): call, model_save_quantized_weights (the anchored consumer), read, call
                    again, second export, other data, first tensor again, get_weight_scale,
                    clone_model_and_freeze_auto_po2_scale.  After EVERY event the output of the event is judged by the
                    clause oracle against the scale the object exposes NOW, q.scale of a frozen quantizer must still be
                    the configured post-training scale, every instance attribute must be untouched, the object must
                    equal a fresh twin on the same tensor, and the object state / result / exported entries are tied
                    to the Lean event history (`qbRunEv`, QBEvent.save);
  axis-from-end     scale_axis counted from the end (negative ints: int, list, mixed list, with elements_per_scale),
                    every case paired with the same axes counted from the start; histories in which the rank changes
                    under a negative axis or the axis is re-spelled on one object; the Lean model resolves the argument
                    per call (`qbAxis` / `qlAxis`, Model/AutoFxArg.lean);
Clause oracle on the REAL outputs (Python Fractions): y = rnd32(S * k * step) with integer |k| <= 2^(bits-1)-1,
S constant on the SPEC groups and positive, 'auto' maps the group maximum to the top code and clips nothing,
'auto_po2' scales are powers of two within the bounds, everything finite."""
from fractions import Fraction as F

import numpy as np

from .. import autoscale as A
from .. import core


def gen_qbits(rng, tier):
  n_exact, n_general = (240, 80) if tier == "quick" else (1400, 500)
  kinds = ["plain", "plain", "sparse", "zeros", "zero_channel", "one_big", "tiny", "huge"]
  cases = []
  for stream, n in (("exact", n_exact), ("general", n_general)):
    for sh in A.shapes(rng, n, max_elems=128 if tier == "quick" else 256):
      rank = len(sh)
      bits = int(rng.integers(2, 9))
      integer = int(rng.integers(0, 4))
      kn = bool(rng.random() < 0.8)
      po2 = bool(rng.random() < 0.6)
      ch_last = bool(rng.random() < 0.75)
      sa = eps = mn = mx = None
      if rank >= 2:
        t = rng.random()
        if t < 0.3:
          sa = int(rng.integers(0, rank))
        elif t < 0.5:
          k = int(rng.integers(1, rank + 1))
          sa = sorted(rng.choice(rank, size=k, replace=False).tolist())
        if po2 and sa is not None and rng.random() < 0.6:
          axes = sa if isinstance(sa, list) else [sa]
          facs = [int(rng.choice([d for d in (1, 2, 4, 8) if sh[a] % d == 0])) for a in axes]
          eps = (facs if rng.random() < 0.6 else int(min(facs))) if isinstance(sa, list) else facs[0]
      if po2 and rng.random() < 0.4:
        mn = int(rng.integers(-14, 0)) if rng.random() < 0.7 else None
        mx = int(rng.integers(-8, 6)) if rng.random() < 0.7 else None
        # boundary values of the bounds themselves: 0 is a legitimate exponent bound (and falsy in Python)
        t = rng.random()
        if t < 0.12:
          mn = 0
        elif t < 0.24:
          mx = 0
        elif t < 0.30:
          mn = mx = 0
      if stream == "exact":
        x = A.exact_tensor(rng, sh, kinds[int(rng.integers(0, len(kinds)))])
      else:
        x = A.general_tensor(rng, sh, ["normal", "small", "large"][int(rng.integers(0, 3))])
      pts = None
      if rng.random() < 0.12 and rank >= 1:
        # frozen post-training scale: one power of two (or a 3-bit dyadic) per last-axis channel
        pshape = [1] * (rank - 1) + [sh[-1]]
        pts = (rng.integers(1, 8, size=pshape) * np.exp2(rng.integers(-6, 3, size=pshape))).astype(np.float32)
      cases.append(dict(stream=stream, q="qbits", shape=sh, x=x, bits=bits, integer=integer, kn=kn, po2=po2,
                        ch_last=ch_last, sa=sa, eps=eps, mn=mn, mx=mx, pts=pts))
  # twins: x * 2^k for the scale-equivariance clause
  tw = []
  for c in cases:
    if c["stream"] == "exact" and c["pts"] is None and c["mn"] is None and c["mx"] is None and rng.random() < 0.3:
      k = int(rng.choice([-3, 2, 5]))
      d = dict(c)
      d["x"] = (c["x"].astype(np.float64) * 2.0 ** k).astype(np.float32)
      d["stream"] = "twin"
      d["twin_of"] = id(c)
      d["twin_k"] = k
      c["has_twin"] = True
      tw.append((c, d))
  cases += [d for _, d in tw]
  # absorption: exponent bound far below the data
  for xs, bits, mx in (([1e6, 0.5, 3.0, -1.0], 8, -10), ([2.0 ** 22, 1.0, -2.0, 0.25], 4, -8)):
    cases.append(dict(stream="absorb", q="qbits", shape=[2, 2], x=np.array(xs, dtype=np.float32).reshape(2, 2),
                      bits=bits, integer=0, kn=True, po2=True, ch_last=True, sa=None, eps=None, mn=None, mx=mx,
                      pts=None))
  # exponent bounds that are 0 (falsy but configured), with data whose best scale lies outside them
  for mn, mx in ((None, 0), (0, None), (0, 0), (0, 3), (-3, 0)):
    for mag in (200.0, 1.0 / 64):
      for bits in (3, 6):
        sh = [3, 4]
        x = (rng.integers(-7, 8, size=sh) * mag / 8.0).astype(np.float32)
        x[0, 0] = mag
        cases.append(dict(stream="bound0", q="qbits", shape=sh, x=x, bits=bits, integer=int(rng.integers(0, 2)),
                          kn=True, po2=True, ch_last=True, sa=None, eps=None, mn=mn, mx=mx, pts=None))
  return cases, tw


def gen_qlinear(rng, tier):
  n_exact, n_general = (160, 50) if tier == "quick" else (900, 300)
  kinds = ["plain", "plain", "sparse", "zeros", "zero_channel", "one_big", "tiny", "huge"]
  cases = []
  for stream, n in (("exact", n_exact), ("general", n_general)):
    for sh in A.shapes(rng, n, max_elems=128 if tier == "quick" else 256):
      rank = len(sh)
      bits = int(rng.integers(1, 9))
      integer = int(rng.integers(0, 4))
      kn = bool(rng.random() < 0.8)
      sym = bool(rng.random() < 0.7)
      po2 = bool(rng.random() < 0.55)
      ch_last = bool(rng.random() < 0.75)
      sa = None
      if rank >= 2 and rng.random() < 0.4:
        sa = int(rng.integers(0, rank)) if rng.random() < 0.6 else sorted(
            rng.choice(rank, size=int(rng.integers(1, rank + 1)), replace=False).tolist())
      if stream == "exact":
        x = A.exact_tensor(rng, sh, kinds[int(rng.integers(0, len(kinds)))])
      else:
        x = A.general_tensor(rng, sh, ["normal", "small", "large"][int(rng.integers(0, 3))])
      cases.append(dict(stream=stream, q="qlinear", shape=sh, x=x, bits=bits, integer=integer, kn=kn, sym=sym,
                        po2=po2, ch_last=ch_last, sa=sa))
  return cases


def impl_call(Q, K, tf, c):
  K.set_image_data_format("channels_last" if c["ch_last"] else "channels_first")
  try:
    alpha = "auto_po2" if c["po2"] else "auto"
    xt = tf.constant(c["x"])
    if c["q"] == "qbits":
      q = Q.quantized_bits(c["bits"], c["integer"], 0, keep_negative=c["kn"], alpha=alpha, scale_axis=c["sa"],
                           elements_per_scale=c["eps"], min_po2_exponent=c["mn"], max_po2_exponent=c["mx"],
                           post_training_scale=c["pts"])
      y = np.asarray(q(xt), dtype=np.float32)
      raw = np.asarray(q.scale if not hasattr(q.scale, "numpy") else q.scale.numpy())
      c["scale_shapes"] = [list(raw.shape)]
      sc = A.broadcast_scale(raw, c["x"].shape)
      return y, sc, None
    q = Q.quantized_linear(c["bits"], c["integer"], int(c["sym"]), keep_negative=c["kn"], alpha=alpha,
                           scale_axis=c["sa"])
    y = np.asarray(q(xt), dtype=np.float32)
    c["scale_shapes"] = [list(np.asarray(q.scale).shape), list(np.asarray(q.quantization_scale).shape)]
    sc = A.broadcast_scale(np.asarray(q.scale), c["x"].shape)
    qs = A.broadcast_scale(np.asarray(q.quantization_scale), c["x"].shape)
    return y, sc, qs
  finally:
    K.set_image_data_format("channels_last")


def line_of(c, eps32):
  if c["q"] == "qbits":
    cfg = dict(bits=c["bits"], integer=c["integer"], keep_negative=c["kn"], po2=c["po2"], ch_last=c["ch_last"],
               sa=c["sa"], eps=c["eps"], min_e=c["mn"], max_e=c["mx"])
    l = dict(op="qbits_auto", cfg=cfg, shape=c["shape"], x=A.enc(A.fr(c["x"])), eps32=core.rj(eps32))
    if c["pts"] is not None:
      l["pts"] = A.enc(A.fr(np.broadcast_to(c["pts"], c["x"].shape)))
    return l
  cfg = dict(bits=c["bits"], integer=c["integer"], symmetric=c["sym"], keep_negative=c["kn"], po2=c["po2"],
             ch_last=c["ch_last"], sa=c["sa"])
  return dict(op="qlinear_auto", cfg=cfg, shape=c["shape"], x=A.enc(A.fr(c["x"])), eps32=core.rj(eps32))


def label(c):
  d = {k: v for k, v in c.items() if k not in ("x", "twin_of", "has_twin")}
  if d.get("pts") is not None:
    d["pts"] = np.asarray(d["pts"]).ravel().tolist()
  return d


def floor_half(q):
  """floor(q + 1/2)"""
  t = q + F(1, 2)
  return t.numerator // t.denominator


def recover_code(run, x, y, unit, lo, hi, cands_extra=()):
  """the integer (or half-integer) k with y = rnd32(unit * k) directly or through the straight-through
  float sum; returns (k, how) with how in direct / ste-rounded / ste-absorption / not-a-code"""
  if unit == 0:
    return (F(0), "direct") if y == 0 else (None, "not-a-code")
  k0 = floor_half(y / unit)
  direct = [k for k in [F(k0), F(k0 - 1), F(k0 + 1)] + list(cands_extra) if A.rnd32(unit * k) == y]
  inr = [k for k in direct if lo <= k <= hi]
  if inr:
    return inr[0], "direct"
  # the code the input calls for at this scale (nearest, saturating), and its neighbours
  kn = floor_half(abs(x) / unit)
  sg = 1 if x > 0 else (-1 if x < 0 else 0)
  near = [sg * min(max(kn + d, 0), hi if sg >= 0 else -lo) for d in (0, -1, 1)]
  for k in [F(v) for v in near] + list(cands_extra):
    yy = A.rnd32(unit * k)
    if F(float(A.ste32(float(x), float(yy)))) == y:
      # merely rounded: the observable code y/unit is still nearest to k; absorbed: it is another code
      return (k, "ste-rounded") if abs(y / unit - k) < F(1, 2) else (k, "ste-absorption")
  if direct:
    return direct[0], "direct"       # a multiple of the unit, but outside the code interval
  return None, "not-a-code"


def judge_qbits(run, c, x, y, sc, mirrored):
  bits, integer, kn, po2 = c["bits"], c["integer"], c["kn"], c["po2"]
  ub = bits - (1 if kn else 0)
  step = F(2) ** (integer - ub)
  L2 = 2 ** (bits - 1) - 1
  key0 = dict(quantizer="quantized_bits", alpha="auto_po2" if po2 else "auto", frozen=c["pts"] is not None)
  det0 = {"case": label(c)}
  n = len(x)
  if not all(np.isfinite(float(v)) for v in y):
    run.violate("finite", key0, det0, mirrored=mirrored)
  codes = []
  for i in range(n):
    k, how = recover_code(run, x[i], y[i], sc[i] * step, -L2, L2)
    run.count("code:" + how)
    if how in ("not-a-code", "ste-absorption"):
      run.violate("code_times_scale", dict(key0, why=how),
                  dict(det0, i=i, x=float(x[i]), y=float(y[i]), scale=float(sc[i]), step=float(step),
                       y_over_unit=(float(y[i] / (sc[i] * step)) if sc[i] else None), code_expected=str(k)),
                  mirrored=mirrored)
    elif abs(k) > L2:
      run.violate("code_range", key0, dict(det0, i=i, x=float(x[i]), y=float(y[i]), code=str(k), max=L2), mirrored=mirrored)
    codes.append(k)
  if c["pts"] is not None:
    want = A.fr(np.broadcast_to(c["pts"], c["x"].shape))
    if [F(v) for v in want] != sc:
      run.violate("frozen_scale_kept", key0, det0, mirrored=mirrored)
    return
  groups = A.spec_groups(c["shape"], c["sa"], c["eps"] if po2 else None, c["ch_last"])
  if len(c["shape"]) <= 1 and not po2:
    groups = [0] * n          # rank 1, 'auto': one scale for the whole vector (axis = [0])
  by = {}
  for i, g in enumerate(groups):
    by.setdefault(g, []).append(i)
  for g, idx in by.items():
    ss = {sc[i] for i in idx}
    zero = all(x[i] == 0 for i in idx)
    run.count("group:" + ("zero" if zero else "nonzero"))
    if len(ss) != 1:
      run.violate("scale_group_constant", key0, dict(det0, group=str(g), scales=[float(s) for s in sorted(ss)[:4]]),
                  mirrored=mirrored)
      continue
    s = sc[idx[0]]
    if s <= 0:
      run.violate("scale_positive", dict(key0, zero_group=zero), dict(det0, group=str(g), scale=float(s)),
                  mirrored=mirrored)
      continue
    if po2:
      if not A.is_pow2(s):
        run.violate("po2", dict(key0, why="not-a-power-of-two"), dict(det0, group=str(g), scale=float(s)),
                    mirrored=mirrored)
        continue
      e = A.log2_exact(s) - ub       # exponent of the internal scale (the one the bounds apply to)
      lo, hi = c["mn"], c["mx"]
      if lo is not None and hi is not None and hi < lo:
        hi = lo
      if (lo is not None and e < lo) or (hi is not None and e > hi):
        run.violate("po2", dict(key0, why="outside-exponent-bounds"), dict(det0, group=str(g), e=e, min=c["mn"], max=c["mx"]),
                    mirrored=mirrored)
    elif not zero:
      # 'auto': the element of largest magnitude sits on the top code, nothing is clipped
      j = max(idx, key=lambda i: abs(x[i]))
      if codes[j] is not None and abs(codes[j]) != L2:
        run.violate("auto_top_code", key0, dict(det0, group=str(g), x=float(x[j]), code=str(codes[j]), top=L2),
                    mirrored=mirrored)
      unit = s * step
      if any(abs(x[i]) > (L2 + F(1, 2)) * unit for i in idx):
        run.violate("auto_no_clip", key0, dict(det0, group=str(g), scale=float(s)), mirrored=mirrored)


def judge_qlinear(run, c, x, y, sc, qs, mirrored):
  bits, integer, kn, sym, po2 = c["bits"], c["integer"], c["kn"], c["sym"], c["po2"]
  ub = bits - (1 if kn else 0)
  signfn = bits == 1 and kn
  dts = F(2) ** (integer - ub)
  if signfn:
    lo, hi = F(-1, 2), F(1, 2)
  else:
    hi = F(2 ** ub - 1)
    lo = F((-(2 ** ub) + (1 if sym else 0)) if kn else 0)
  key0 = dict(quantizer="quantized_linear", alpha="auto_po2" if po2 else "auto")
  det0 = {"case": label(c)}
  n = len(x)
  if not all(np.isfinite(float(v)) for v in y):
    run.violate("finite", key0, det0, mirrored=mirrored)
  codes = []
  for i in range(n):
    if A.rnd32(qs[i] / dts) != sc[i]:
      run.violate("scale_relation", key0, dict(det0, i=i, scale=float(sc[i]), qs=float(qs[i])), mirrored=mirrored)
    extra = [F(-1, 2), F(1, 2)] if signfn else []
    k, how = recover_code(run, x[i], y[i], qs[i], lo, hi, extra)
    run.count("code:" + how)
    if how in ("not-a-code", "ste-absorption"):
      run.violate("code_times_scale", dict(key0, why=how),
                  dict(det0, i=i, x=float(x[i]), y=float(y[i]), qs=float(qs[i])), mirrored=mirrored)
    elif k < lo or k > hi or (signfn and abs(k) != F(1, 2)):
      run.violate("code_range", key0, dict(det0, i=i, x=float(x[i]), y=float(y[i]), code=str(k)), mirrored=mirrored)
    codes.append(k)
  rank = len(c["shape"])
  if rank <= 1:
    groups = list(range(n))
    if c["sa"] is not None:
      groups = A.spec_groups(c["shape"] + [1], from_start(c["sa"], max(rank, 1)), None, c["ch_last"])
  else:
    groups = A.spec_groups(c["shape"], c["sa"], None, c["ch_last"])
  by = {}
  for i, g in enumerate(groups):
    by.setdefault(g, []).append(i)
  for g, idx in by.items():
    ss = {qs[i] for i in idx}
    if len(ss) != 1:
      run.violate("scale_group_constant", key0, dict(det0, group=str(g)), mirrored=mirrored)
      continue
    s = qs[idx[0]]
    if s <= 0:
      run.violate("scale_positive", key0, dict(det0, group=str(g), qs=float(s)), mirrored=mirrored)
      continue
    if po2 and not A.is_pow2(s):
      run.violate("po2", dict(key0, why="not-a-power-of-two"), dict(det0, group=str(g), qs=float(s)), mirrored=mirrored)
    if not po2 and kn and not signfn and any(x[i] != 0 for i in idx):
      j = max(idx, key=lambda i: abs(x[i]))
      top = hi          # magnitude of the top positive code; with symmetric=0 the negative maximum
                        # lands on -2^ub or -2^ub+1 (a rounding tie at -2^ub + 1/2), both >= hi in magnitude
      if codes[j] is not None and (abs(codes[j]) < top or (codes[j] > 0) != (x[j] > 0)) \
          and s > F(float(np.float32(1e-7))):
        run.violate("auto_top_code", key0, dict(det0, group=str(g), x=float(x[j]), code=str(codes[j]), top=str(top)),
                    mirrored=mirrored)


# ------------------------------------------------------------------ histories on ONE object

# "well above the library's epsilon floor" for the 2^k twins: the internal scale s (w.r.t. x / 2^integer; the
# quantization_scale for quantized_linear) must satisfy eps / s < 2^-18, i.e. the epsilon inside log(s + eps) and
# qq + eps moves a logarithm by less than the band of the logarithm oracle (2^-17) -> s >= 2^-5
TWIN_FLOOR = F(1, 2 ** 5)

QB_ATTR = dict(bits="bits", integer="integer", kn="keep_negative", sa="scale_axis", eps="elements_per_scale",
               mn="min_po2_exponent", mx="max_po2_exponent")
PATTERNS = ("rank-up", "rank-down", "same-shape", "format-switch", "reconfigure", "zero-then-data", "frozen",
            "standalone-then-trainable")


def varied_tensor(rng, shape, g=None, zero=None):
  """short dyadics (|ints| <= 40) times one power of two, times a DIFFERENT power of two per index along every
  axis: groups along any axis have different maxima, so a scale taken over the wrong axis shows"""
  n = int(np.prod(shape))
  g = int(rng.integers(0, 5)) if g is None else g
  x = rng.integers(-40, 41, size=shape).astype(np.float64)
  x[x == 0] = 3
  for a, d in enumerate(shape):
    sh = [1] * len(shape)
    sh[a] = d
    x = x * np.exp2(rng.permutation(np.arange(d) % 4).reshape(sh) - 1.0)
  x = x * 2.0 ** g
  if zero == "all":
    x = x * 0.0
  elif zero == "channel" and n > 1:
    for ax in (-1, 0):
      idx = [slice(None)] * len(shape)
      idx[ax] = int(rng.integers(0, shape[ax]))
      x[tuple(idx)] = 0
  return x.astype(np.float32)


def hist_shape(rng, rank, fixed):
  """a shape of the given rank; `fixed` = {axis: allowed dims} (for elements_per_scale / frozen scales)"""
  while True:
    sh = [int(rng.choice(fixed.get(a, (2, 4, 8) if rank > 1 else (2, 4, 8)))) for a in range(rank)]
    if int(np.prod(sh)) <= 192:
      return sh


def gen_histories(rng, tier):
  reps = 2 if tier == "quick" else 10
  hs = []
  for rep in range(reps):
    for pat in PATTERNS:
      for qk in ("qbits", "qlinear"):
        for po2 in (False, True):
          if pat == "frozen" and qk == "qlinear":
            continue
          hs.append(gen_history(rng, pat, qk, po2, rep))
  return hs


def gen_history(rng, pat, qk, po2, rep):
  bits = int(rng.integers(2, 9))
  cfg = dict(bits=bits, integer=int(rng.integers(0, 3)), kn=True if rng.random() < 0.8 else False, po2=po2,
             sa=None, eps=None, mn=None, mx=None)
  if qk == "qlinear":
    cfg["sym"] = bool(rng.random() < 0.7)
    cfg["kn"] = True if rng.random() < 0.9 else False
  fixed = {}
  min_rank = 1
  # explicit scale_axis / elements_per_scale in a third of the histories (never where the default axis is the point)
  if pat in ("same-shape", "zero-then-data", "reconfigure") and rng.random() < 0.5:
    t = rng.random()
    if t < 0.5:
      cfg["sa"] = int(rng.integers(0, 2))
      min_rank = 2
    else:
      cfg["sa"] = [0, 1] if rng.random() < 0.5 else [1]
      min_rank = 2
    if qk == "qbits" and po2 and pat != "reconfigure" and rng.random() < 0.6:
      axes = cfg["sa"] if isinstance(cfg["sa"], list) else [cfg["sa"]]
      e = int(rng.choice([1, 2, 4]))
      cfg["eps"] = ([e] * len(axes) if rng.random() < 0.5 else e) if isinstance(cfg["sa"], list) else e
      for a in axes:
        fixed[a] = tuple(d for d in (2, 4, 8) if d % e == 0)
  if qk == "qbits" and po2 and pat not in ("reconfigure", "standalone-then-trainable") and rng.random() < 0.25:
    cfg["mn"] = int(rng.integers(-6, -1))
    cfg["mx"] = int(rng.integers(1, 5))
  h = dict(q=qk, pattern=pat, cfg0=dict(cfg), pts=None, pre=None, steps=[],
           build_ch_last=bool(rng.random() < 0.5))
  fmt = bool(rng.random() < 0.75)          # channels_last

  def step(shape, x=None, set_=None, ch_last=None, twin_of=None, twin_k=None, zero=None, g=None, same_as=None):
    nonlocal cfg
    if set_:
      cfg = dict(cfg, **set_)
    h["steps"].append(dict(cfg=dict(cfg), set=dict(set_) if set_ else None,
                           ch_last=fmt if ch_last is None else ch_last, shape=list(shape),
                           x=varied_tensor(rng, shape, g=g, zero=zero) if x is None else x,
                           twin_of=twin_of, twin_k=twin_k, same_as=same_as,
                           as_numpy=bool(rng.random() < 0.4)))

  def sh(rank):
    return hist_shape(rng, max(rank, min_rank), fixed)

  if pat == "rank-up":
    r = [(1, 3), (2, 4), (2, 3), (3, 4), (1, 2)][int(rng.integers(0, 5))] if rep else (2, 4)
    s0 = sh(r[0]); step(s0); step(sh(r[1])); step(sh(min(r[1] + 1, 4)) if rng.random() < 0.5 else s0)
  elif pat == "rank-down":
    r = [(4, 2), (3, 2), (4, 3), (4, 1), (2, 1)][int(rng.integers(0, 5))] if rep else (4, 2)
    step(sh(r[0])); step(sh(r[1])); step(sh(r[0]))
  elif pat == "same-shape":
    s0 = sh(int(rng.integers(2, 5)))
    x0 = varied_tensor(rng, s0)
    ks = [int(k) for k in rng.permutation([-3, -1, 2, 5])[:2]]
    step(s0, x=x0)
    step(s0, x=(x0.astype(np.float64) * 2.0 ** ks[0]).astype(np.float32), twin_of=0, twin_k=ks[0])
    step(s0, g=int(rng.integers(5, 9)))                        # same shape, other data of much larger magnitude
    step(s0, x=x0.copy(), same_as=0)                           # the identical tensor again
    step(s0, x=(x0.astype(np.float64) * 2.0 ** ks[1]).astype(np.float32), twin_of=0, twin_k=ks[1])
  elif pat == "format-switch":
    s0 = sh(int(rng.integers(2, 5)))
    x0 = varied_tensor(rng, s0)
    step(s0, x=x0, ch_last=fmt); step(s0, x=x0.copy(), ch_last=not fmt); step(sh(int(rng.integers(2, 5))), ch_last=not fmt)
    step(s0, x=x0.copy(), ch_last=fmt, same_as=0)
  elif pat == "reconfigure":
    s0 = sh(int(rng.integers(2, 5)))
    x0 = varied_tensor(rng, s0)
    step(s0, x=x0)
    if qk == "qbits":
      choices = [dict(bits=int(rng.integers(2, 9))), dict(integer=int(rng.integers(0, 3))), dict(po2=not po2),
                 dict(kn=not cfg["kn"]), dict(sa=int(rng.integers(0, len(s0)))), dict(sa=None)]
    else:
      choices = [dict(po2=not po2), dict(sym=not cfg["sym"])]
    order = rng.permutation(len(choices))
    step(s0, x=x0.copy(), set_=choices[int(order[0])])
    step(s0, set_=choices[int(order[1])])
    step(s0, x=x0.copy(), set_={k: h["cfg0"][k] for k in set(choices[int(order[0])]) | set(choices[int(order[1])])},
         same_as=0)                                            # everything re-assigned to the first configuration
  elif pat == "zero-then-data":
    s0 = sh(int(rng.integers(2, 4)))
    step(s0, zero="all"); step(s0); step(s0, zero="channel"); step(s0, zero="all")
  elif pat == "frozen":
    c = int(rng.choice([2, 4, 8]))
    rk = int(rng.integers(1, 3))
    pshape = [1] * (rk - 1) + [c]
    h["pts"] = (rng.integers(1, 8, size=pshape) * np.exp2(rng.integers(-3, 3, size=pshape))).astype(np.float32)
    fixed_last = lambda r: hist_shape(rng, r, {r - 1: (c,)})
    step(fixed_last(max(rk, 2))); step(fixed_last(4)); step(fixed_last(max(rk, 1))); step(fixed_last(3))
  elif pat == "standalone-then-trainable":
    # alpha=None object used stand-alone (fixed scale), then handed to a layer: _set_trainable_parameter()
    h["pre"] = dict(shape=sh(2))
    h["pre"]["x"] = varied_tensor(rng, h["pre"]["shape"])
    cfg["po2"] = True
    if qk == "qlinear":
      cfg["sym"] = True
    h["cfg0"] = dict(cfg)
    s0 = sh(int(rng.integers(2, 5)))
    x0 = varied_tensor(rng, s0)
    k = int(rng.choice([-3, 2]))
    step(s0, x=x0); step(sh(int(rng.integers(1, 5))))
    step(s0, x=(x0.astype(np.float64) * 2.0 ** k).astype(np.float32), twin_of=0, twin_k=k)
  return h


def build_q(Q, qk, cfg, pts, alpha_none=False):
  alpha = None if alpha_none else ("auto_po2" if cfg["po2"] else "auto")
  sa = list(cfg["sa"]) if isinstance(cfg["sa"], list) else cfg["sa"]
  if qk == "qbits":
    eps = list(cfg["eps"]) if isinstance(cfg["eps"], list) else cfg["eps"]
    return Q.quantized_bits(cfg["bits"], cfg["integer"], 0, keep_negative=cfg["kn"], alpha=alpha, scale_axis=sa,
                            elements_per_scale=eps, min_po2_exponent=cfg["mn"], max_po2_exponent=cfg["mx"],
                            post_training_scale=None if pts is None else pts.copy())
  return Q.quantized_linear(cfg["bits"], cfg["integer"], int(cfg["sym"]) if not alpha_none else 1,
                            keep_negative=cfg["kn"], alpha=alpha, scale_axis=sa)


def norm_val(v):
  if v is None or isinstance(v, (bool, str)):
    return v
  if isinstance(v, (list, tuple)):
    return [norm_val(t) for t in v]
  if hasattr(v, "numpy"):
    v = v.numpy()
  a = np.asarray(v)
  if a.ndim == 0:
    f = float(a)
    return int(f) if f == int(f) else f
  return {"shape": list(a.shape), "vals": [float(t) for t in a.ravel()]}


def snapshot(q):
  """every instance attribute of the quantizer object except tf.Module bookkeeping, normalised"""
  d = {}
  for k, v in vars(q).items():
    if k.startswith("_tf") or k.startswith("_self_") or k in ("_name", "_scope_name", "_name_scope"):
      continue
    d[k] = norm_val(v)
  return d


def model_attrs(qk, q):
  """the public attributes in the vocabulary of the Lean object model (None if they left that vocabulary)"""
  try:
    alpha = q.alpha
    if alpha not in ("auto", "auto_po2"):
      return {"alpha": str(alpha)}
    d = dict(bits=norm_val(q.bits), integer=norm_val(q.integer), keep_negative=bool(q.keep_negative),
             po2=alpha == "auto_po2", sa=norm_val(q.scale_axis))
    if qk == "qbits":
      d.update(eps=norm_val(q.elements_per_scale), min_e=norm_val(q.min_po2_exponent), max_e=norm_val(q.max_po2_exponent))
    else:
      d.update(symmetric=bool(q.symmetric))
    return d
  except Exception as e:  # pylint: disable=broad-except
    return {"error": type(e).__name__}


def cfg_attrs(qk, cfg):
  d = dict(bits=cfg["bits"], integer=cfg["integer"], keep_negative=cfg["kn"], po2=cfg["po2"], sa=cfg["sa"])
  if qk == "qbits":
    d.update(eps=cfg["eps"], min_e=cfg["mn"], max_e=cfg["mx"])
  else:
    d.update(symmetric=cfg["sym"])
  return d


def call_q(qk, q, xin, shape):
  """(y, raw scale array, raw quantization_scale array or None)"""
  y = np.asarray(q(xin), dtype=np.float32)
  sc = q.scale
  sc = np.asarray(sc.numpy() if hasattr(sc, "numpy") else sc, dtype=np.float64)
  qs = None
  if qk == "qlinear":
    qs = np.asarray(q.quantization_scale, dtype=np.float64)
  return y, sc, qs


def spec_scale_shape(qk, cfg, shape, ch_last, pts):
  """shape of the exposed scale from the documented meaning: keepdims over everything but the scale axes"""
  rank = len(shape)
  if pts is not None:
    return list(np.asarray(pts).shape)
  if rank <= 1:
    if qk == "qbits" and not cfg["po2"]:
      return [1]                 # 'auto' of a vector: one scale (axis = [0])
    return list(shape)           # per element (no reduction along the channel axis)
  axes = [a % rank for a in A.spec_scale_axes(rank, cfg["sa"], ch_last)]   # negative = counted from the end
  return [shape[a] if a in axes else 1 for a in range(rank)]


def run_history(run, Q, K, tf, h):
  """the REAL code: one object through all steps, and per step a fresh twin on that tensor alone"""
  qk = h["q"]
  recs = []
  try:
    K.set_image_data_format("channels_last" if h["build_ch_last"] else "channels_first")
    if h["pre"] is not None:
      q = build_q(Q, qk, h["cfg0"], None, alpha_none=True)
      q(tf.constant(h["pre"]["x"]))
      q._set_trainable_parameter()  # pylint: disable=protected-access
    else:
      q = build_q(Q, qk, h["cfg0"], h["pts"])
    for st in h["steps"]:
      rec = dict(obj=None, twin=None, err=None, twin_err=None)
      if st["set"]:
        for k, v in st["set"].items():
          if k == "po2":
            q.alpha = "auto_po2" if v else "auto"
          elif k == "sym":
            q.symmetric = int(v)
          else:
            setattr(q, QB_ATTR[k], list(v) if isinstance(v, list) else v)
      K.set_image_data_format("channels_last" if st["ch_last"] else "channels_first")
      xin = st["x"].copy() if st["as_numpy"] else tf.constant(st["x"])
      try:
        rec["obj"] = call_q(qk, q, xin, st["shape"])
      except Exception as e:  # pylint: disable=broad-except
        rec["err"] = "%s: %s" % (type(e).__name__, str(e)[:200])
      rec["attrs"] = model_attrs(qk, q)
      rec["snap"] = snapshot(q)
      # the fresh twin: built from the harness's own record of the configuration, under the format of the moment
      try:
        tw = build_q(Q, qk, st["cfg"], h["pts"])
        rec["twin"] = call_q(qk, tw, tf.constant(st["x"]), st["shape"])
        rec["twin_snap"] = snapshot(tw)
      except Exception as e:  # pylint: disable=broad-except
        rec["twin_err"] = "%s: %s" % (type(e).__name__, str(e)[:200])
      # a second fresh twin whose scale_axis is spelled FROM THE START (the harness's own reading of 'counted from the
      # end' at the rank of this tensor): same value in another argument form => same output and scale
      rec["start"] = rec["start_err"] = None
      if has_negative(st["cfg"]["sa"]):
        try:
          tw2 = build_q(Q, qk, dict(st["cfg"], sa=from_start(st["cfg"]["sa"], len(st["shape"]))), h["pts"])
          rec["start"] = call_q(qk, tw2, tf.constant(st["x"]), st["shape"])
        except Exception as e:  # pylint: disable=broad-except
          rec["start_err"] = "%s: %s" % (type(e).__name__, str(e)[:200])
      recs.append(rec)
  finally:
    K.set_image_data_format("channels_last")
  return recs


def hist_line(h, eps32):
  def cj(qk, c):
    d = cfg_attrs(qk, c)
    return d
  steps = [dict(set=cj(h["q"], st["cfg"]) if st["set"] else None, ch_last=st["ch_last"], shape=st["shape"],
                x=A.enc(A.fr(st["x"]))) for st in h["steps"]]
  l = dict(op="qbits_hist" if h["q"] == "qbits" else "qlinear_hist", cfg=cj(h["q"], h["cfg0"]), steps=steps,
           eps32=core.rj(eps32))
  if h["pts"] is not None:
    l["pts"] = dict(shape=list(h["pts"].shape), vals=A.enc(A.fr(h["pts"])))
  return l


def hlabel(h, i):
  st = h["steps"][i]
  return dict(quantizer=h["q"], pattern=h["pattern"], step=i, construction=h["cfg0"],
              history=[dict(shape=t["shape"], ch_last=t["ch_last"], set=t["set"],
                            twin_of=t["twin_of"], twin_k=t["twin_k"]) for t in h["steps"][:i + 1]],
              pts=None if h["pts"] is None else dict(shape=list(h["pts"].shape), vals=h["pts"].ravel().tolist()),
              pre="alpha=None call, then _set_trainable_parameter()" if h["pre"] else None,
              cfg_now=st["cfg"], x=[float(v) for v in st["x"].ravel()[:12]])


def judge_history(run, h, recs, out):
  """per step: clause oracle on the object's real output, model tie, fresh twin, attributes; then the 2^k twins
  and the repeated tensors inside the history"""
  qk = h["q"]
  msteps = out.get("steps", [])
  done = {}
  for i, (st, rec) in enumerate(zip(h["steps"], recs)):
    cfg = st["cfg"]
    alpha = "auto_po2" if cfg["po2"] else "auto"
    key0 = dict(quantizer="quantized_bits" if qk == "qbits" else "quantized_linear", alpha=alpha)
    lab = hlabel(h, i)
    run.count("history:%s:%s" % (h["pattern"], qk))
    mo = msteps[i] if i < len(msteps) else {"err": "missing"}
    # ---- the public attributes after the call: assigned values, nothing else (model: C05_history_fresh)
    want = cfg_attrs(qk, cfg)
    if rec["attrs"] != want or mo.get("attrs") != want:
      run.disagree("history-attributes:" + qk, lab, rec["attrs"], mo.get("attrs"))
      run.count("history:attribute-drift")
    if rec["err"] is not None:
      run.case(key=("history-raises", len(run.nontrivial)), nontrivial=True)
      if "err" in mo and rec["twin_err"] is not None:
        run.count("history:rejected-by-model-and-code")      # e.g. 'auto' with exponent bounds after a re-assignment
        continue
      run.violate("returns_output", dict(key0, error=rec["err"].split(":")[0], history=True),
                  dict(lab, error=rec["err"], fresh_twin="raises too: %s" % rec["twin_err"] if rec["twin_err"] else "returns"),
                  mirrored=False)
      continue
    y, sc_raw, qs_raw = rec["obj"]
    shape = st["shape"]
    # ---- shape of the exposed scale: one value per output channel (keepdims over the other axes)
    want_shape = spec_scale_shape(qk, cfg, shape, st["ch_last"], h["pts"])
    got_shapes = [list(sc_raw.shape)] + ([list(qs_raw.shape)] if qs_raw is not None else [])
    ok_shape = all(g == want_shape for g in got_shapes)
    try:
      sc = A.broadcast_scale(sc_raw, tuple(shape))
      qs = None if qs_raw is None else A.broadcast_scale(qs_raw, tuple(shape))
    except ValueError:
      sc = None
    if not ok_shape or sc is None or list(y.shape) != list(shape):
      run.case(key=("history-scale-shape", len(run.nontrivial)), nontrivial=True)
      run.violate("scale_shape", dict(key0, history=True),
                  dict(lab, scale_shape=got_shapes, expected=want_shape, output_shape=list(y.shape)), mirrored=False)
      if sc is None or list(y.shape) != list(shape):
        continue
    if not (np.isfinite(y).all() and np.isfinite(sc).all() and (qs is None or np.isfinite(qs).all())):
      run.case(key=("history-nonfinite", len(run.nontrivial)), nontrivial=True)
      run.violate("finite", key0, dict(lab, y=[float(v) for v in y.ravel()[:8]]), mirrored=False)
      continue
    c = dict(cfg, q=qk, stream="history", shape=shape, x=st["x"], ch_last=st["ch_last"], pts=h["pts"],
             pattern=h["pattern"], step=i, history=lab["history"], construction=h["cfg0"], pre=lab["pre"])
    im = (A.fr(st["x"]), A.fr(y), [F(float(v)) for v in sc], None if qs is None else [F(float(v)) for v in qs])
    r = tie_and_judge(run, c, im, mo)
    if r is not None:
      done[i] = r
    # ---- the fresh twin on this tensor alone: same output, same exposed scale (values and shape), same attributes
    run.compared += 1
    if rec["twin_err"] is not None:
      run.violate("returns_output", dict(key0, error=rec["twin_err"].split(":")[0]), dict(lab, error=rec["twin_err"]),
                  mirrored=False)
      continue
    ty, tsc, tqs = rec["twin"]
    same = (y.shape == ty.shape and np.array_equal(y, ty) and sc_raw.shape == tsc.shape and np.array_equal(sc_raw, tsc)
            and (qs_raw is None or (qs_raw.shape == tqs.shape and np.array_equal(qs_raw, tqs))))
    if not same:
      j = int(np.argmax(y.ravel() != ty.ravel())) if y.shape == ty.shape else 0
      run.violate("function_of_data", dict(key0, history=True),
                  dict(lab, why="the property makes output and scale a function of the configuration and the tensor "
                                "(2^0 * x must give 2^0 * q(x)): this object, after the earlier calls of the history, "
                                "differs from a fresh quantizer of the same configuration on the same tensor",
                       i=j, y=float(y.ravel()[j]), y_fresh=float(ty.ravel()[j]) if y.shape == ty.shape else None,
                       scale_shape=list(sc_raw.shape), scale_shape_fresh=list(tsc.shape),
                       scale=[float(v) for v in sc_raw.ravel()[:6]], scale_fresh=[float(v) for v in tsc.ravel()[:6]]),
                  mirrored=False)
    else:
      run.count("history:step-equals-fresh-twin")
    if rec.get("start") is not None or rec.get("start_err") is not None:
      run.compared += 1
      run.count("history:axis-from-end-vs-from-start")
      sp = rec["start"]
      if sp is None or not (y.shape == sp[0].shape and np.array_equal(y, sp[0]) and sc_raw.shape == sp[1].shape
                            and np.array_equal(sc_raw, sp[1])
                            and (qs_raw is None or (qs_raw.shape == sp[2].shape and np.array_equal(qs_raw, sp[2])))):
        run.violate("function_of_data", dict(key0, history=True, form="scale_axis counted from the end"),
                    dict(lab, why="scale_axis=%r on a tensor of rank %d names the axes %r; a fresh quantizer configured "
                                  "with those axes counted from the start gives another output / scale"
                                  % (cfg["sa"], len(shape), from_start(cfg["sa"], len(shape))),
                         from_start_error=rec.get("start_err"),
                         scale_shape=list(sc_raw.shape), scale_shape_from_start=None if sp is None else list(sp[1].shape),
                         scale=[float(v) for v in sc_raw.ravel()[:6]],
                         scale_from_start=None if sp is None else [float(v) for v in sp[1].ravel()[:6]],
                         y=[float(v) for v in y.ravel()[:6]],
                         y_from_start=None if sp is None else [float(v) for v in sp[0].ravel()[:6]]), mirrored=False)
    ds = sorted(k for k in set(rec["snap"]) | set(rec["twin_snap"]) if rec["snap"].get(k, "<missing>") != rec["twin_snap"].get(k, "<missing>"))
    if same and ds:
      run.disagree("history-object-state:" + qk, lab, {k: rec["snap"].get(k, "<missing>") for k in ds},
                   {k: rec["twin_snap"].get(k, "<missing>") for k in ds})
  # ---- inside the history, on the SAME object: x -> 2^k x, and the identical tensor again
  for i, st in enumerate(h["steps"]):
    j = st["twin_of"] if st["twin_of"] is not None else st["same_as"]
    if j is None or i not in done or j not in done:
      continue
    if h["steps"][j]["cfg"] != st["cfg"] or h["steps"][j]["ch_last"] != st["ch_last"]:
      continue
    kk = st["twin_k"] if st["twin_of"] is not None else 0
    (y0, s0, b0, q0), (y1, s1, b1, q1) = done[j], done[i]
    k = F(2) ** kk
    cfg = st["cfg"]
    ub = cfg["bits"] - (1 if cfg["kn"] else 0)
    inner = (lambda s: s / F(2) ** ub) if qk == "qbits" else (lambda s: s)
    scs0, scs1 = (s0, s1) if qk == "qbits" else (q0, q1)
    floor_ok = kk == 0 or all(s == 0 or inner(s) >= TWIN_FLOOR for s in scs0 + scs1)
    run.case(key=("history-twin", len(run.nontrivial)), nontrivial=True)
    bounded = kk != 0 and (cfg.get("mn") is not None or cfg.get("mx") is not None)   # clipped exponents do not scale
    if (kk != 0 and (b0 or b1)) or not floor_ok or h["pts"] is not None or bounded:
      run.count("history-twin:skipped(band-or-eps-floor)")
      continue
    run.count("history-twin:checked(k=%s)" % ("0" if kk == 0 else "nonzero"))
    if [v * k for v in y0] != y1 or [v * k for v in s0] != s1:
      t = next((t for t in range(len(y0)) if y0[t] * k != y1[t] or s0[t] * k != s1[t]), 0)
      run.violate("scale_equivariance", dict(quantizer="quantized_bits" if qk == "qbits" else "quantized_linear",
                                             alpha="auto_po2" if cfg["po2"] else "auto", same_object=True),
                  dict(hlabel(h, i), k=kk, of_step=j, i=t, y=float(y0[t]), y_twin=float(y1[t]),
                       scale=float(s0[t]), scale_twin=float(s1[t])), mirrored=False)


# ------------------------------------------------------------------ scale_axis counted from the end

def from_start(sa, rank):
  """the documented meaning of a negative axis ('counted from the end', numpy / TF convention), written by the
  harness independently of the code: the same axes counted from the start"""
  if sa is None:
    return None
  if isinstance(sa, list):
    return [int(a) % rank for a in sa]
  return int(sa) % rank


def has_negative(sa):
  return sa is not None and any(a < 0 for a in (sa if isinstance(sa, list) else [sa]))


def spell(rng, axes, rank, how):
  """axes (ascending, from the start) re-spelled: 'end' = every axis as axis - rank, 'mixed' = some of them"""
  if how == "end":
    return [a - rank for a in axes]
  while True:
    out = [a - rank if rng.random() < 0.5 else a for a in axes]
    if len(axes) < 2 or (any(a < 0 for a in out) and any(a >= 0 for a in out)):
      return out


def gen_axis_cases(rng, tier):
  """single calls of fresh objects whose scale_axis is spelled FROM THE END (negative ints; ints, lists, mixed lists;
  with elements_per_scale), each paired with the same configuration spelled from the start: the clause oracle judges
  both, the Lean model resolves the argument itself (`qbAxis` / `qlAxis`), and the pair must agree bit for bit"""
  reps = 1 if tier == "quick" else 4
  pairs = []

  def add(qk, po2, sh, sa, eps=None, zero=None):
    c = dict(stream="axis-from-end", q=qk, shape=list(sh), x=varied_tensor(rng, sh, zero=zero),
             bits=int(rng.integers(2, 9)), integer=int(rng.integers(0, 3)), kn=bool(rng.random() < 0.85), po2=po2,
             ch_last=bool(rng.random() < 0.6), sa=sa)
    if qk == "qbits":
      c.update(eps=eps, mn=None, mx=None, pts=None)
    else:
      c["sym"] = bool(rng.random() < 0.7)
    d = dict(c, stream="axis-from-start", sa=from_start(sa, len(sh)))
    pairs.append((c, d))

  for _ in range(reps):
    for qk in ("qbits", "qlinear"):
      for po2 in (False, True):
        for rank in (2, 3, 4):
          for a in rng.choice(rank, size=2, replace=False).tolist():
            add(qk, po2, hist_shape(rng, rank, {}), int(a) - rank, zero="channel" if rng.random() < 0.2 else None)
          for how in ("end", "mixed"):
            k = int(rng.integers(1, rank + 1)) if how == "end" else int(rng.integers(2, rank + 1))
            axes = sorted(rng.choice(rank, size=k, replace=False).tolist())
            add(qk, po2, hist_shape(rng, rank, {}), spell(rng, axes, rank, how))
        # rank 1: quantized_linear resolves the axis at every rank, quantized_bits does not look at it
        add(qk, po2, [int(rng.choice([2, 4, 8]))], -1)
    # elements_per_scale (quantized_bits, auto_po2): `_get_scale_mean` normalises before it unrolls
    for rank, how in ((2, "end"), (3, "mixed"), (4, "end"), (3, "int")):
      sh = hist_shape(rng, rank, {})
      if how == "int":
        a = int(rng.integers(0, rank))
        add("qbits", True, sh, a - rank, eps=int(rng.choice([d for d in (1, 2, 4) if sh[a] % d == 0])))
      else:
        axes = sorted(rng.choice(rank, size=2, replace=False).tolist())
        facs = [int(rng.choice([d for d in (1, 2, 4) if sh[a] % d == 0])) for a in axes]
        add("qbits", True, sh, spell(rng, axes, rank, how), eps=facs if rng.random() < 0.6 else int(min(facs)))
  return pairs


def gen_axis_histories(rng, tier):
  """ONE object whose scale_axis is negative, used on tensors of DIFFERENT rank (the axis it names moves), re-spelled
  between calls (k - rank, [k - rank], k), with elements_per_scale; same record format as `gen_history`"""
  reps = 2 if tier == "quick" else 8
  hs = []

  def new(qk, pat, po2, sa, eps=None):
    cfg = dict(bits=int(rng.integers(2, 9)), integer=int(rng.integers(0, 3)), kn=bool(rng.random() < 0.85), po2=po2,
               sa=sa, eps=eps, mn=None, mx=None)
    if qk == "qlinear":
      cfg["sym"] = bool(rng.random() < 0.7)
    return dict(q=qk, pattern=pat, cfg0=dict(cfg), pts=None, pre=None, steps=[],
                build_ch_last=bool(rng.random() < 0.5)), cfg

  def step(h, cfg, shape, x=None, set_=None, ch_last=True, twin_of=None, twin_k=None, same_as=None, g=None):
    if set_:
      cfg.update(set_)
    h["steps"].append(dict(cfg=dict(cfg), set=dict(set_) if set_ else None, ch_last=ch_last, shape=list(shape),
                           x=varied_tensor(rng, shape, g=g) if x is None else x, twin_of=twin_of, twin_k=twin_k,
                           same_as=same_as, as_numpy=bool(rng.random() < 0.4)))

  for rep in range(reps):
    for qk in ("qbits", "qlinear"):
      for po2 in (False, True):
        # --- the rank changes under a negative axis: -1 is axis 1, then 3, then 2, ...
        sa = [-1, -2, [-1], [0, -1], [-2, -1]][int(rng.integers(0, 5))] if rep else (-1 if qk == "qbits" else -2)
        h, cfg = new(qk, "axis-end-ranks", po2, sa)
        fmt = bool(rng.random() < 0.7)
        ranks = [2, 4, 3, 2] if rep == 0 else [int(r) for r in rng.permutation([2, 3, 4])] + [int(rng.integers(2, 5))]
        if sa in (-1, [-1]) and rep:
          ranks.insert(2, 1)
        for r in ranks:
          step(h, cfg, hist_shape(rng, r, {}), ch_last=fmt)
        hs.append(h)
        # --- the same axis re-spelled on one object
        rank = int(rng.integers(2, 5))
        k = int(rng.integers(0, rank))
        s0 = hist_shape(rng, rank, {})
        x0 = varied_tensor(rng, s0)
        kk = int(rng.choice([-3, -1, 2, 5]))
        h, cfg = new(qk, "axis-respell", po2, k - rank)
        step(h, cfg, s0, x=x0)
        step(h, cfg, s0, x=(x0.astype(np.float64) * 2.0 ** kk).astype(np.float32), twin_of=0, twin_k=kk)
        if qk == "qbits":
          step(h, cfg, s0, x=x0.copy(), set_=dict(sa=[k - rank]))
          step(h, cfg, s0, x=x0.copy(), set_=dict(sa=k))
          step(h, cfg, s0, x=x0.copy(), set_=dict(sa=k - rank), same_as=0)
        else:
          # quantized_linear.scale_axis is a read-only property: no re-assignment, other data and the tensor again
          step(h, cfg, s0, g=int(rng.integers(5, 9)))
          step(h, cfg, s0, x=x0.copy(), same_as=0)
        hs.append(h)
    # --- elements_per_scale with an axis from the end, over ranks (quantized_bits, auto_po2)
    e = int(rng.choice([1, 2, 4]))
    sa, eps = ((-1, e) if rep % 2 == 0 else ([0, -1], [1, e]))
    h, cfg = new("qbits", "axis-end-eps", True, sa, eps=eps)
    last = tuple(d for d in (2, 4, 8) if d % e == 0)
    s0 = hist_shape(rng, 3, {2: last})
    x0 = varied_tensor(rng, s0)
    kk = int(rng.choice([-3, 2, 5]))
    step(h, cfg, s0, x=x0)
    step(h, cfg, s0, x=(x0.astype(np.float64) * 2.0 ** kk).astype(np.float32), twin_of=0, twin_k=kk)
    step(h, cfg, hist_shape(rng, 2, {1: last}))
    step(h, cfg, hist_shape(rng, 4, {3: last}))
    step(h, cfg, s0, x=x0.copy(), same_as=0)
    hs.append(h)
  return hs


# ------------------------------------------------------------------ argument forms

def gen_argforms(rng, tier):
  n = 6 if tier == "quick" else 30
  out = []
  for _ in range(n):
    sh = hist_shape(rng, int(rng.integers(1, 5)), {})
    out.append(dict(q="qbits" if rng.random() < 0.5 else "qlinear", po2=bool(rng.random() < 0.5),
                    bits=int(rng.integers(2, 9)), integer=int(rng.integers(0, 3)), shape=sh,
                    sa=(int(rng.integers(0, len(sh))) if len(sh) >= 2 and rng.random() < 0.5 else None),
                    x=varied_tensor(rng, sh)))
  return out


def run_argforms(run, Q, tf, forms):
  """same value in another argument form => same output, same exposed scale"""
  num_forms = [("np.int64", np.int64), ("np.int32", np.int32), ("float", float), ("np.float32", np.float32),
               ("0-d ndarray", np.array), ("np.float64", np.float64)]
  x_forms = [("ndarray", lambda x: x.copy()), ("float64 ndarray", lambda x: x.astype(np.float64)),
             ("tf.Variable", lambda x: __import__("tensorflow").Variable(x)), ("nested list", lambda x: x.tolist())]
  for c in forms:
    alpha = "auto_po2" if c["po2"] else "auto"
    cls = Q.quantized_bits if c["q"] == "qbits" else Q.quantized_linear
    key0 = dict(quantizer="quantized_bits" if c["q"] == "qbits" else "quantized_linear", alpha=alpha)
    ref = call_q(c["q"], cls(c["bits"], c["integer"], alpha=alpha, scale_axis=c["sa"]), tf.constant(c["x"]), c["shape"])
    variants = [("bits,integer as " + n, (lambda f=f: cls(f(c["bits"]), f(c["integer"]), alpha=alpha, scale_axis=c["sa"])),
                 tf.constant(c["x"])) for n, f in num_forms]
    variants += [("x as " + n, (lambda: cls(c["bits"], c["integer"], alpha=alpha, scale_axis=c["sa"])), f(c["x"]))
                 for n, f in x_forms]
    if c["sa"] is not None:
      variants.append(("scale_axis as np.int64", (lambda: cls(c["bits"], c["integer"], alpha=alpha,
                                                              scale_axis=np.int64(c["sa"]))), tf.constant(c["x"])))
      variants.append(("scale_axis as one-element list", (lambda: cls(c["bits"], c["integer"], alpha=alpha,
                                                                      scale_axis=[c["sa"]])), tf.constant(c["x"])))
      neg = c["sa"] - len(c["shape"])                     # the same axis counted from the end
      for n, v in (("python int", neg), ("np.int64", np.int64(neg)), ("np.int32", np.int32(neg)),
                   ("one-element list", [neg])):
        variants.append(("scale_axis counted from the end as " + n,
                         (lambda v=v: cls(c["bits"], c["integer"], alpha=alpha, scale_axis=v)), tf.constant(c["x"])))
    for name, mk, xin in variants:
      run.case(key=("argform", name, len(run.nontrivial)), nontrivial=True)
      run.count("argform:" + name)
      run.compared += 1
      det = dict(form=name, quantizer=c["q"], alpha=alpha, bits=c["bits"], integer=c["integer"], scale_axis=c["sa"],
                 shape=c["shape"], x=[float(v) for v in c["x"].ravel()[:12]])
      try:
        got = call_q(c["q"], mk(), xin, c["shape"])
      except Exception as e:  # pylint: disable=broad-except
        run.violate("returns_output", dict(key0, error=type(e).__name__, form=name), dict(det, error=str(e)[:200]),
                    mirrored=False)
        continue
      if not all(a is None and b is None or (a.shape == b.shape and np.array_equal(a, b)) for a, b in zip(ref, got)):
        run.violate("function_of_data", dict(key0, form=name),
                    dict(det, why="same configuration and tensor in another argument form gives another output / scale",
                         y=[float(v) for v in got[0].ravel()[:6]], y_ref=[float(v) for v in ref[0].ravel()[:6]],
                         scale_shape=list(got[1].shape), scale_shape_ref=list(ref[1].shape)), mirrored=False)


# ------------------------------------------------------------------ the consumer inside a history

# forms in which a post-training scale reaches the constructor (same values => same behaviour); the quantizer stores
# np.array(form): float32 arrays for the first five, float64 for the others
PTS_FORMS = ("float32 ndarray", "live.scale.numpy()", "tf.constant", "np.float32 scalar", "0-d float32 ndarray",
             "float64 ndarray", "nested list", "python float")
CONSUMER_LAYERS = ("dense", "conv2d", "dense-shared")


def gen_consumers(rng, tier):
  """small QDense / QConv2D models whose weight quantizers are the C05 quantizers (live, or frozen with the
  post-training scale given in every form), to be called, EXPORTED (model_save_quantized_weights) and re-observed"""
  reps = 1 if tier == "quick" else 5
  out = []
  modes = [("live", None)] * 3 + [("frozen", f) for f in PTS_FORMS]
  for rep in range(reps):
    for t, (mode, form) in enumerate(modes):
      for lk in CONSUMER_LAYERS:
        if lk == "dense-shared" and (t + rep) % 3 != 0:
          continue
        qk = "qlinear" if (mode == "live" and t == 2) else "qbits"
        po2 = bool(rng.random() < 0.85)
        bits = int(rng.integers(2, 9))
        cfg = dict(bits=bits, integer=int(rng.integers(0, 4)), kn=True if rng.random() < 0.85 else False, po2=po2,
                   sa=None, eps=None, mn=None, mx=None)
        if qk == "qlinear":
          cfg["sym"] = bool(rng.random() < 0.7)
        cin, cout = int(rng.choice([2, 4])), int(rng.choice([2, 4, 8]))
        if lk == "dense-shared":
          cin = cout
        kshape = [cin, cout] if lk != "conv2d" else [int(rng.choice([1, 2])), 2, cin, cout]
        if mode == "live" and rng.random() < 0.3:
          cfg["sa"] = int(rng.integers(0, len(kshape)))
          if len(out) % 2 == 0:
            cfg["sa"] -= len(kshape)                      # the same kernel axis counted from the end
        bias = None
        if lk != "dense-shared" and rng.random() < 0.45:
          # a second C05 quantizer on the bias (rank 1: one scale per element)
          bias = dict(mode="live" if rng.random() < 0.5 else "frozen",
                      cfg=dict(cfg, bits=int(rng.integers(2, 9)), integer=int(rng.integers(0, 3)), sa=None),
                      form=PTS_FORMS[int(rng.integers(0, len(PTS_FORMS)))])
        out.append(dict(layer=lk, q=qk, mode=mode, form=form, cfg=cfg, kshape=kshape, cout=cout, bias=bias,
                        export_ch_last=bool(lk != "dense" or rng.random() < 0.75),
                        w=[varied_tensor(rng, kshape, g=int(rng.integers(-3, 2))) for _ in range(2)],
                        w_other=varied_tensor(rng, kshape, g=int(rng.integers(-2, 4))),
                        b=varied_tensor(rng, [cout], g=int(rng.integers(-3, 2))),
                        b_other=varied_tensor(rng, [cout], g=int(rng.integers(-2, 3))),
                        pts_exp=rng.integers(-3, 4, size=64), pts_rank=int(rng.integers(0, 3)),
                        clone=bool(mode == "live" and qk == "qbits" and po2 and bias is None),
                        clone_quantize=bool(sum(1 for o in out if o["clone"]) % 2 == 0)))
  return out


def canon_pts(rng_exp, form, po2, shape_full, cout, rank_sel, wt, unit_top):
  """the VALUES of a post-training scale (float32 array): powers of two (the export asserts it for auto_po2; 'auto'
  gets 3-bit dyadics), one per output channel in keepdims / flat form, or one scalar"""
  if form in ("np.float32 scalar", "0-d float32 ndarray", "python float") or rank_sel == 0:
    shape = []
  elif rank_sel == 1:
    shape = [cout]
  else:
    shape = [1] * (len(shape_full) - 1) + [cout]
  n = int(np.prod(shape)) if shape else 1
  # commensurate with the data: the channel (or tensor) maximum lands near the top code, exponent jittered by -1..1
  # (so some channels saturate, none is far below the data: the straight-through absorption regime is a recorded
  # finding and not the point of this stream)
  mx = np.max(np.abs(wt.astype(np.float64)).reshape(-1, wt.shape[-1]), axis=0)
  mx = np.where(mx > 0, mx, 1.0)
  base = np.round(np.log2(mx / unit_top))
  base = base[:n] if n > 1 else np.array([np.max(base)])
  v = np.exp2(base + (np.asarray(rng_exp[:n], dtype=np.float64) % 3 - 1))
  if not po2:
    v = v * (1 + (np.arange(n) % 3) * 0.25)
  return v.astype(np.float32).reshape(shape)


def pts_in_form(tf, form, v):
  if form == "float32 ndarray":
    return v.copy()
  if form == "float64 ndarray":
    return v.astype(np.float64)
  if form == "nested list":
    return v.tolist()
  if form == "tf.constant":
    return tf.constant(v)
  if form == "np.float32 scalar":
    return np.float32(v)
  if form == "0-d float32 ndarray":
    return np.array(v, dtype=np.float32)
  if form == "python float":
    return float(v)
  raise ValueError(form)


def observe(qk, q):
  sc = q.scale
  d = dict(type=type(sc).__name__, dtype=str(getattr(sc, "dtype", None)))
  d["sc"] = np.asarray(sc.numpy() if hasattr(sc, "numpy") else sc, dtype=np.float64).copy()
  d["qs"] = np.asarray(q.quantization_scale, dtype=np.float64).copy() if qk == "qlinear" else None
  d["snap"] = snapshot(q)
  return d


def run_consumer(Q, K, tf, c):
  """the REAL code.  Per quantizer OBJECT held by the model a history of events: direct call, export of the model
  (model_save_quantized_weights), read, direct call again, second export, call on other data, call again, then
  get_weight_scale and (where the function supports the model) clone_model_and_freeze_auto_po2_scale"""
  from qkeras import QConv2D, QDense
  from qkeras import utils as U
  tfk = tf.keras
  res = dict(objs=[], err=None, clone=None)
  K.set_image_data_format("channels_last")
  try:
    def mk(qk, mode, form, cfg, wt, rank_sel):
      pts = None
      if mode == "frozen":
        if form == "live.scale.numpy()":
          live = build_q(Q, qk, cfg, None)
          live(tf.constant(wt))
          pts = live.scale.numpy()
          arg = pts
        else:
          ub = cfg["bits"] - (1 if cfg["kn"] else 0)
          pts = canon_pts(c["pts_exp"], form, cfg["po2"], list(wt.shape), wt.shape[-1], rank_sel, wt,
                          (2.0 ** (cfg["bits"] - 1) - 1) * 2.0 ** (cfg["integer"] - ub))
          arg = pts_in_form(tf, form, pts)
        pts = np.array(pts, dtype=np.float32)
        q = Q.quantized_bits(cfg["bits"], cfg["integer"], 0, keep_negative=cfg["kn"],
                             alpha="auto_po2" if cfg["po2"] else "auto", scale_axis=cfg["sa"], post_training_scale=arg)
      else:
        q = build_q(Q, qk, cfg, None)
      return q, pts
    kq, kpts = mk(c["q"], c["mode"], c["form"], c["cfg"], c["w"][0], c["pts_rank"])
    bq = bpts = None
    if c["bias"] is not None:
      bq, bpts = mk("qbits", c["bias"]["mode"], c["bias"]["form"], c["bias"]["cfg"], c["b"], 1)
    kw = dict(kernel_quantizer=kq, bias_quantizer=bq, use_bias=c["bias"] is not None)
    if c["layer"] == "conv2d":
      x = inp = tfk.Input((5, 5, c["kshape"][2]))
      layers = [QConv2D(c["cout"], tuple(c["kshape"][:2]), name="c0", **kw)]
    else:
      x = inp = tfk.Input((c["kshape"][0],))
      layers = [QDense(c["cout"], name="d0", **kw)]
      if c["layer"] == "dense-shared":
        layers.append(QDense(c["cout"], name="d1", **kw))
    for l in layers:
      x = l(x)
    model = tfk.Model(inp, x)
    for i, l in enumerate(layers):
      l.set_weights([c["w"][i]] + ([c["b"]] if c["bias"] is not None else []))
    # the objects the layers really hold, with their slots (layer, weight index) in export order
    objs = []
    for l in layers:
      for wi, q in enumerate(l.get_quantizers()):
        if q is None:
          continue
        o = next((o for o in objs if o["q"] is q), None)
        if o is None:
          o = dict(q=q, qk=c["q"] if wi == 0 else "qbits", cfg=c["cfg"] if wi == 0 else c["bias"]["cfg"],
                   pts=kpts if wi == 0 else bpts, form=(c["form"] if wi == 0 else c["bias"]["form"]),
                   mode=(c["mode"] if wi == 0 else c["bias"]["mode"]), role="kernel" if wi == 0 else "bias",
                   slots=[], events=[], x0=c["w"][0] if wi == 0 else c["b"],
                   x_other=c["w_other"] if wi == 0 else c["b_other"])
          if o["mode"] == "live":
            o["form"] = None
          objs.append(o)
        o["slots"].append((l, wi))
    res["objs"] = objs

    def twin_of(o, xt):
      try:
        tw = build_q(Q, o["qk"], o["cfg"], o["pts"])
        return call_q(o["qk"], tw, tf.constant(xt), list(xt.shape)), None
      except Exception as e:  # pylint: disable=broad-except
        return None, "%s: %s" % (type(e).__name__, str(e)[:200])

    def ev_call(o, xt, tag, ch_last=True):
      ev = dict(kind="call", tag=tag, x=xt.copy(), ch_last=ch_last, err=None)
      K.set_image_data_format("channels_last" if ch_last else "channels_first")
      try:
        ev["y"] = np.asarray(o["q"](tf.constant(xt)), dtype=np.float32)
        ev.update(observe(o["qk"], o["q"]))
      except Exception as e:  # pylint: disable=broad-except
        ev["err"] = "%s: %s" % (type(e).__name__, str(e)[:200])
      ev["twin"], ev["twin_err"] = twin_of(o, xt)
      K.set_image_data_format("channels_last")
      o["events"].append(ev)

    def ev_export(tag, ch_last):
      before = {id(o["q"]): [np.array(l.get_weights()[wi], dtype=np.float32) for l, wi in o["slots"]] for o in objs}
      K.set_image_data_format("channels_last" if ch_last else "channels_first")
      err = ret = None
      try:
        ret = U.model_save_quantized_weights(model)
      except Exception as e:  # pylint: disable=broad-except
        err = "%s: %s" % (type(e).__name__, str(e)[:200])
      for o in objs:
        for si, (l, wi) in enumerate(o["slots"]):
          xt = before[id(o["q"])][si]
          ev = dict(kind="export", tag=tag, x=xt, ch_last=ch_last, err=err, last_slot=si == len(o["slots"]) - 1)
          if err is None:
            try:
              ev["y"] = np.array(l.get_weights()[wi], dtype=np.float32)        # software-format weight written back
              ev["hw"] = np.asarray(ret[l.name]["weights"][wi], dtype=np.float64)
              scs = ret[l.name].get("scales")
              ev["scales"] = None if scs is None or isinstance(scs[wi], list) else np.asarray(scs[wi], dtype=np.float64)
              ev.update(observe(o["qk"], o["q"]))      # AFTER the whole export (= after the object's last slot)
            except Exception as e:  # pylint: disable=broad-except
              ev["err"] = "%s: %s" % (type(e).__name__, str(e)[:200])
          ev["twin"], ev["twin_err"] = twin_of(o, xt)
          o["events"].append(ev)
      K.set_image_data_format("channels_last")

    import contextlib, io
    with contextlib.redirect_stdout(io.StringIO()):
      for o in objs:
        ev_call(o, o["x0"], "call before the export")
      ev_export("first export", c["export_ch_last"])
      for o in objs:
        ev_call(o, o["x0"], "call after the export")
      ev_export("second export (weights already quantized)", True)
      for o in objs:
        ev_call(o, o["x_other"], "other data after two exports")
        ev_call(o, o["x0"], "first tensor again", ch_last=c["export_ch_last"])
        try:
          g = Q.get_weight_scale(o["q"])
          o["gws"] = np.asarray(g, dtype=np.float64)
          o["after_gws"] = observe(o["qk"], o["q"])
        except Exception as e:  # pylint: disable=broad-except
          o["gws_err"] = "%s: %s" % (type(e).__name__, str(e)[:200])
      if c["clone"]:
        cl = dict(err=None, layers=[])
        wcur = [[np.array(v, dtype=np.float32) for v in l.get_weights()] for l in layers]
        try:
          # quantize_model_weights=True also exports the NEW model (frozen float64 scales) and self-checks the hardware
          # weights; with False only the oracle below judges the frozen quantizers
          nm, _ = U.clone_model_and_freeze_auto_po2_scale(model, quantize_model_weights=c["clone_quantize"])
          for l, ws in zip(layers, wcur):
            nq = nm.get_layer(l.name).get_quantizers()[0]
            d = dict(wc=ws[0], w=c["w"][0], nq_pts=np.asarray(nq.post_training_scale, dtype=np.float64),
                     freeze=bool(nq.freeze_scale), attrs=model_attrs("qbits", nq), obs0=observe("qbits", nq))
            d["y"] = np.asarray(nq(tf.constant(c["w"][0])), dtype=np.float32)
            d["obs1"] = observe("qbits", nq)
            live = build_q(Q, "qbits", c["cfg"], None)
            live(tf.constant(ws[0]))
            d["want_pts"] = np.asarray(live.scale.numpy(), dtype=np.float32)
            cl["layers"].append(d)
          for o in objs:
            o["after_clone"] = observe(o["qk"], o["q"])
        except Exception as e:  # pylint: disable=broad-except
          cl["err"] = "%s: %s" % (type(e).__name__, str(e)[:300])
        res["clone"] = cl
  except Exception as e:  # pylint: disable=broad-except
    res["err"] = "%s: %s" % (type(e).__name__, str(e)[:300])
  finally:
    K.set_image_data_format("channels_last")
    tf.keras.backend.clear_session()
  return res


def consumer_lines(c, res, eps32):
  """one driver line per quantizer object (qbits_hist / qlinear_hist with export events), plus one per cloned
  quantizer (frozen object: export inside the clone function, then a call)"""
  lines, owners = [], []
  for oi, o in enumerate(res["objs"]):
    qk = o["qk"]
    steps = [dict(set=None, ch_last=ev["ch_last"], shape=list(ev["x"].shape), x=A.enc(A.fr(ev["x"])),
                  export=ev["kind"] == "export") for ev in o["events"]]
    l = dict(op="qbits_hist" if qk == "qbits" else "qlinear_hist", cfg=cfg_attrs(qk, o["cfg"]), steps=steps,
             eps32=core.rj(eps32))
    if o["pts"] is not None:
      l["pts"] = dict(shape=list(o["pts"].shape), vals=A.enc(A.fr(o["pts"])))
    lines.append(l)
    owners.append(("obj", oi))
  if res["clone"] is not None and res["clone"]["err"] is None:
    for li, d in enumerate(res["clone"]["layers"]):
      steps = [dict(set=None, ch_last=True, shape=list(d["wc"].shape), x=A.enc(A.fr(d["wc"])), export=True),
               dict(set=None, ch_last=True, shape=list(d["w"].shape), x=A.enc(A.fr(d["w"])), export=False)]
      lines.append(dict(op="qbits_hist", cfg=cfg_attrs("qbits", c["cfg"]), steps=steps, eps32=core.rj(eps32),
                        pts=dict(shape=list(d["want_pts"].shape), vals=A.enc(A.fr(d["want_pts"])))))
      owners.append(("clone", li))
  return lines, owners


def arr_desc(a):
  a = np.asarray(a)
  return dict(shape=list(a.shape), vals=[float(v) for v in a.ravel()[:8]])


def judge_consumer(run, c, res, outs, owners):
  """every event of every object: Lean tie (result, stored scale, exported entries), clause oracle on the real
  output against the scale the object exposes NOW, fresh twin, frozen scale / attributes unchanged by the export"""
  base = dict(layer=c["layer"], kernel_shape=c["kshape"], export_data_format="channels_last" if c["export_ch_last"]
              else "channels_first")
  if res["err"] is not None:
    run.case(key=("consumer-raises", len(run.nontrivial)), nontrivial=True)
    run.violate("returns_output", dict(quantizer=c["q"], consumer="model-build", error=res["err"].split(":")[0]),
                dict(base, error=res["err"], mode=c["mode"], form=c["form"], cfg=c["cfg"]), mirrored=False)
    return
  for (kind, idx), out in zip(owners, outs):
    if kind != "obj":
      continue
    o = res["objs"][idx]
    qk, cfg, pts = o["qk"], o["cfg"], o["pts"]
    alpha = "auto_po2" if cfg["po2"] else "auto"
    key0 = dict(quantizer="quantized_bits" if qk == "qbits" else "quantized_linear", alpha=alpha,
                frozen=pts is not None)
    msteps = out.get("steps", [])
    first = {}
    prev = None
    for i, ev in enumerate(o["events"]):
      lab = dict(base, role=o["role"], scale_mode=o["mode"], post_training_scale_form=o["form"],
                 post_training_scale=None if pts is None else arr_desc(pts), cfg=cfg,
                 events=[e["kind"] + ": " + e["tag"] for e in o["events"][:i + 1]],
                 tensor=[float(v) for v in ev["x"].ravel()[:12]])
      run.count("consumer:%s:%s:%s" % (ev["kind"], qk, o["mode"] if pts is None else "frozen/" + str(o["form"])))
      mo = msteps[i] if i < len(msteps) else {"err": "missing"}
      if ev["err"] is not None:
        run.case(key=("consumer-raises", len(run.nontrivial)), nontrivial=True)
        run.violate("returns_output", dict(key0, consumer=ev["kind"], error=ev["err"].split(":")[0]),
                    dict(lab, error=ev["err"]), mirrored=False)
        prev = None
        continue
      shape = list(ev["x"].shape)
      sc_raw, qs_raw, y = ev["sc"], ev["qs"], ev["y"]
      try:
        sc = A.broadcast_scale(sc_raw, tuple(shape))
        qs = None if qs_raw is None else A.broadcast_scale(qs_raw, tuple(shape))
      except ValueError:
        sc = None
      inter = ev["kind"] == "export" and not ev["last_slot"]      # a shared object: scale read after its LAST slot
      if sc is None or list(y.shape) != shape:
        run.case(key=("consumer-scale-shape", len(run.nontrivial)), nontrivial=True)
        run.violate("scale_shape", dict(key0, consumer=ev["kind"]),
                    dict(lab, scale_shape=list(sc_raw.shape), output_shape=list(y.shape)), mirrored=False)
        prev = ev
        continue
      if not (np.isfinite(y).all() and np.isfinite(sc).all() and (qs is None or np.isfinite(qs).all())):
        run.case(key=("consumer-nonfinite", len(run.nontrivial)), nontrivial=True)
        run.violate("finite", dict(key0, consumer=ev["kind"]), dict(lab, y=[float(v) for v in y.ravel()[:8]],
                                                                    scale=arr_desc(sc_raw)), mirrored=False)
        prev = ev
        continue
      # ---- clause oracle + Lean tie: the output of THIS event against the scale the object exposes after it
      if not (inter and pts is None):
        cc = dict(cfg, q=qk, stream="consumer", shape=shape, x=ev["x"], ch_last=ev["ch_last"], pts=pts,
                  scale_shapes=[list(sc_raw.shape)] + ([list(qs_raw.shape)] if qs_raw is not None else []),
                  consumer=lab)
        im = (A.fr(ev["x"]), A.fr(y), [F(float(v)) for v in sc], None if qs is None else [F(float(v)) for v in qs])
        r = tie_and_judge(run, cc, im, mo)
      # ---- the frozen scale is an INPUT: after every event q.scale is still the configured post-training scale
      if pts is not None:
        if list(sc_raw.shape) != list(pts.shape) or not np.array_equal(sc_raw, pts.astype(np.float64)):
          run.violate("frozen_scale_kept", dict(key0, after=ev["kind"]),
                      dict(lab, configured=arr_desc(pts), exposed_now=arr_desc(sc_raw),
                           why="quantizer.scale read after this event is not the configured post_training_scale"),
                      mirrored=False)
      # ---- the object's state after the event, against the object model (stored scale, attributes)
      st = mo.get("stored")
      if "err" not in mo and not mo.get("band") and not inter:
        want = None
        if st is not None:
          try:
            want = [F(v) for v in A.dec(st["vals"])]
            wshape = st["shape"]
            wb = A.broadcast_scale(np.array([float(v) for v in want]).reshape(wshape), tuple(shape))
          except ValueError:
            wb = None
        run.compared += 1
        real = sc if qk == "qbits" else qs        # QLObj stores self.quantization_scale
        if st is None or wb is None or not np.array_equal(np.asarray(wb, dtype=np.float64), np.asarray(real, dtype=np.float64)):
          run.disagree("consumer-stored-scale:" + qk, lab, arr_desc(sc_raw if qk == "qbits" else qs_raw),
                       None if st is None else dict(shape=st["shape"], vals=[float(v) for v in A.dec(st["vals"])][:8]))
        if qk == "qbits" and mo.get("attrs") != cfg_attrs(qk, cfg):
          run.disagree("consumer-attributes:" + qk, lab, None, mo.get("attrs"))
      # ---- the entries the export returns (tie only; whether hw*scale reproduces the weight is C14's clause)
      if ev["kind"] == "export" and qk == "qbits" and "err" not in mo and not mo.get("band") and mo.get("exported"):
        ex = mo["exported"]
        run.compared += 1
        hw_m = [float(v) for v in A.dec(ex["hw"])]
        ok = list(np.asarray(ev["hw"]).ravel()) == hw_m
        if ex["scales"] is None:
          ok = ok and ev["scales"] is None
        else:
          try:
            ok = ok and ev["scales"] is not None and \
                [float(v) for v in A.broadcast_scale(ev["scales"], tuple(shape))] == [float(v) for v in A.dec(ex["scales"])]
          except ValueError:
            ok = False
        if not ok:
          run.disagree("consumer-exported-entries", lab,
                       dict(hw=arr_desc(ev["hw"]), scales=None if ev["scales"] is None else arr_desc(ev["scales"])),
                       dict(hw=hw_m[:8], scales=None if ex["scales"] is None else [float(v) for v in A.dec(ex["scales"])][:8]))
      # ---- attributes: the model's public ones and every other instance attribute are untouched by the event
      if prev is not None and "snap" in prev:
        skip = set() if pts is not None else {"scale", "quantization_scale"}
        ds = sorted(k for k in set(ev["snap"]) | set(prev["snap"])
                    if k not in skip and ev["snap"].get(k, "<missing>") != prev["snap"].get(k, "<missing>"))
        if ds or (pts is not None and (ev["type"], ev["dtype"]) != (prev["type"], prev["dtype"])):
          run.violate("consumer_keeps_quantizer", dict(key0, after=ev["kind"], attributes=",".join(ds) or "scale-type"),
                      dict(lab, before={k: prev["snap"].get(k, "<missing>") for k in ds},
                           after={k: ev["snap"].get(k, "<missing>") for k in ds},
                           scale_type=[prev["type"], prev["dtype"], ev["type"], ev["dtype"]],
                           why="instance attributes of the quantizer object changed across this event "
                               "(a call / an export may only assign self.scale of a non-frozen quantizer)"),
                      mirrored=False)
      # ---- function of (configuration, tensor): fresh twin on this tensor; the same tensor earlier in the history
      run.compared += 1
      if ev["twin_err"] is not None:
        run.violate("returns_output", dict(key0, error=ev["twin_err"].split(":")[0]), dict(lab, error=ev["twin_err"]),
                    mirrored=False)
      elif not inter:
        ty, tsc, tqs = ev["twin"]
        same = (y.shape == ty.shape and np.array_equal(y, ty) and sc_raw.shape == tsc.shape and np.array_equal(sc_raw, tsc)
                and (qs_raw is None or (qs_raw.shape == tqs.shape and np.array_equal(qs_raw, tqs))))
        if not same:
          j = int(np.argmax(y.ravel() != ty.ravel())) if y.shape == ty.shape and not np.array_equal(y, ty) else 0
          run.violate("function_of_data", dict(key0, consumer=ev["kind"]),
                      dict(lab, why="after the earlier events (calls and exports) this object differs from a fresh "
                                    "quantizer of the same configuration / post-training scale on the same tensor",
                           i=j, y=float(y.ravel()[j]), y_fresh=float(ty.ravel()[j]) if y.shape == ty.shape else None,
                           scale=arr_desc(sc_raw), scale_fresh=arr_desc(tsc)), mirrored=False)
        else:
          run.count("consumer:event-equals-fresh-twin")
      kx = (ev["x"].tobytes(), ev["ch_last"])
      if kx in first and ev["kind"] == "call":
        y0 = first[kx]
        if not np.array_equal(y0, y):
          j = int(np.argmax(y0.ravel() != y.ravel()))
          run.violate("function_of_data", dict(key0, consumer="repeat"),
                      dict(lab, why="the same object returns another output for the tensor it was given earlier "
                                    "in this history", i=j, y_earlier=float(y0.ravel()[j]), y_now=float(y.ravel()[j])),
                      mirrored=False)
      elif ev["kind"] == "call":
        first[kx] = y
      prev = ev
    # ---- get_weight_scale(q) is the exposed scale, and reads only
    lab = dict(base, role=o["role"], scale_mode=o["mode"], post_training_scale_form=o["form"], cfg=cfg)
    if "gws_err" in o:
      run.violate("returns_output", dict(key0, consumer="get_weight_scale", error=o["gws_err"].split(":")[0]),
                  dict(lab, error=o["gws_err"]), mirrored=False)
    elif "gws" in o and o["events"] and "sc" in o["events"][-1]:
      last = o["events"][-1]
      if o["gws"].shape != last["sc"].shape or not np.array_equal(o["gws"], last["sc"]) or \
          not np.array_equal(o["after_gws"]["sc"], last["sc"]):
        run.violate("consumer_keeps_quantizer", dict(key0, after="get_weight_scale"),
                    dict(lab, returned=arr_desc(o["gws"]), exposed=arr_desc(last["sc"]),
                         exposed_after=arr_desc(o["after_gws"]["sc"])), mirrored=False)
    if "after_clone" in o and o["events"] and "snap" in o["events"][-1]:
      if o["after_clone"]["snap"] != o["events"][-1]["snap"]:
        run.violate("consumer_keeps_quantizer", dict(key0, after="clone_model_and_freeze_auto_po2_scale"),
                    dict(lab, why="the ORIGINAL model's quantizer changed while the model was cloned"), mirrored=False)
  # ---- the clone route: frozen quantizers built by clone_model_and_freeze_auto_po2_scale, exported inside it
  cl = res["clone"]
  if cl is None:
    return
  key0 = dict(quantizer="quantized_bits", alpha="auto_po2", frozen=True, route="clone_model_and_freeze_auto_po2_scale")
  if cl["err"] is not None:
    run.case(key=("consumer-clone-raises", len(run.nontrivial)), nontrivial=True)
    run.violate("returns_output", dict(key0, error=cl["err"].split(":")[0]), dict(base, cfg=c["cfg"], error=cl["err"]),
                mirrored=False)
    return
  for (kind, idx), out in zip(owners, outs):
    if kind != "clone":
      continue
    d = cl["layers"][idx]
    lab = dict(base, cfg=c["cfg"], cloned_layer=idx, weights_at_clone=[float(v) for v in d["wc"].ravel()[:12]],
               tensor=[float(v) for v in d["w"].ravel()[:12]])
    run.count("consumer:clone-route:quantize_model_weights=%s" % c["clone_quantize"])
    want = d["want_pts"].astype(np.float64)
    for name, got in (("post_training_scale", d["nq_pts"]), ("scale after the clone", d["obs0"]["sc"]),
                      ("scale after a call", d["obs1"]["sc"])):
      if list(got.shape) != list(want.shape) or not np.array_equal(got, want):
        run.violate("frozen_scale_kept", dict(key0, what=name),
                    dict(lab, expected=arr_desc(want), got=arr_desc(got),
                         why="the frozen scale of the cloned quantizer is not the scale the live quantizer exposes "
                             "for the weights of the model"), mirrored=False)
    if not d["freeze"] or d["attrs"] != cfg_attrs("qbits", c["cfg"]):
      run.violate("consumer_keeps_quantizer", dict(key0, what="attributes"),
                  dict(lab, attrs=d["attrs"], freeze_scale=d["freeze"]), mirrored=False)
    msteps = out.get("steps", [])
    mo = msteps[1] if len(msteps) > 1 else {"err": "missing"}
    try:
      sc = A.broadcast_scale(d["obs1"]["sc"], tuple(d["w"].shape))
    except ValueError:
      continue
    cc = dict(c["cfg"], q="qbits", stream="consumer", shape=list(d["w"].shape), x=d["w"], ch_last=True, pts=d["want_pts"],
              consumer=lab)
    tie_and_judge(run, cc, (A.fr(d["w"]), A.fr(d["y"]), [F(float(v)) for v in sc], None), mo)


def tie_and_judge(run, c, im, o):
  """one call of the real code (x, y, broadcast scale, quantization_scale as Fractions) against the model's answer
  `o` for the same call, then the clause oracle on the REAL output; returns (y, scale, band) or None"""
  x, y, sc, qs = im
  run.case(key=(c["q"], c["stream"], tuple(c["shape"]), c["bits"], c["integer"], c["po2"], str(c.get("sa")),
                str(c.get("eps")), len(run.nontrivial)), nontrivial=True,
           sample={"case": label(c), "x": [float(v) for v in x[:6]], "impl_y": [float(v) for v in y[:6]],
                   "impl_scale": [float(v) for v in sc[:6]]})
  run.count("stream:%s:%s:%s" % (c["stream"], c["q"], "auto_po2" if c["po2"] else "auto"))
  if "err" in o:
    run.disagree("model-rejects", label(c), "ok", o)
    return None
  Fm = {k: A.dec(v) for k, v in o["F"].items()}
  band = o["band"]
  run.compared += 1
  mirrored = Fm["out"] == y and Fm["scale"] == sc and (qs is None or Fm["qs"] == qs)
  if band:
    run.count("tie:band")
  elif not mirrored:
    j = next((i for i in range(len(y)) if Fm["out"][i] != y[i] or Fm["scale"][i] != sc[i]), 0)
    run.disagree("bit-exact:" + c["q"], label(c), {"i": j, "x": float(x[j]), "y": float(y[j]), "scale": float(sc[j])},
                 {"i": j, "y": float(Fm["out"][j]), "scale": float(Fm["scale"][j])})
  else:
    run.count("tie:bit-exact")
  if c["stream"] != "history" and "scale_shapes" in c:
    # the exposed scale is ONE value per output channel: keepdims shape over everything but the scale axes
    want = spec_scale_shape(c["q"], c, c["shape"], c["ch_last"], c.get("pts"))
    if any(g != want for g in c["scale_shapes"]):
      run.violate("scale_shape", dict(quantizer="quantized_bits" if c["q"] == "qbits" else "quantized_linear",
                                      alpha="auto_po2" if c["po2"] else "auto"),
                  {"case": label(c), "expected": want}, mirrored=False)
  if c["q"] == "qbits":
    judge_qbits(run, c, x, y, sc, mirrored)
  else:
    judge_qlinear(run, c, x, y, sc, qs, mirrored)
  return (y, sc, band, qs)


def run(run, tier):
  import tensorflow as tf
  import tf_keras.backend as K
  from qkeras import quantizers as Q
  core.assert_repo_import()
  rng = np.random.default_rng(run.seed)
  eps32 = F(float(np.float32(K.epsilon())))
  qb, twins = gen_qbits(rng, tier)
  cases = qb + gen_qlinear(rng, tier)
  # scale_axis counted from the end: own random stream, so that the streams above keep their cases
  rng_ax = np.random.default_rng([run.seed, 512])
  ax_pairs = gen_axis_cases(rng_ax, tier)
  for c, d in ax_pairs:
    cases += [c, d]
  run.extra["rule"] = ("quantized_bits(bits 2-8, integer 0-3, keep_negative, alpha auto/auto_po2, scale_axis int/list, "
                       "elements_per_scale, exponent bounds, post_training_scale, both data formats) and "
                       "quantized_linear(bits 1-8, symmetric, keep_negative, auto/auto_po2, scale_axis) x rank 1-4 "
                       "tensors: exact-regime dyadics incl. all-zero / zero channel / one big element / tiny / huge, "
                       "random float32 at 1e-6..1e6, power-of-two twins, absorption points. HISTORIES on one object "
                       "(8 patterns x both classes x auto/auto_po2: rank up / rank down / same shape with x, 2^k x, other "
                       "data, x again / data format switched between calls / public attributes re-assigned / all-zero "
                       "then data / frozen post-training scale over ranks / alpha=None stand-alone call then "
                       "_set_trainable_parameter): every step judged by the clause oracle, tied to the Lean object model "
                       "and compared with a fresh twin (output, scale values and shape, attributes). Argument forms "
                       "(numpy / float / 0-d array options, ndarray / float64 / Variable / list inputs). CONSUMER histories: "
                       "the quantizers as kernel / bias quantizers of QDense / QConv2D models (live, or frozen with the "
                       "post-training scale in 8 argument forms; one object shared by two layers), events call -> "
                       "model_save_quantized_weights -> call -> second export -> other data -> first tensor again -> "
                       "get_weight_scale -> clone_model_and_freeze_auto_po2_scale, judged after every event (clause oracle "
                       "against the scale exposed NOW, frozen scale kept, attributes untouched, fresh twin, Lean event "
                       "history). SCALE_AXIS COUNTED FROM THE END: fresh objects with a negative int / all-negative list / "
                       "mixed list axis (with elements_per_scale too) on rank 1-4 tensors, each paired with the same "
                       "configuration spelled from the start (clause oracle on both, pair bit-identical); one object with a "
                       "negative axis over tensors of changing rank, the axis re-spelled between calls, every step compared "
                       "with a fresh twin spelled from the start; the negative axis as python int / np.int64 / np.int32 / list. "
                       "Every case has a "
                       "data-dependent (or frozen) scale, so every case is non-trivial.")
  lines, impl = [], []
  for c in cases:
    lines.append(line_of(c, eps32))
    try:
      y, sc, qs = impl_call(Q, K, tf, c)
    except Exception as e:  # pylint: disable=broad-except
      # a valid configuration must produce an output: an exception of the real code fails the property here
      run.case(key=("raises", len(run.nontrivial)), nontrivial=True)
      run.count("impl-raises")
      run.violate("returns_output", dict(quantizer=c["q"], alpha="auto_po2" if c["po2"] else "auto",
                                         error=type(e).__name__),
                  {"case": label(c), "error": str(e)[:300]}, mirrored=False)
      impl.append(None)
      continue
    if not (np.isfinite(y).all() and np.isfinite(sc).all() and (qs is None or np.isfinite(qs).all())):
      # clause "finite inputs give finite outputs" (and a finite exposed scale), judged before anything else
      run.case(key=("nonfinite", len(run.nontrivial)), nontrivial=True)
      run.count("impl-nonfinite")
      run.violate("finite", dict(quantizer=c["q"], alpha="auto_po2" if c["po2"] else "auto"),
                  {"case": label(c), "y": [float(v) for v in np.asarray(y).ravel()[:8]],
                   "scale": [float(v) for v in np.asarray(sc).ravel()[:8]]}, mirrored=False)
      impl.append(None)
      continue
    impl.append((A.fr(c["x"]), A.fr(y), [F(float(v)) for v in sc], None if qs is None else [F(float(v)) for v in qs]))
  hists = gen_histories(rng, tier) + gen_axis_histories(rng_ax, tier)
  forms = gen_argforms(rng, tier)
  hist_impl = [run_history(run, Q, K, tf, h) for h in hists]
  hist_lines = [hist_line(h, eps32) for h in hists]
  cons = gen_consumers(rng, tier)
  cons_res = [run_consumer(Q, K, tf, c) for c in cons]
  cons_lines, cons_span = [], []
  for c, r in zip(cons, cons_res):
    ls, ow = consumer_lines(c, r, eps32)
    cons_span.append((len(cons_lines), len(ls), ow))
    cons_lines += ls
  outs_all = core.run_driver("C05", lines + hist_lines + cons_lines)
  outs, hist_outs = outs_all[:len(lines)], outs_all[len(lines):len(lines) + len(hist_lines)]
  cons_outs = outs_all[len(lines) + len(hist_lines):]
  res = {}
  for c, im, o in zip(cases, impl, outs):
    if im is None:
      continue
    r = tie_and_judge(run, c, im, o)
    if r is not None:
      res[id(c)] = r
  for h, recs, o in zip(hists, hist_impl, hist_outs):
    judge_history(run, h, recs, o)
  run_argforms(run, Q, tf, forms)
  for c, r, (a, n, ow) in zip(cons, cons_res, cons_span):
    judge_consumer(run, c, r, cons_outs[a:a + n], ow)
  # ---- an axis counted from the end IS the axis counted from the start: the pair must agree bit for bit
  for c, d in ax_pairs:
    if id(c) not in res or id(d) not in res:
      continue
    run.case(key=("axis-pair", len(run.nontrivial)), nontrivial=True)
    run.compared += 1
    run.count("axis-pair:" + ("list" if isinstance(c["sa"], list) else "int") + (":eps" if c.get("eps") is not None else ""))
    (y0, s0, _, q0), (y1, s1, _, q1) = res[id(c)], res[id(d)]
    if y0 != y1 or s0 != s1 or q0 != q1 or c.get("scale_shapes") != d.get("scale_shapes"):
      j = next((i for i in range(len(y0)) if y0[i] != y1[i] or s0[i] != s1[i]), 0)
      run.violate("function_of_data", dict(quantizer="quantized_bits" if c["q"] == "qbits" else "quantized_linear",
                                           alpha="auto_po2" if c["po2"] else "auto",
                                           form="scale_axis counted from the end"),
                  {"case": label(c), "why": "scale_axis=%r on a tensor of rank %d names the axes %r; the same quantizer "
                                            "configured with those axes gives another output / scale"
                                            % (c["sa"], len(c["shape"]), d["sa"]),
                   "i": j, "x": float(A.fr(c["x"])[j]), "y": float(y0[j]), "y_from_start": float(y1[j]),
                   "scale": float(s0[j]), "scale_from_start": float(s1[j]),
                   "scale_shapes": c.get("scale_shapes"), "scale_shapes_from_start": d.get("scale_shapes")},
                  mirrored=False)
  # ---- scale equivariance on the twins (x -> 2^k x), away from the epsilon floor and the band
  for c, d in twins:
    if id(c) not in res or id(d) not in res:
      continue
    (y0, s0, b0, _), (y1, s1, b1, _) = res[id(c)], res[id(d)]
    k = F(2) ** d["twin_k"]
    ub = c["bits"] - (1 if c["kn"] else 0)
    floor_ok = all(s == 0 or s / F(2) ** ub >= TWIN_FLOOR for s in s0 + s1)
    run.case(key=("twin", len(run.nontrivial)), nontrivial=True)
    if b0 or b1 or not floor_ok:
      run.count("twin:skipped(band-or-eps-floor)")
      continue
    run.count("twin:checked")
    if [v * k for v in y0] != y1 or [v * k for v in s0] != s1:
      j = next((i for i in range(len(y0)) if y0[i] * k != y1[i] or s0[i] * k != s1[i]), 0)
      run.violate("scale_equivariance", dict(quantizer="quantized_bits", alpha="auto_po2" if c["po2"] else "auto"),
                  {"case": label(c), "k": d["twin_k"], "i": j, "y": float(y0[j]), "y_twin": float(y1[j]),
                   "scale": float(s0[j]), "scale_twin": float(s1[j])}, mirrored=True)
  run.extra["cases"] = len(cases)
  run.extra["histories"] = {"objects": len(hists), "calls": sum(len(h["steps"]) for h in hists)}
  run.extra["consumers"] = {"models": len(cons), "objects": sum(len(r["objs"]) for r in cons_res),
                            "events": sum(len(o["events"]) for r in cons_res for o in r["objs"])}
  run.assumptions.append("2^k twins (fresh pairs and same-object pairs of a history) are judged only when every internal "
                         "scale is >= 2^-5 ('well above the epsilon floor': eps/s below the band of the logarithm "
                         "oracle), no band was touched and no exponent bound is configured")
  run.assumptions.append("po2 scales are compared exactly outside a relative 2^-17 band around sqrt(2)*2^k of the "
                         "rounded logarithm (DESIGN 3.2 device 3); inside it only the clause oracle judges")
  run.assumptions.append("float32 +,-,*,/ of TF's CPU kernels are correctly rounded (device 1: the model rounds every "
                         "inexact operation once with rnd32)")
