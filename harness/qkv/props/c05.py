"""C05 — auto-scaled fixed point: quantized_bits(alpha='auto'|'auto_po2', post_training_scale) and
quantized_linear(alpha='auto'|'auto_po2').

Streams (all from run.seed):
  exact / general   real output, q.scale (and quantization_scale) compared BIT FOR BIT with the float32
                    form of the Lean model (every inexact float op rounded once, device 1) unless a
                    po2 rounding fell into the band around sqrt(2)*2^k (device 3; then clause oracle only);
  twins             the same tensor multiplied by 2^k: output and scale must scale by 2^k (away from eps);
  absorb            exponent bounds / frozen scales far below the data: the straight-through sum
                    x + (-x + xq) loses xq (finding);
Clause oracle on the REAL outputs (Python Fractions): y = rnd32(S * k * step) with integer |k| <= 2^(bits-1)-1,
S constant on the SPEC groups and positive, 'auto' maps the group maximum to the top code and clips nothing,
'auto_po2' scales are powers of two within the bounds, everything finite."""
from fractions import Fraction as F

import numpy as np

from .. import autoscale as A
from .. import core


def gen_qbits(rng, tier):
  n_exact, n_general = (240, 80) if tier == "quick" else (1400, 500)
  kinds = ["plain", "plain", "sparse", "zeros", "zero_channel", "one_big", "tiny", "huge"]
  cases = []
  for stream, n in (("exact", n_exact), ("general", n_general)):
    for sh in A.shapes(rng, n, max_elems=128 if tier == "quick" else 256):
      rank = len(sh)
      bits = int(rng.integers(2, 9))
      integer = int(rng.integers(0, 4))
      kn = bool(rng.random() < 0.8)
      po2 = bool(rng.random() < 0.6)
      ch_last = bool(rng.random() < 0.75)
      sa = eps = mn = mx = None
      if rank >= 2:
        t = rng.random()
        if t < 0.3:
          sa = int(rng.integers(0, rank))
        elif t < 0.5:
          k = int(rng.integers(1, rank + 1))
          sa = sorted(rng.choice(rank, size=k, replace=False).tolist())
        if po2 and sa is not None and rng.random() < 0.6:
          axes = sa if isinstance(sa, list) else [sa]
          facs = [int(rng.choice([d for d in (1, 2, 4, 8) if sh[a] % d == 0])) for a in axes]
          eps = (facs if rng.random() < 0.6 else int(min(facs))) if isinstance(sa, list) else facs[0]
      if po2 and rng.random() < 0.4:
        mn = int(rng.integers(-14, 0)) if rng.random() < 0.7 else None
        mx = int(rng.integers(-8, 6)) if rng.random() < 0.7 else None
        # boundary values of the bounds themselves: 0 is a legitimate exponent bound (and falsy in Python)
        t = rng.random()
        if t < 0.12:
          mn = 0
        elif t < 0.24:
          mx = 0
        elif t < 0.30:
          mn = mx = 0
      if stream == "exact":
        x = A.exact_tensor(rng, sh, kinds[int(rng.integers(0, len(kinds)))])
      else:
        x = A.general_tensor(rng, sh, ["normal", "small", "large"][int(rng.integers(0, 3))])
      pts = None
      if rng.random() < 0.12 and rank >= 1:
        # frozen post-training scale: one power of two (or a 3-bit dyadic) per last-axis channel
        pshape = [1] * (rank - 1) + [sh[-1]]
        pts = (rng.integers(1, 8, size=pshape) * np.exp2(rng.integers(-6, 3, size=pshape))).astype(np.float32)
      cases.append(dict(stream=stream, q="qbits", shape=sh, x=x, bits=bits, integer=integer, kn=kn, po2=po2,
                        ch_last=ch_last, sa=sa, eps=eps, mn=mn, mx=mx, pts=pts))
  # twins: x * 2^k for the scale-equivariance clause
  tw = []
  for c in cases:
    if c["stream"] == "exact" and c["pts"] is None and c["mn"] is None and c["mx"] is None and rng.random() < 0.3:
      k = int(rng.choice([-3, 2, 5]))
      d = dict(c)
      d["x"] = (c["x"].astype(np.float64) * 2.0 ** k).astype(np.float32)
      d["stream"] = "twin"
      d["twin_of"] = id(c)
      d["twin_k"] = k
      c["has_twin"] = True
      tw.append((c, d))
  cases += [d for _, d in tw]
  # absorption: exponent bound far below the data
  for xs, bits, mx in (([1e6, 0.5, 3.0, -1.0], 8, -10), ([2.0 ** 22, 1.0, -2.0, 0.25], 4, -8)):
    cases.append(dict(stream="absorb", q="qbits", shape=[2, 2], x=np.array(xs, dtype=np.float32).reshape(2, 2),
                      bits=bits, integer=0, kn=True, po2=True, ch_last=True, sa=None, eps=None, mn=None, mx=mx,
                      pts=None))
  # exponent bounds that are 0 (falsy but configured), with data whose best scale lies outside them
  for mn, mx in ((None, 0), (0, None), (0, 0), (0, 3), (-3, 0)):
    for mag in (200.0, 1.0 / 64):
      for bits in (3, 6):
        sh = [3, 4]
        x = (rng.integers(-7, 8, size=sh) * mag / 8.0).astype(np.float32)
        x[0, 0] = mag
        cases.append(dict(stream="bound0", q="qbits", shape=sh, x=x, bits=bits, integer=int(rng.integers(0, 2)),
                          kn=True, po2=True, ch_last=True, sa=None, eps=None, mn=mn, mx=mx, pts=None))
  return cases, tw


def gen_qlinear(rng, tier):
  n_exact, n_general = (160, 50) if tier == "quick" else (900, 300)
  kinds = ["plain", "plain", "sparse", "zeros", "zero_channel", "one_big", "tiny", "huge"]
  cases = []
  for stream, n in (("exact", n_exact), ("general", n_general)):
    for sh in A.shapes(rng, n, max_elems=128 if tier == "quick" else 256):
      rank = len(sh)
      bits = int(rng.integers(1, 9))
      integer = int(rng.integers(0, 4))
      kn = bool(rng.random() < 0.8)
      sym = bool(rng.random() < 0.7)
      po2 = bool(rng.random() < 0.55)
      ch_last = bool(rng.random() < 0.75)
      sa = None
      if rank >= 2 and rng.random() < 0.4:
        sa = int(rng.integers(0, rank)) if rng.random() < 0.6 else sorted(
            rng.choice(rank, size=int(rng.integers(1, rank + 1)), replace=False).tolist())
      if stream == "exact":
        x = A.exact_tensor(rng, sh, kinds[int(rng.integers(0, len(kinds)))])
      else:
        x = A.general_tensor(rng, sh, ["normal", "small", "large"][int(rng.integers(0, 3))])
      cases.append(dict(stream=stream, q="qlinear", shape=sh, x=x, bits=bits, integer=integer, kn=kn, sym=sym,
                        po2=po2, ch_last=ch_last, sa=sa))
  return cases


def impl_call(Q, K, tf, c):
  K.set_image_data_format("channels_last" if c["ch_last"] else "channels_first")
  try:
    alpha = "auto_po2" if c["po2"] else "auto"
    xt = tf.constant(c["x"])
    if c["q"] == "qbits":
      q = Q.quantized_bits(c["bits"], c["integer"], 0, keep_negative=c["kn"], alpha=alpha, scale_axis=c["sa"],
                           elements_per_scale=c["eps"], min_po2_exponent=c["mn"], max_po2_exponent=c["mx"],
                           post_training_scale=c["pts"])
      y = np.asarray(q(xt), dtype=np.float32)
      sc = A.broadcast_scale(q.scale if not hasattr(q.scale, "numpy") else q.scale.numpy(), c["x"].shape)
      return y, sc, None
    q = Q.quantized_linear(c["bits"], c["integer"], int(c["sym"]), keep_negative=c["kn"], alpha=alpha,
                           scale_axis=c["sa"])
    y = np.asarray(q(xt), dtype=np.float32)
    sc = A.broadcast_scale(np.asarray(q.scale), c["x"].shape)
    qs = A.broadcast_scale(np.asarray(q.quantization_scale), c["x"].shape)
    return y, sc, qs
  finally:
    K.set_image_data_format("channels_last")


def line_of(c, eps32):
  if c["q"] == "qbits":
    cfg = dict(bits=c["bits"], integer=c["integer"], keep_negative=c["kn"], po2=c["po2"], ch_last=c["ch_last"],
               sa=c["sa"], eps=c["eps"], min_e=c["mn"], max_e=c["mx"])
    l = dict(op="qbits_auto", cfg=cfg, shape=c["shape"], x=A.enc(A.fr(c["x"])), eps32=core.rj(eps32))
    if c["pts"] is not None:
      l["pts"] = A.enc(A.fr(np.broadcast_to(c["pts"], c["x"].shape)))
    return l
  cfg = dict(bits=c["bits"], integer=c["integer"], symmetric=c["sym"], keep_negative=c["kn"], po2=c["po2"],
             ch_last=c["ch_last"], sa=c["sa"])
  return dict(op="qlinear_auto", cfg=cfg, shape=c["shape"], x=A.enc(A.fr(c["x"])), eps32=core.rj(eps32))


def label(c):
  d = {k: v for k, v in c.items() if k not in ("x", "twin_of", "has_twin")}
  if d.get("pts") is not None:
    d["pts"] = np.asarray(d["pts"]).ravel().tolist()
  return d


def floor_half(q):
  """floor(q + 1/2)"""
  t = q + F(1, 2)
  return t.numerator // t.denominator


def recover_code(run, x, y, unit, lo, hi, cands_extra=()):
  """the integer (or half-integer) k with y = rnd32(unit * k) directly or through the straight-through
  float sum; returns (k, how) with how in direct / ste-rounded / ste-absorption / not-a-code"""
  if unit == 0:
    return (F(0), "direct") if y == 0 else (None, "not-a-code")
  k0 = floor_half(y / unit)
  direct = [k for k in [F(k0), F(k0 - 1), F(k0 + 1)] + list(cands_extra) if A.rnd32(unit * k) == y]
  inr = [k for k in direct if lo <= k <= hi]
  if inr:
    return inr[0], "direct"
  # the code the input calls for at this scale (nearest, saturating), and its neighbours
  kn = floor_half(abs(x) / unit)
  sg = 1 if x > 0 else (-1 if x < 0 else 0)
  near = [sg * min(max(kn + d, 0), hi if sg >= 0 else -lo) for d in (0, -1, 1)]
  for k in [F(v) for v in near] + list(cands_extra):
    yy = A.rnd32(unit * k)
    if F(float(A.ste32(float(x), float(yy)))) == y:
      # merely rounded: the observable code y/unit is still nearest to k; absorbed: it is another code
      return (k, "ste-rounded") if abs(y / unit - k) < F(1, 2) else (k, "ste-absorption")
  if direct:
    return direct[0], "direct"       # a multiple of the unit, but outside the code interval
  return None, "not-a-code"


def judge_qbits(run, c, x, y, sc, mirrored):
  bits, integer, kn, po2 = c["bits"], c["integer"], c["kn"], c["po2"]
  ub = bits - (1 if kn else 0)
  step = F(2) ** (integer - ub)
  L2 = 2 ** (bits - 1) - 1
  key0 = dict(quantizer="quantized_bits", alpha="auto_po2" if po2 else "auto", frozen=c["pts"] is not None)
  det0 = {"case": label(c)}
  n = len(x)
  if not all(np.isfinite(float(v)) for v in y):
    run.violate("finite", key0, det0, mirrored=mirrored)
  codes = []
  for i in range(n):
    k, how = recover_code(run, x[i], y[i], sc[i] * step, -L2, L2)
    run.count("code:" + how)
    if how in ("not-a-code", "ste-absorption"):
      run.violate("code_times_scale", dict(key0, why=how),
                  dict(det0, i=i, x=float(x[i]), y=float(y[i]), scale=float(sc[i]), step=float(step),
                       y_over_unit=(float(y[i] / (sc[i] * step)) if sc[i] else None), code_expected=str(k)),
                  mirrored=mirrored)
    elif abs(k) > L2:
      run.violate("code_range", key0, dict(det0, i=i, x=float(x[i]), y=float(y[i]), code=str(k), max=L2), mirrored=mirrored)
    codes.append(k)
  if c["pts"] is not None:
    want = A.fr(np.broadcast_to(c["pts"], c["x"].shape))
    if [F(v) for v in want] != sc:
      run.violate("frozen_scale_kept", key0, det0, mirrored=mirrored)
    return
  groups = A.spec_groups(c["shape"], c["sa"], c["eps"] if po2 else None, c["ch_last"])
  if len(c["shape"]) <= 1 and not po2:
    groups = [0] * n          # rank 1, 'auto': one scale for the whole vector (axis = [0])
  by = {}
  for i, g in enumerate(groups):
    by.setdefault(g, []).append(i)
  for g, idx in by.items():
    ss = {sc[i] for i in idx}
    zero = all(x[i] == 0 for i in idx)
    run.count("group:" + ("zero" if zero else "nonzero"))
    if len(ss) != 1:
      run.violate("scale_group_constant", key0, dict(det0, group=str(g), scales=[float(s) for s in sorted(ss)[:4]]),
                  mirrored=mirrored)
      continue
    s = sc[idx[0]]
    if s <= 0:
      run.violate("scale_positive", dict(key0, zero_group=zero), dict(det0, group=str(g), scale=float(s)),
                  mirrored=mirrored)
      continue
    if po2:
      if not A.is_pow2(s):
        run.violate("po2", dict(key0, why="not-a-power-of-two"), dict(det0, group=str(g), scale=float(s)),
                    mirrored=mirrored)
        continue
      e = A.log2_exact(s) - ub       # exponent of the internal scale (the one the bounds apply to)
      lo, hi = c["mn"], c["mx"]
      if lo is not None and hi is not None and hi < lo:
        hi = lo
      if (lo is not None and e < lo) or (hi is not None and e > hi):
        run.violate("po2", dict(key0, why="outside-exponent-bounds"), dict(det0, group=str(g), e=e, min=c["mn"], max=c["mx"]),
                    mirrored=mirrored)
    elif not zero:
      # 'auto': the element of largest magnitude sits on the top code, nothing is clipped
      j = max(idx, key=lambda i: abs(x[i]))
      if codes[j] is not None and abs(codes[j]) != L2:
        run.violate("auto_top_code", key0, dict(det0, group=str(g), x=float(x[j]), code=str(codes[j]), top=L2),
                    mirrored=mirrored)
      unit = s * step
      if any(abs(x[i]) > (L2 + F(1, 2)) * unit for i in idx):
        run.violate("auto_no_clip", key0, dict(det0, group=str(g), scale=float(s)), mirrored=mirrored)


def judge_qlinear(run, c, x, y, sc, qs, mirrored):
  bits, integer, kn, sym, po2 = c["bits"], c["integer"], c["kn"], c["sym"], c["po2"]
  ub = bits - (1 if kn else 0)
  signfn = bits == 1 and kn
  dts = F(2) ** (integer - ub)
  if signfn:
    lo, hi = F(-1, 2), F(1, 2)
  else:
    hi = F(2 ** ub - 1)
    lo = F((-(2 ** ub) + (1 if sym else 0)) if kn else 0)
  key0 = dict(quantizer="quantized_linear", alpha="auto_po2" if po2 else "auto")
  det0 = {"case": label(c)}
  n = len(x)
  if not all(np.isfinite(float(v)) for v in y):
    run.violate("finite", key0, det0, mirrored=mirrored)
  codes = []
  for i in range(n):
    if A.rnd32(qs[i] / dts) != sc[i]:
      run.violate("scale_relation", key0, dict(det0, i=i, scale=float(sc[i]), qs=float(qs[i])), mirrored=mirrored)
    extra = [F(-1, 2), F(1, 2)] if signfn else []
    k, how = recover_code(run, x[i], y[i], qs[i], lo, hi, extra)
    run.count("code:" + how)
    if how in ("not-a-code", "ste-absorption"):
      run.violate("code_times_scale", dict(key0, why=how),
                  dict(det0, i=i, x=float(x[i]), y=float(y[i]), qs=float(qs[i])), mirrored=mirrored)
    elif k < lo or k > hi or (signfn and abs(k) != F(1, 2)):
      run.violate("code_range", key0, dict(det0, i=i, x=float(x[i]), y=float(y[i]), code=str(k)), mirrored=mirrored)
    codes.append(k)
  rank = len(c["shape"])
  if rank <= 1:
    groups = list(range(n))
    if c["sa"] is not None:
      groups = A.spec_groups(c["shape"] + [1], c["sa"], None, c["ch_last"])
  else:
    groups = A.spec_groups(c["shape"], c["sa"], None, c["ch_last"])
  by = {}
  for i, g in enumerate(groups):
    by.setdefault(g, []).append(i)
  for g, idx in by.items():
    ss = {qs[i] for i in idx}
    if len(ss) != 1:
      run.violate("scale_group_constant", key0, dict(det0, group=str(g)), mirrored=mirrored)
      continue
    s = qs[idx[0]]
    if s <= 0:
      run.violate("scale_positive", key0, dict(det0, group=str(g), qs=float(s)), mirrored=mirrored)
      continue
    if po2 and not A.is_pow2(s):
      run.violate("po2", dict(key0, why="not-a-power-of-two"), dict(det0, group=str(g), qs=float(s)), mirrored=mirrored)
    if not po2 and kn and not signfn and any(x[i] != 0 for i in idx):
      j = max(idx, key=lambda i: abs(x[i]))
      top = hi          # magnitude of the top positive code; with symmetric=0 the negative maximum
                        # lands on -2^ub or -2^ub+1 (a rounding tie at -2^ub + 1/2), both >= hi in magnitude
      if codes[j] is not None and (abs(codes[j]) < top or (codes[j] > 0) != (x[j] > 0)) \
          and s > F(float(np.float32(1e-7))):
        run.violate("auto_top_code", key0, dict(det0, group=str(g), x=float(x[j]), code=str(codes[j]), top=str(top)),
                    mirrored=mirrored)


def run(run, tier):
  import tensorflow as tf
  import tf_keras.backend as K
  from qkeras import quantizers as Q
  core.assert_repo_import()
  rng = np.random.default_rng(run.seed)
  eps32 = F(float(np.float32(K.epsilon())))
  qb, twins = gen_qbits(rng, tier)
  cases = qb + gen_qlinear(rng, tier)
  run.extra["rule"] = ("quantized_bits(bits 2-8, integer 0-3, keep_negative, alpha auto/auto_po2, scale_axis int/list, "
                       "elements_per_scale, exponent bounds, post_training_scale, both data formats) and "
                       "quantized_linear(bits 1-8, symmetric, keep_negative, auto/auto_po2, scale_axis) x rank 1-4 "
                       "tensors: exact-regime dyadics incl. all-zero / zero channel / one big element / tiny / huge, "
                       "random float32 at 1e-6..1e6, power-of-two twins, absorption points. Every case has a "
                       "data-dependent (or frozen) scale, so every case is non-trivial.")
  lines, impl = [], []
  for c in cases:
    lines.append(line_of(c, eps32))
    try:
      y, sc, qs = impl_call(Q, K, tf, c)
    except Exception as e:  # pylint: disable=broad-except
      # a valid configuration must produce an output: an exception of the real code fails the property here
      run.case(key=("raises", len(run.nontrivial)), nontrivial=True)
      run.count("impl-raises")
      run.violate("returns_output", dict(quantizer=c["q"], alpha="auto_po2" if c["po2"] else "auto",
                                         error=type(e).__name__),
                  {"case": label(c), "error": str(e)[:300]}, mirrored=False)
      impl.append(None)
      continue
    if not (np.isfinite(y).all() and np.isfinite(sc).all() and (qs is None or np.isfinite(qs).all())):
      # clause "finite inputs give finite outputs" (and a finite exposed scale), judged before anything else
      run.case(key=("nonfinite", len(run.nontrivial)), nontrivial=True)
      run.count("impl-nonfinite")
      run.violate("finite", dict(quantizer=c["q"], alpha="auto_po2" if c["po2"] else "auto"),
                  {"case": label(c), "y": [float(v) for v in np.asarray(y).ravel()[:8]],
                   "scale": [float(v) for v in np.asarray(sc).ravel()[:8]]}, mirrored=False)
      impl.append(None)
      continue
    impl.append((A.fr(c["x"]), A.fr(y), [F(float(v)) for v in sc], None if qs is None else [F(float(v)) for v in qs]))
  outs = core.run_driver("C05", lines)
  res = {}
  for c, im, o in zip(cases, impl, outs):
    if im is None:
      continue
    x, y, sc, qs = im
    run.case(key=(c["q"], c["stream"], tuple(c["shape"]), c["bits"], c["integer"], c["po2"], str(c.get("sa")),
                  str(c.get("eps")), len(run.nontrivial)), nontrivial=True,
             sample={"case": label(c), "x": [float(v) for v in x[:6]], "impl_y": [float(v) for v in y[:6]],
                     "impl_scale": [float(v) for v in sc[:6]]})
    run.count("stream:%s:%s:%s" % (c["stream"], c["q"], "auto_po2" if c["po2"] else "auto"))
    if "err" in o:
      run.disagree("model-rejects", label(c), "ok", o)
      continue
    Fm = {k: A.dec(v) for k, v in o["F"].items()}
    band = o["band"]
    run.compared += 1
    mirrored = Fm["out"] == y and Fm["scale"] == sc and (qs is None or Fm["qs"] == qs)
    if band:
      run.count("tie:band")
    elif not mirrored:
      j = next((i for i in range(len(y)) if Fm["out"][i] != y[i] or Fm["scale"][i] != sc[i]), 0)
      run.disagree("bit-exact:" + c["q"], label(c), {"i": j, "x": float(x[j]), "y": float(y[j]), "scale": float(sc[j])},
                   {"i": j, "y": float(Fm["out"][j]), "scale": float(Fm["scale"][j])})
    else:
      run.count("tie:bit-exact")
    res[id(c)] = (y, sc, band)
    if c["q"] == "qbits":
      judge_qbits(run, c, x, y, sc, mirrored)
    else:
      judge_qlinear(run, c, x, y, sc, qs, mirrored)
  # ---- scale equivariance on the twins (x -> 2^k x), away from the epsilon floor and the band
  for c, d in twins:
    if id(c) not in res or id(d) not in res:
      continue
    (y0, s0, b0), (y1, s1, b1) = res[id(c)], res[id(d)]
    k = F(2) ** d["twin_k"]
    ub = c["bits"] - (1 if c["kn"] else 0)
    floor_ok = all(s == 0 or s / F(2) ** ub >= F(1, 2 ** 10) for s in s0 + s1)
    run.case(key=("twin", len(run.nontrivial)), nontrivial=True)
    if b0 or b1 or not floor_ok:
      run.count("twin:skipped(band-or-eps-floor)")
      continue
    run.count("twin:checked")
    if [v * k for v in y0] != y1 or [v * k for v in s0] != s1:
      j = next((i for i in range(len(y0)) if y0[i] * k != y1[i] or s0[i] * k != s1[i]), 0)
      run.violate("scale_equivariance", dict(quantizer="quantized_bits", alpha="auto_po2" if c["po2"] else "auto"),
                  {"case": label(c), "k": d["twin_k"], "i": j, "y": float(y0[j]), "y_twin": float(y1[j]),
                   "scale": float(s0[j]), "scale_twin": float(s1[j])}, mirrored=True)
  run.extra["cases"] = len(cases)
  run.assumptions.append("po2 scales are compared exactly outside a relative 2^-17 band around sqrt(2)*2^k of the "
                         "rounded logarithm (DESIGN 3.2 device 3); inside it only the clause oracle judges")
  run.assumptions.append("float32 +,-,*,/ of TF's CPU kernels are correctly rounded (device 1: the model rounds every "
                         "inexact operation once with rnd32)")
