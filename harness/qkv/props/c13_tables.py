"""C13 static side: read constructor signatures, get_config key sets and the custom-object table
from the LIVE qkeras objects, in the shape of the Lean tables (QKV.Model.LayerConfigTables).

`live_tables()` is compared exhaustively with the driver's `op: tables` dump on every run.
`python -m qkv.props.c13_tables > .../LayerConfigTables.lean` regenerates the Lean file (the
classification rules `KIND_RULES`, `READ_LITS`, `TRAINABLE_SLOTS` below are the hand-written part
of the model; everything else comes from the live objects).
"""
import fractions
import inspect
import json

# quantizer classes that a layer config can name and that used to be missing from the custom-object
# table (fix round: both are keys of the table now; should one disappear again it is still tabulated,
# after the table's own classes, so that the static tie reports the table difference and nothing else)
FORMERLY_MISSING_QUANTIZERS = ["quantized_linear", "quantized_hswish"]


def extra_quantizers(co):
  return [n for n in FORMERLY_MISSING_QUANTIZERS if n not in co]

# literal constructor arguments that the inference computation of a layer reads (model side)
READ_LITS = {
    "units", "filters", "kernel_size", "strides", "padding", "data_format", "dilation_rate", "use_bias",
    "depth_multiplier", "pool_size", "axis", "epsilon", "center", "scale", "return_sequences",
    "return_state", "go_backwards", "stateful", "unroll", "implementation", "reset_after", "total_bits",
    "symmetric", "per_channel", "po2_rounding", "relu_neg_slope", "relu_upper_bound", "output_padding",
}
# quantizer slots on which the layer constructor calls _set_trainable_parameter()
TRAINABLE_SLOTS = {
    "QDense": ["kernel"], "QConv1D": ["kernel"], "QConv2D": ["kernel"], "QConv2DTranspose": ["kernel"],
    "QConv2DBatchnorm": ["kernel"], "QSeparableConv1D": ["depthwise", "pointwise"],
    "QSeparableConv2D": ["depthwise", "pointwise"], "QDepthwiseConv2D": ["depthwise"],
    "QDepthwiseConv2DBatchnorm": ["depthwise"], "QBatchNormalization": ["gamma", "variance"],
    "QScaleShift": ["weight", "bias"],
    "QSimpleRNNCell": ["kernel", "recurrent"], "QSimpleRNN": ["kernel", "recurrent"],
    "QLSTMCell": ["kernel", "recurrent"], "QLSTM": ["kernel", "recurrent"],
    "QGRUCell": ["kernel", "recurrent"], "QGRU": ["kernel", "recurrent"],
}
# literal that must be truthy for the auto-range wrapping of slot X
COND = {"bias": ["use_bias"], "gamma": ["scale"], "beta": ["center"]}
HOOK = {"QSimpleRNN": 1, "QLSTM": 2, "QGRU": 2}
# minimal positional arguments to build a default instance
SAMPLE_ARGS = {
    "QDense": dict(units=2), "QConv1D": dict(filters=2, kernel_size=2), "QConv2D": dict(filters=2, kernel_size=2),
    "QConv2DTranspose": dict(filters=2, kernel_size=2), "QSimpleRNNCell": dict(units=2),
    "QSimpleRNN": dict(units=2), "QLSTMCell": dict(units=2), "QLSTM": dict(units=2), "QGRUCell": dict(units=2),
    "QGRU": dict(units=2), "QDepthwiseConv2D": dict(kernel_size=2),
    "QSeparableConv1D": dict(filters=2, kernel_size=2), "QSeparableConv2D": dict(filters=2, kernel_size=2),
    "QActivation": dict(activation="quantized_relu(3)"),
    "QAdaptiveActivation": dict(activation="quantized_bits", total_bits=4), "QBatchNormalization": {},
    "QConv2DBatchnorm": dict(filters=2, kernel_size=2), "QDepthwiseConv2DBatchnorm": dict(kernel_size=2),
    "QAveragePooling2D": {}, "QGlobalAveragePooling2D": {}, "QScaleShift": {},
}
NOT_LAYER_SPECS = ["QInitializer", "Clip", "QBidirectional"]
# forwarded constructor arguments (see forwarded_params) that the class' own call() never looks at:
# QConv2DBatchnorm.call folds and convolves self.kernel directly, the QConv2D mask is stored and
# serialised but not applied
FORWARDED_NOT_READ = {("QConv2DBatchnorm", "mask")}
# constructor arguments of the KERAS base classes that a library class does not name but accepts through
# **kwargs (see base_kwargs): the ones the inference computation reads (hand-written, like READ_LITS)
READ_BASE_KWARGS = {"groups", "data_format", "time_major", "keepdims"}
# arguments of `Layer.__init__` itself / bookkeeping of Keras: runtime flags, not class arguments
# (dtype other than float32 does not run with the library's float32 quantizers)
GENERIC_LAYER_KWARGS = {"name", "trainable", "dtype", "dynamic", "activity_regularizer", "conv_op",
                        "force_generator", "rng_type", "adjustment", "rank", "cell", "pool_function"}
# a legal non-default value per base-class argument (what the generated layers are built with)
BASE_KWARG_VALUES = {"groups": 2, "data_format": "channels_first", "time_major": True, "keepdims": True,
                     "synchronized": True, "seed": 3, "kernel_initializer": "zeros", "kernel_regularizer": "l2",
                     "kernel_constraint": "non_neg", "renorm_momentum": 0.5, "virtual_batch_size": 2}


def pv(v):
  """python literal -> protocol PyVal (JSON): None/bool/str as is, numbers {"$r":[n,d]}, lists"""
  import numpy as np
  if v is None:
    return None
  if isinstance(v, (bool, np.bool_)):
    return bool(v)
  if isinstance(v, str):
    return v
  if isinstance(v, (int, float, np.integer, np.floating)):
    f = fractions.Fraction(float(v)) if isinstance(v, (float, np.floating)) else fractions.Fraction(int(v))
    return {"$r": [f.numerator, f.denominator]}
  if isinstance(v, (list, tuple)):
    return [pv(x) for x in v]
  if isinstance(v, np.ndarray):
    return pv(v.tolist())
  if isinstance(v, dict):
    return {"$d": {str(k): pv(x) for k, x in v.items()}}
  if hasattr(v, "numpy"):
    return pv(v.numpy())
  if hasattr(v, "_storage") or v.__class__.__name__ in ("ListWrapper",):
    return pv(list(v))
  raise TypeError("pv: cannot encode %r (%s)" % (v, type(v)))


def custom_objects():
  from qkeras.utils import _add_supported_quantized_objects
  co = {}
  _add_supported_quantized_objects(co)
  return co


def sig_params(cls):
  sig = inspect.signature(cls.__init__)
  out = []
  for p in sig.parameters.values():
    if p.name == "self" or p.kind in (p.VAR_KEYWORD, p.VAR_POSITIONAL):
      continue
    out.append((p.name, p.default is inspect.Parameter.empty, None if p.default is inspect.Parameter.empty else p.default))
  return out


def forwarded_params(c, co, sample):
  """constructor arguments a class does not name itself but accepts through **kwargs and hands to
  the constructor of a library base class that does (QConv2DBatchnorm -> QConv2D: kernel_range,
  bias_range, mask).  They are constructor parameters of the class for every purpose of C13:
  get_config writes them and from_config / cls(**config) reads them back.  Observed live: the base
  class' signature, and that the constructor accepts the argument at its default."""
  sig = inspect.signature(c.__init__)
  if not any(p.kind == p.VAR_KEYWORD for p in sig.parameters.values()):
    return []
  bases = [b for b in c.__mro__[1:] if any(b is v for v in co.values())]
  if not bases:
    return []
  own = set(sig.parameters)
  out = []
  for name, req, d in sig_params(bases[0]):
    if name in own or req:
      continue
    try:
      c(**dict(sample, **{name: d}))
    except TypeError:
      continue
    out.append((name, req, d))
  return out


def base_kwargs(c, sample):
  """constructor arguments of the Keras base classes of `c` that `c.__init__` does not name itself and
  that reach the base class through **kwargs (QGlobalAveragePooling2D: keepdims; QConv1D/2D: groups,
  data_format; QSimpleRNN/QLSTM/QGRU: time_major; ...): (name, default, emitted, read).  Observed live:
  the signatures along the MRO, that the constructor accepts a non-default value, and whether
  `get_config()` of an instance built with that value has the key.  `read` is the hand-written part."""
  sig = inspect.signature(c.__init__)
  if not any(p.kind == p.VAR_KEYWORD for p in sig.parameters.values()):
    return []
  own = set(sig.parameters) | {p[0] for p in forwarded_params(c, custom_objects(), sample)}
  out, seen = [], set()
  for b in c.__mro__[1:]:
    if not b.__module__.startswith(("tf_keras", "keras")) or b.__name__ in ("Layer", "Module"):
      continue
    try:
      bsig = inspect.signature(b.__init__)
    except (TypeError, ValueError):
      continue
    for p in bsig.parameters.values():
      if p.name == "self" or p.kind in (p.VAR_KEYWORD, p.VAR_POSITIONAL) or p.default is inspect.Parameter.empty:
        continue
      if p.name in own or p.name in seen or p.name in GENERIC_LAYER_KWARGS:
        continue
      seen.add(p.name)
      v = BASE_KWARG_VALUES.get(p.name, p.default)
      try:
        inst = c(**dict(sample, **{p.name: v}))
        cfg = inst.get_config()
      except Exception:  # pylint: disable=broad-except
        continue           # the class does not accept it (QBatchNormalization: fused)
      if hasattr(inst, p.name) and isinstance(getattr(inst, p.name), (bool, int, float, str, type(None))) \
          and getattr(inst, p.name) != v:
        continue           # accepted but not handed on (QBatchNormalization: virtual_batch_size stays None)
      out.append({"name": p.name, "default": pv(p.default if not callable(p.default) else None),
                  "emitted": p.name in cfg, "read": p.name in READ_BASE_KWARGS})
  return out


def tolist_keys(c, pnames):
  """constructor arguments on which get_config calls `.tolist()` (AttributeError for anything that
  is not a numpy value) — observed on a default instance whose attribute is replaced by a plain
  object"""
  class Plain:  # pylint: disable=too-few-public-methods
    pass
  out = []
  for p in pnames:
    q = c()
    try:
      setattr(q, p, Plain())
    except Exception:  # pylint: disable=broad-except
      continue
    try:
      q.get_config()
    except AttributeError as e:
      if "tolist" in str(e):
        out.append(p)
    except Exception:  # pylint: disable=broad-except
      pass
  return out


def is_quantizer_class(c):
  from qkeras import base_quantizer
  return inspect.isclass(c) and issubclass(c, base_quantizer.BaseQuantizer)


def quantizer_table():
  from qkeras import quantizers as Q
  co = custom_objects()
  names = [n for n, c in co.items() if is_quantizer_class(c)] + extra_quantizers(co)
  out = []
  for n in names:
    c = getattr(Q, n)
    ps = sig_params(c)
    q = c()
    cfg = q.get_config()
    pnames = [p[0] for p in ps]
    tr = 0
    if hasattr(q, "_set_trainable_parameter"):
      q2 = c()
      q2._set_trainable_parameter()  # pylint: disable=protected-access
      if getattr(q2, "alpha", None) == "auto_po2":
        tr = 2 if ("symmetric" in pnames and _sets_symmetric(c)) else 1
    out.append({"name": n, "params": [[k, pv(d)] for k, _, d in ps], "emits": list(cfg.keys()),
                "extra": [[k, pv(v)] for k, v in cfg.items() if k not in pnames], "trainable": tr,
                "tolist": tolist_keys(c, pnames)})
  return out


def _sets_symmetric(c):
  """does _set_trainable_parameter also force symmetric=True? (observed on an instance built with
  symmetric=False)"""
  try:
    q = c(symmetric=False)
  except TypeError:
    return False
  q._set_trainable_parameter()  # pylint: disable=protected-access
  return q.symmetric is True


def kind_of(cls_name, pname, pnames):
  """the hand-written classification of constructor parameters (model side)"""
  if cls_name == "QActivation" and pname == "activation":
    return {"k": "rawAct"}
  if cls_name in ("QAdaptiveActivation", "QBatchNormalization") and pname == "activation":
    return {"k": "lit"}
  if pname in ("activation", "recurrent_activation"):
    return {"k": "act"}
  if pname == "mask":
    return {"k": "mask"}
  if pname.endswith("_quantizer"):
    slot = pname[:-len("_quantizer")]
    return {"k": "quant", "t": slot in TRAINABLE_SLOTS.get(cls_name, [])}
  for suf, k in (("_constraint", "constr"), ("_initializer", "init")):
    if pname.endswith(suf):
      slot = pname[:-len(suf)]
      qslot = slot + "_quantizer"
      if qslot in pnames:
        cond = [] if cls_name == "QScaleShift" else COND.get(slot, [])
        d = {"k": k, "q": qslot, "cond": cond}
        if k == "init":
          d["raw"] = cls_name == "QScaleShift"
        return d
      return {"k": "lit"}
  return {"k": "lit"}


def default_arg(kind, d, qnames):
  k = kind["k"]
  if k in ("lit", "fixed", "mask"):
    return {"lit": pv(d)}
  if k == "quant":
    return {"q": None if d is None else {"str": d}}
  if k in ("act", "rawAct"):
    if d is None:
      return {"act": None}
    return {"act": {"raw": d}} if ("(" in d or d in qnames) else {"act": {"fn": d}}
  if k == "constr":
    return {"constr": None}
  if k == "init":
    return {"init": None if d is None else {"keras": pv(d)}}
  raise ValueError(k)


def reported_slots(c, sample, qslots):
  """the order in which `get_quantizers()` lists the quantizer slots of a class: every reported
  object is identified, by identity, with the `<slot>_quantizer` constructor argument it was passed
  as (classes without `get_quantizers`: []).  QBatchNormalization refuses gamma / variance together
  with inverse, so the slots are observed in two builds and merged by position."""
  import qkeras as Q
  def observe(slots):
    objs = {s: Q.quantized_bits(4, 0, 1, alpha=1.0) for s in slots}
    layer = c(**dict(sample, **dict({s: None for s in qslots if s not in slots}, **objs)))
    if not hasattr(layer, "get_quantizers"):
      return None
    return [next((s for s in slots if objs[s] is r), None) for r in layer.get_quantizers()]
  try:
    seen = [observe(qslots)]
  except (ValueError, AssertionError):
    rest = [s for s in qslots if s != "inverse_quantizer"]
    seen = [observe(rest), observe([s for s in qslots if s not in ("gamma_quantizer", "variance_quantizer")])]
  if seen[0] is None:
    return []
  out = []
  for i in range(max(len(x) for x in seen)):
    names = [x[i] for x in seen if i < len(x) and x[i] is not None]
    out.append(names[0] if names else "?")
  return out


def layer_table():
  import tensorflow as tf
  co = custom_objects()
  qnames = [n for n, c in co.items() if is_quantizer_class(c)] + extra_quantizers(co)
  out = []
  for n, c in co.items():
    if is_quantizer_class(c) or n in NOT_LAYER_SPECS:
      continue
    if not (inspect.isclass(c) and issubclass(c, tf.keras.layers.Layer)) or n not in SAMPLE_ARGS:
      # not a layer class (e.g. a plain function registered by name) or a class this file has no
      # sample arguments for: nothing to tabulate; the key itself is reported by the comparison of
      # the table's key list
      continue
    ps = sig_params(c)
    ps = ps + forwarded_params(c, co, SAMPLE_ARGS[n])
    pnames = [p[0] for p in ps]
    inst = c(**SAMPLE_ARGS[n])
    cfg = inst.get_config()
    params = []
    for name, req, d in ps:
      kind = kind_of(n, name, pnames)
      read = (kind["k"] in ("quant", "act", "rawAct", "mask")) or (kind["k"] in ("lit", "fixed") and name in READ_LITS) \
          or (n == "QAdaptiveActivation" and name == "activation")
      if (n, name) in FORWARDED_NOT_READ:
        read = False
      params.append({"name": name, "kind": kind, "default": default_arg(kind, d, qnames), "required": bool(req),
                     "emitted": name in cfg, "read": bool(read)})
    none_lin = False
    if "activation" in pnames and n not in ("QActivation", "QAdaptiveActivation", "QBatchNormalization"):
      none_lin = cfg.get("activation") == "linear"
    out.append({"name": n, "params": params, "none_is_linear": none_lin, "hook": HOOK.get(n, 0),
                "reports": reported_slots(c, SAMPLE_ARGS[n], [p["name"] for p in params if p["kind"]["k"] == "quant"]),
                "base_kwargs": base_kwargs(c, SAMPLE_ARGS[n])})
  del tf
  return out


def keras_activation_names():
  """the names `tf.keras.activations.get` resolves on its own (public functions of the module)"""
  import tensorflow as tf
  return sorted(n for n in dir(tf.keras.activations)
                if not n.startswith("_") and callable(getattr(tf.keras.activations, n))
                and n not in ("get", "serialize", "deserialize"))


def live_tables():
  return {"quantizers": quantizer_table(), "layers": layer_table(), "custom_objects": list(custom_objects().keys()),
          "keras_activation_names": keras_activation_names()}


# ----------------------------------------------------------------------------- Lean emission

def lean_str(s):
  return json.dumps(s)


def lean_pv(v):
  if v is None:
    return ".none"
  if isinstance(v, bool):
    return "(.bool %s)" % ("true" if v else "false")
  if isinstance(v, str):
    return "(.str %s)" % lean_str(v)
  if isinstance(v, list):
    return "(.list [%s])" % ", ".join(lean_pv(x) for x in v)
  if isinstance(v, dict) and "$r" in v:
    n, d = v["$r"]
    return "(.num (%d : Rat))" % n if d == 1 else "(.num ((%d : Rat) / %d))" % (n, d)
  if isinstance(v, dict) and "$d" in v:
    return "(.dict [%s])" % ", ".join("(%s, %s)" % (lean_str(k), lean_pv(x)) for k, x in v["$d"].items())
  raise ValueError(v)


def lean_kind(k):
  t = k["k"]
  if t in ("lit", "act", "rawAct", "mask"):
    return "." + t
  if t == "fixed":
    return "(.fixed %s)" % lean_pv(k["v"])
  if t == "quant":
    return "(.quant %s)" % ("true" if k["t"] else "false")
  strs = "[%s]" % ", ".join(lean_str(c) for c in k["cond"])
  if t == "constr":
    return "(.constr %s %s)" % (lean_str(k["q"]), strs)
  return "(.init %s %s %s)" % (lean_str(k["q"]), strs, "true" if k["raw"] else "false")


def lean_arg(a):
  (t, v), = a.items()
  if t == "lit":
    return "(.lit %s)" % lean_pv(v)
  if t == "q":
    return "(.q .none)" if v is None else "(.q (.str %s))" % lean_str(v["str"])
  if t == "act":
    if v is None:
      return "(.act .none)"
    (tt, s), = v.items()
    return "(.act (.%s %s))" % (tt, lean_str(s))
  if t == "constr":
    return "(.constr .none)"
  if t == "init":
    return "(.init .none)" if v is None else "(.init (.keras %s))" % lean_pv(v["keras"])
  raise ValueError(a)


def emit_lean(t):
  o = []
  o.append("/-\n  QKV.Model.LayerConfigTables — the static tables of the C13 configuration model:\n"
           "  constructor signatures (names, order, defaults), get_config key sets, kinds, read sets and the\n"
           "  custom-object table of qkeras/utils.py `_add_supported_quantized_objects`.\n"
           "  Written out from the live objects once (harness/qkv/props/c13_tables.py) and compared\n"
           "  exhaustively with `inspect.signature` / `get_config()` / the live table on every run.\n"
           "  Kinds, read flags, hooks and trainable slots are the hand-written part (rules in that file).\n-/\n"
           "import QKV.Model.LayerConfig\nnamespace QKV.LC\n")
  for q in t["quantizers"]:
    o.append("def qs_%s : QSpec :=\n  { name := %s,\n    params := [%s],\n    emits := [%s],\n    extra := [%s],\n    trainable := %d,\n    tolist := [%s] }\n"
             % (q["name"], lean_str(q["name"]),
                ",\n      ".join("(%s, %s)" % (lean_str(k), lean_pv(d)) for k, d in q["params"]),
                ", ".join(lean_str(k) for k in q["emits"]),
                ", ".join("(%s, %s)" % (lean_str(k), lean_pv(d)) for k, d in q["extra"]), q["trainable"],
                ", ".join(lean_str(k) for k in q["tolist"])))
  o.append("def qSpecs : List QSpec :=\n  [%s]\n" % ", ".join("qs_" + q["name"] for q in t["quantizers"]))
  for l in t["layers"]:
    ps = []
    for p in l["params"]:
      ps.append("⟨%s, %s, %s, %s, %s, %s⟩" % (lean_str(p["name"]), lean_kind(p["kind"]), lean_arg(p["default"]),
                                               "true" if p["required"] else "false",
                                               "true" if p["emitted"] else "false",
                                               "true" if p["read"] else "false"))
    o.append("def ls_%s : LSpec :=\n  { name := %s,\n    params := [\n      %s],\n    noneIsLinear := %s,\n    hook := %d }\n"
             % (l["name"], lean_str(l["name"]), ",\n      ".join(ps), "true" if l["none_is_linear"] else "false",
                l["hook"]))
  o.append("def lSpecs : List LSpec :=\n  [%s]\n" % ", ".join("ls_" + l["name"] for l in t["layers"]))
  o.append("/-- per layer class: the quantizer slots in the order `get_quantizers()` lists them (`self.quantizers`;\n"
           "    [] = the class has no `get_quantizers`), observed live by object identity -/\n"
           "def reportedSlots : List (String × List String) :=\n  [%s]\n"
           % ",\n   ".join("(%s, [%s])" % (lean_str(l["name"]), ", ".join(lean_str(k) for k in l["reports"]))
                           for l in t["layers"]))
  o.append("/-- per layer class: the constructor arguments of its KERAS base classes that the class does not name\n"
           "    and that reach the base class through `**kwargs` (name, default, written by get_config, read at\n"
           "    inference), observed live along the MRO -/\n"
           "def baseKwargs : List (String × List BaseKw) :=\n  [%s]\n"
           % ",\n   ".join("(%s, [%s])" % (lean_str(l["name"]), ", ".join(
               "⟨%s, %s, %s, %s⟩" % (lean_str(b["name"]), lean_pv(b["default"]), "true" if b["emitted"] else "false",
                                      "true" if b["read"] else "false") for b in l["base_kwargs"]))
                           for l in t["layers"]))
  o.append("/-- keys of `_add_supported_quantized_objects`, in insertion order -/\n"
           "def customObjects : List String :=\n  [%s]\n" % ", ".join(lean_str(k) for k in t["custom_objects"]))
  o.append("/-- the built-in activation names of Keras (public functions of `tf.keras.activations`) -/\n"
           "def kerasActivationNames : List String :=\n  [%s]\n" % ", ".join(lean_str(k) for k in t["keras_activation_names"]))
  o.append("/-- the environment of the real library; `clipBound` stays a parameter -/\n"
           "def env (clipBound : QVal → PyVal) : Env :=\n  { qspecs := qSpecs, lspecs := lSpecs, customObjects := customObjects, clipBound := clipBound,\n"
           "    kerasNames := kerasActivationNames }\n")
  o.append("end QKV.LC\n")
  return "\n".join(o)


if __name__ == "__main__":
  print(emit_lean(live_tables()))
